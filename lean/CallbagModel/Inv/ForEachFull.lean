import CallbagModel.Inv.Ghost2
import CallbagModel.Inv.ForEach
/-!
# for_each: the FULL safety invariant (both ghost layers: C01–C05, C17)

`Mode`, `Benign` are those of `Inv/ForEach.lean`.  New in the invariant: `XOk s.g`.  Sink 0 (the user) is idle, then subscribed
for ever: it is never live, so no upstream-error check is ever recorded (`livesOf` is empty) and `sinkErr` is never set; once
subscribed, some sink is open, so the orphan check never applies.  The case analysis and the step counts are exactly those of
`ForEach.inv_step`.
-/
namespace Cb.ForEachFull
open Cb Cb.ForEach

variable {α : Type}

def Inv (s : Sys St (Loc α) α α) : Prop :=
  s.panicked = none ∧ s.g.ph.viols = [] ∧
  (∀ i, i ≠ 0 → s.g.ph.srcPh i = .idle) ∧ (∀ j, j ≠ 0 → s.g.ph.sinkPh j = .idle) ∧
  Mode s.st s.g.ph s.stack ∧ XOk s.g

theorem inv_turn (s : Sys St (Loc α) α α) (h : Inv s) : EnvTurn s ∧ Safe s := by
  obtain ⟨hp, hb, ho, hos, hm, hx⟩ := h
  have := (ForEach.inv_turn s ⟨hp, hb, ho, hos, hm⟩).1
  exact ⟨this, by simp [G.viols, hb, hx.clean], hp⟩

macro "exec" n:num : tactic =>
  `(tactic| (refine ⟨$n, ?_⟩; simp [advance, opStep, machine, enter, step, Ph.onIn, Ph.onOut, Inv, isFinal, onIn_srcErr, *]))

/-- side goals about fields of a structure literal, whichever way `simp` has normalised it -/
macro "fld" : tactic => `(tactic| first | rfl | assumption | exact Or.inl rfl | exact Or.inr rfl | simp)

/-- no sink is live: nothing to check when an upstream error arrives -/
theorem livesOf_eq_nil {g : Ph} (h : ∀ k, g.sinkPh k ≠ .live) : livesOf g = [] :=
  List.eq_nil_iff_forall_not_mem.2 (fun k hk => h k ((mem_livesOf g k).1 hk))

/-- in every mode the only sink is idle or subscribed -/
theorem sink_quiet {st : St} {g : Ph} {stk : List (Frame (Loc α) α)} (hm : Mode st g stk)
    (hoths : ∀ j, j ≠ 0 → g.sinkPh j = .idle) : ∀ k, g.sinkPh k ≠ .live ∧ g.sinkPh k ≠ .doneBySrc := by
  intro k
  by_cases hk : k = 0
  · subst hk; cases hm <;> simp_all
  · rw [hoths k hk]; exact ⟨by decide, by decide⟩

theorem inv_step (s s' : Sys St (Loc α) α α) (m : Move α) (h : Inv s) (hs : EnvStep (machine α) m s s') :
    ∃ n, Inv (advance (machine α) n s') := by
  obtain ⟨hp, hb, hoth, hoths, hm, hx⟩ := h
  cases hs with
  | @call st stk g tr c i hc hl =>
    simp only at hp hb hoth hoths hm hx
    have hq := sink_quiet hm hoths
    have hpn : g.pend = none := hx.pend_none_of_noDone (fun k => (hq k).2)
    have hlv : (livesOf g.ph).isEmpty = true := by rw [livesOf_eq_nil (fun k => (hq k).1)]; rfl
    cases i with
    | subscribe j =>
      simp only [legalIn, Bool.and_eq_true, beq_iff_eq, machine, Bool.or_false] at hl
      obtain ⟨⟨hc', hidle⟩, rfl⟩ := hl
      cases hm with
      | m1 h1 h2 h3 =>
        subst h3
        have hopen : (g.ph.setSink 0 .subscribed).anySinkOpen = true := (Ph.anySinkOpen_iff _).2 ⟨0, by simp⟩
        exec 1
        refine ⟨fun i hi => by simp [hi, hoth i hi], fun j hj => by simp [hj, hoths j hj], Mode.m2 (by simp) (by simp) rfl, ?_⟩
        exact hx.of_fields (by fld) (by fld) (by fld) (Or.inl hpn) (noOrphan_of_open 0 (by simp))
      | _ => simp_all
    | sinkUp j u =>
      simp only [legalIn, Bool.and_eq_true, beq_iff_eq, Bool.or_eq_true] at hl
      obtain ⟨hlive, hctx⟩ := hl
      exact absurd hlive (hq j).1
    | srcGreet i =>
      simp only [legalIn, Bool.and_eq_true, beq_iff_eq, machine, Bool.false_and, Bool.or_false] at hl
      obtain ⟨hsub, hin⟩ := hl
      by_cases hi : i = 0
      · subst hi
        cases hm with
        | m2 h1 h2 h5 =>
          subst h5
          exec 2
          refine ⟨fun i hi => by simp [hi, hoth i hi], hoths, Mode.m3 h1 (by simp) rfl (by simp [Benign]), ?_⟩
          exact hx.of_fields (by fld) (by fld) (by fld) (Or.inl hpn) (noOrphan_of_open 0 (Or.inl (by simpa using h1)))
        | _ => simp_all
      · simp [hoth i hi] at hsub
    | srcDown i d =>
      simp only [legalIn, Bool.and_eq_true, beq_iff_eq, Bool.or_eq_true] at hl
      obtain ⟨hlive, hctx⟩ := hl
      by_cases hi : i = 0
      · subst hi
        cases hm with
        | m3 h1 h2 h3 h6 =>
          cases d with
          | data a =>
            exec 1
            refine ⟨hoth, hoths, Mode.m3a h1 h2 h3 ⟨a, stk, rfl, h6⟩, ?_⟩
            exact hx.of_fields (by fld) (by fld) (by fld) (Or.inl hpn) (noOrphan_of_open 0 (Or.inl h1))
          | term =>
            exec 1
            refine ⟨fun i hi => by simp [hi, hoth i hi], hoths, Mode.m4 h1 (by simp) h6, ?_⟩
            apply XOk.onRetO
            exact hx.of_fields (by fld) (by fld) (by fld) (Or.inl hpn) (noOrphan_of_open 0 (Or.inl (by simpa using h1)))
          | err e =>
            exec 1
            refine ⟨fun i hi => by simp [hi, hoth i hi], hoths, Mode.m4 h1 (by simp) h6, ?_⟩
            apply XOk.onRetO
            exact hx.of_fields (by fld) (by fld) (by fld) (Or.inl hpn) (noOrphan_of_open 0 (Or.inl (by simpa using h1)))
        | m3a h1 h2 h3 h5 =>
          obtain ⟨a, rest, rfl, _⟩ := h5
          simp [ctxOf] at hc; subst hc; simp [isTop, inSub, inPull] at hctx
        | _ => simp_all
      · simp [hoth i hi] at hlive
  | @ret st stk g tr o l hl =>
    simp only at hp hb hoth hoths hm hx
    have hq := sink_quiet hm hoths
    have hpn : g.pend = none := hx.pend_none_of_noDone (fun k => (hq k).2)
    have hl_done : ∀ (_ : ∀ f ∈ Frame.wait o l :: stk, Benign f), l = .done ∧ ∀ f ∈ stk, Benign f := by
      intro h6
      have hben := h6 _ (List.mem_cons_self)
      refine ⟨?_, (List.forall_mem_cons.1 h6).2⟩
      cases l <;> simp_all [Benign]
    cases hm with
    | m1 _ _ h => simp at h
    | m2 h1 h2 h5 =>
      simp at h5; obtain ⟨⟨rfl, rfl⟩, rfl⟩ := h5
      simp [legalRet, h2, machine] at hl
    | m3 h1 h2 h3 h6 =>
      obtain ⟨rfl, hrest⟩ := hl_done h6
      exec 1
      exact ⟨hoth, hoths, Mode.m3 h1 h2 h3 hrest, hx.onRetO _⟩
    | m3a h1 h2 h3 h5 =>
      obtain ⟨a, rest, he, hrest⟩ := h5
      simp at he; obtain ⟨⟨rfl, rfl⟩, rfl⟩ := he
      exec 1
      refine ⟨hoth, hoths, Mode.m3 h1 h2 h3 (List.forall_mem_cons.2 ⟨benign_done _, hrest⟩), ?_⟩
      exact hx.of_fields (by fld) (by fld) (by fld) (Or.inl hpn) (noOrphan_of_open 0 (Or.inl h1))
    | m4 h1 h2 h6 =>
      obtain ⟨rfl, hrest⟩ := hl_done h6
      exec 1
      exact ⟨hoth, hoths, Mode.m4 h1 h2 hrest, hx.onRetO _⟩

theorem inv_init : Inv (Sys.init (machine α)) := by
  obtain ⟨h1, h2, h3, h4, h5⟩ := ForEach.inv_init (α := α)
  exact ⟨h1, h2, h3, h4, h5, ⟨rfl, (by intro e h ks hp; cases hp), noOrphan_of_noLive (by intro i; simp [Sys.init])⟩⟩

/-- for_each: under every conformant source the sink never violates any clause of C01–C05 and never panics. -/
theorem forEach_safe {α : Type} : ∀ s, SReach (machine α) s → Safe s :=
  safe_of_macro_inv (machine α) Inv inv_init inv_turn inv_step

end Cb.ForEachFull

#print axioms Cb.ForEachFull.forEach_safe
