import CallbagModel.Inv.Ghost
/-!
# Lemmas about the second ghost layer (error relay and orphans of C04; C05)

`XOk g` is the part of a full-safety invariant that is the same for every operator: no second-layer violation has been
recorded, and the two checks made when a handler returns (`checkPend`, `checkOrphans`) would pass.  It is preserved by
`onRetO` unconditionally (`XOk.onRetO`), so proofs only have to re-establish it after `onIn` / `onOut`.
-/
namespace Cb

/-- the output is over and control may be at top level: then no upstream is live (no orphans) -/
def NoOrphan (g : Ph) : Prop := g.anySinkOpen = false → ∀ i, g.srcPh i ≠ .live

structure XOk (g : G) : Prop where
  clean : g.xviols = []
  pend : ∀ e h ks, g.pend = some (e, h, ks) →
    ks ≠ [] ∧ (∀ k ∈ ks, g.ph.sinkPh k = .doneBySrc ∧ g.finOf k = some (Fin.err e)) ∧ ∀ i, g.ph.srcPh i ≠ .live
  orphan : NoOrphan g.ph

theorem liveSrcs_eq_nil {g : Ph} (h : ∀ i, g.srcPh i ≠ .live) : liveSrcs g = [] := by
  apply List.eq_nil_iff_forall_not_mem.2
  intro i hi
  exact h i ((mem_liveSrcs g i).1 hi)

@[simp] theorem flagAll_nil (g : G) : g.flagAll [] = g := rfl

theorem clearSinkErr_fields (g : G) (h : Nat) :
    (g.clearSinkErr h).ph = g.ph ∧ (g.clearSinkErr h).fin = g.fin ∧ (g.clearSinkErr h).pend = g.pend ∧
    (g.clearSinkErr h).xviols = g.xviols ∧ (g.sinkErr = none → (g.clearSinkErr h).sinkErr = none) := by
  unfold G.clearSinkErr
  split
  · split <;> simp_all
  · simp_all

theorem XOk.clearSinkErr {g : G} (hx : XOk g) (h : Nat) : XOk (g.clearSinkErr h) := by
  obtain ⟨h1, h2, h3, h4, _⟩ := clearSinkErr_fields g h
  exact ⟨by rw [h4]; exact hx.clean, by intro e h' ks hp; rw [h3] at hp; unfold G.finOf; rw [h2, h1]; exact hx.pend e h' ks hp,
    by rw [h1]; exact hx.orphan⟩

theorem XOk.checkPend {g : G} (hx : XOk g) (h : Nat) :
    XOk (g.checkPend h) ∧ (g.checkPend h).ph = g.ph ∧ (g.checkPend h).sinkErr = g.sinkErr ∧ (g.checkPend h).fin = g.fin := by
  unfold G.checkPend
  split
  · rename_i e h' ks hp
    split
    · obtain ⟨_, hfin, hlive⟩ := hx.pend e h' ks hp
      have h1 : (ks.filter (fun k => g.finOf k != some (Fin.err e) && g.ph.sinkPh k != SinkPh.doneBySelf)) = [] := by
        apply List.filter_eq_nil_iff.2
        intro k hk; simp [(hfin k hk).2]
      rw [h1, liveSrcs_eq_nil hlive]
      simp only [List.map_nil, List.append_nil, flagAll_nil]
      exact ⟨⟨hx.clean, (by intro e h ks hp; cases hp), hx.orphan⟩, trivial, trivial, trivial⟩
    · exact ⟨hx, rfl, rfl, rfl⟩
  · exact ⟨hx, rfl, rfl, rfl⟩

theorem XOk.checkOrphans {g : G} (hx : XOk g) (h : Nat) : (g.checkOrphans h) = g := by
  unfold G.checkOrphans
  split
  · rename_i hc
    simp only [Bool.and_eq_true, beq_iff_eq, Bool.not_eq_eq_eq_not, Bool.not_true, decide_eq_true_eq] at hc
    rw [liveSrcs_eq_nil (hx.orphan hc.1.2)]
    rfl
  · rfl

/-- `XOk` survives the checks made when a handler returns, whatever the height -/
theorem XOk.onRetO {g : G} (hx : XOk g) (h : Nat) : XOk (g.onRetO h) := by
  unfold G.onRetO
  have h1 := hx.clearSinkErr h
  have h2 := (h1.checkPend h).1
  rw [h2.checkOrphans h]; exact h2

theorem onRetO_sinkErr_none {g : G} (hx : XOk g) (hs : g.sinkErr = none) (h : Nat) : (g.onRetO h).sinkErr = none := by
  unfold G.onRetO
  have h1 := hx.clearSinkErr h
  have h2 := (h1.checkPend h)
  rw [h2.1.checkOrphans h, h2.2.2.1]
  exact (clearSinkErr_fields g h).2.2.2.2 hs

theorem onRetO_fin {g : G} (hx : XOk g) (h : Nat) : (g.onRetO h).fin = g.fin := by
  unfold G.onRetO
  have h1 := hx.clearSinkErr h
  have h2 := (h1.checkPend h)
  rw [h2.1.checkOrphans h, h2.2.2.2]
  exact (clearSinkErr_fields g h).2.1

/-! ### `onIn` -/

theorem onIn_ext_plain {α} (g : G) (h : Nat) (i : In α)
    (h1 : ∀ k e, i ≠ .sinkUp k (.err e)) (h2 : ∀ j e, i ≠ .srcDown j (.err e)) :
    g.onIn h i = { g with ph := g.ph.onIn i } := by
  unfold G.onIn
  cases i with
  | sinkUp k u => cases u with
    | err e => exact absurd rfl (h1 k e)
    | _ => rfl
  | srcDown j d => cases d with
    | err e => exact absurd rfl (h2 j e)
    | _ => rfl
  | _ => rfl

@[simp] theorem onIn_subscribe {α} (g : G) (h k : Nat) : g.onIn h (.subscribe k : In α) = { g with ph := g.ph.onIn (.subscribe k : In α) } := rfl
@[simp] theorem onIn_srcGreet {α} (g : G) (h i : Nat) : g.onIn h (.srcGreet i : In α) = { g with ph := g.ph.onIn (.srcGreet i : In α) } := rfl
@[simp] theorem onIn_pull {α} (g : G) (h k : Nat) : g.onIn h (.sinkUp k .pull : In α) = { g with ph := g.ph.onIn (.sinkUp k .pull : In α) } := rfl
@[simp] theorem onIn_sinkTerm {α} (g : G) (h k : Nat) : g.onIn h (.sinkUp k .term : In α) = { g with ph := g.ph.onIn (.sinkUp k .term : In α) } := rfl
@[simp] theorem onIn_sinkErr {α} (g : G) (h k e : Nat) :
    g.onIn h (.sinkUp k (.err e) : In α) = { g with ph := g.ph.onIn (.sinkUp k (.err e) : In α), sinkErr := some (e, h) } := rfl
@[simp] theorem onIn_data {α} (g : G) (h i : Nat) (a : α) : g.onIn h (.srcDown i (.data a)) = { g with ph := g.ph.onIn (.srcDown i (.data a)) } := rfl
@[simp] theorem onIn_srcTerm {α} (g : G) (h i : Nat) : g.onIn h (.srcDown i .term : In α) = { g with ph := g.ph.onIn (.srcDown i .term : In α) } := rfl
theorem onIn_srcErr {α} (g : G) (h i e : Nat) :
    g.onIn h (.srcDown i (.err e) : In α) =
      if (livesOf g.ph).isEmpty || g.pend.isSome then { g with ph := g.ph.onIn (.srcDown i (.err e) : In α) }
      else { g with ph := g.ph.onIn (.srcDown i (.err e) : In α), pend := some (e, h, livesOf g.ph) } := rfl

/-! ### `onOut` -/

@[simp] theorem onOut_greet {β} (sh : Shape) (g : G) (k : Nat) : g.onOut sh (.greet k : Out β) = { g with ph := g.ph.onOut (.greet k : Out β) } := rfl
@[simp] theorem onOut_subSrc {β} (sh : Shape) (g : G) (i : Nat) : g.onOut sh (.subSrc i : Out β) = { g with ph := g.ph.onOut (.subSrc i : Out β) } := rfl
@[simp] theorem onOut_pull {β} (sh : Shape) (g : G) (i : Nat) : g.onOut sh (.srcUp i .pull : Out β) = { g with ph := g.ph.onOut (.srcUp i .pull : Out β) } := rfl
@[simp] theorem onOut_app {β} (sh : Shape) (g : G) (b : β) : g.onOut sh (.app b) = { g with ph := g.ph.onOut (.app b) } := rfl
@[simp] theorem onOut_data {β} (sh : Shape) (g : G) (k : Nat) (b : β) :
    g.onOut sh (.down k (.data b)) = { g with ph := g.ph.onOut (.down k (.data b)) } := by
  unfold G.onOut; simp only [finOfDown]; split <;> rfl
theorem onOut_final_live {β} (sh : Shape) (g : G) (k : Nat) (d : Down β) (f : Fin) (hf : finOfDown d = some f) (hl : g.ph.sinkPh k = .live) :
    g.onOut sh (.down k d) = { g with ph := g.ph.onOut (.down k d), fin := setAt g.fin k (some f) } := by
  unfold G.onOut; simp only [hl, hf, ↓reduceIte]
theorem onOut_term_quiet {β} (sh : Shape) (g : G) (i : Nat) (h : g.sinkErr = none ∨ sh.relayErr = false ∨ g.ph.srcPh i ≠ .live) :
    g.onOut sh (.srcUp i .term : Out β) = { g with ph := g.ph.onOut (.srcUp i .term : Out β) } := by
  unfold G.onOut
  simp only
  split
  · rename_i hc
    simp only [Bool.and_eq_true, decide_eq_true_eq] at hc
    rcases h with h | h | h
    · simp [h] at hc
    · simp [h] at hc
    · exact absurd hc.1.1 h
  · rfl
theorem onOut_err_relayed {β} (sh : Shape) (g : G) (i e h : Nat) (hs : g.sinkErr = some (e, h)) :
    g.onOut sh (.srcUp i (.err e) : Out β) = { g with ph := g.ph.onOut (.srcUp i (.err e) : Out β) } := by
  unfold G.onOut
  simp only [hs, bne_self_eq_false, Bool.and_false, Bool.false_eq_true, ↓reduceIte]
theorem onOut_err_noSinkErr {β} (sh : Shape) (g : G) (i e : Nat) (hs : g.sinkErr = none) :
    g.onOut sh (.srcUp i (.err e) : Out β) = { g with ph := g.ph.onOut (.srcUp i (.err e) : Out β) } := by
  unfold G.onOut
  simp only [hs]

@[simp] theorem finOf_setAt (g : G) (k k' : Nat) (f : Option Fin) :
    ({ g with fin := setAt g.fin k f } : G).finOf k' = if k' = k then f else g.finOf k' := by
  simp [G.finOf, phAt_setAt]

end Cb

namespace Cb

theorem noOrphan_of_open {g : Ph} (k : Nat) (h : g.sinkPh k = .subscribed ∨ g.sinkPh k = .live) : NoOrphan g := by
  intro hc
  have := (Ph.anySinkOpen_iff g).2 ⟨k, h⟩
  rw [hc] at this; cases this

theorem noOrphan_of_noLive {g : Ph} (h : ∀ i, g.srcPh i ≠ .live) : NoOrphan g := fun _ => h

/-- a pending error check excludes live upstreams, so while some upstream is live nothing is pending -/
theorem XOk.pend_none_of_live {g : G} (hx : XOk g) (i : Nat) (h : g.ph.srcPh i = .live) : g.pend = none := by
  cases hp : g.pend with
  | none => rfl
  | some p =>
    obtain ⟨e, h', ks⟩ := p
    exact absurd h ((hx.pend e h' ks hp).2.2 i)

/-- a pending error check means some sink has received its terminal -/
theorem XOk.pend_none_of_noDone {g : G} (hx : XOk g) (h : ∀ k, g.ph.sinkPh k ≠ .doneBySrc) : g.pend = none := by
  cases hp : g.pend with
  | none => rfl
  | some p =>
    obtain ⟨e, h', ks⟩ := p
    obtain ⟨hne, hk, _⟩ := hx.pend e h' ks hp
    cases ks with
    | nil => exact absurd rfl hne
    | cons k r => exact absurd (hk k (List.mem_cons_self)).1 (h k)

end Cb

namespace Cb

/-- the second layer is untouched (or the pending check has just been cleared): `XOk` carries over to the new phases, provided
nothing is pending or the pending check stays satisfiable, and no orphan appears -/
theorem XOk.of_fields {g g' : G} (hx : XOk g) (hfin : g'.fin = g.fin) (hpend : g'.pend = g.pend ∨ g'.pend = none)
    (hxv : g'.xviols = g.xviols)
    (hl : g.pend = none ∨ ((∀ i, g'.ph.srcPh i ≠ .live) ∧ ∀ k, g.ph.sinkPh k = .doneBySrc → g'.ph.sinkPh k = .doneBySrc))
    (ho : NoOrphan g'.ph) : XOk g' := by
  refine ⟨by rw [hxv]; exact hx.clean, ?_, ho⟩
  intro e h ks hp
  rcases hpend with hpend | hpend
  · rw [hpend] at hp
    rcases hl with hl | ⟨hl, hd⟩
    · rw [hl] at hp; cases hp
    · obtain ⟨h1, h2, _⟩ := hx.pend e h ks hp
      refine ⟨h1, ?_, hl⟩
      intro k hk; unfold G.finOf; rw [hfin]; exact ⟨hd k (h2 k hk).1, (h2 k hk).2⟩
  · rw [hpend] at hp; cases hp

/-- nothing is pending before or after: `fin` and `sinkErr` may change freely -/
theorem XOk.of_noPend {g g' : G} (hx : XOk g) (_hpn : g.pend = none) (hpend : g'.pend = g.pend ∨ g'.pend = none) (hxv : g'.xviols = g.xviols)
    (ho : NoOrphan g'.ph) : XOk g' := by
  refine ⟨by rw [hxv]; exact hx.clean, ?_, ho⟩
  intro e h ks hp
  rcases hpend with hpend | hpend
  · rw [hpend, _hpn] at hp; cases hp
  · rw [hpend] at hp; cases hp

/-- establishing `XOk` right after an upstream error has been relayed: the pending check is the new one -/
theorem XOk.of_err {g g' : G} (hx : XOk g) (e h : Nat) (ks : List Nat) (hne : ks ≠ []) (hxv : g'.xviols = g.xviols)
    (hpend : g'.pend = some (e, h, ks))
    (hfin : ∀ k ∈ ks, g'.ph.sinkPh k = .doneBySrc ∧ g'.finOf k = some (Fin.err e)) (hl : ∀ i, g'.ph.srcPh i ≠ .live) : XOk g' := by
  refine ⟨by rw [hxv]; exact hx.clean, ?_, noOrphan_of_noLive hl⟩
  intro e' h' ks' hp
  rw [hpend] at hp; cases hp; exact ⟨hne, hfin, hl⟩

theorem livesOf_ne_nil {g : Ph} (k : Nat) (h : g.sinkPh k = .live) : livesOf g ≠ [] := by
  intro hn
  have := (mem_livesOf g k).2 h
  rw [hn] at this; cases this

@[simp] theorem onOut_term_simp {β} (sh : Shape) (g : G) (i : Nat) (h : g.sinkErr = none) :
    g.onOut sh (.srcUp i .term : Out β) = { g with ph := g.ph.onOut (.srcUp i .term : Out β) } :=
  onOut_term_quiet sh g i (Or.inl h)

@[simp] theorem onOut_term_norelay {β} (sh : Shape) (g : G) (i : Nat) (h : sh.relayErr = false) :
    g.onOut sh (.srcUp i .term : Out β) = { g with ph := g.ph.onOut (.srcUp i .term : Out β) } :=
  onOut_term_quiet sh g i (Or.inr (Or.inl h))

@[simp] theorem onOut_err_simp {β} (sh : Shape) (g : G) (i e : Nat) (h : g.sinkErr.map Prod.fst = some e ∨ g.sinkErr = none ∨ sh.relayErr = false) :
    g.onOut sh (.srcUp i (.err e) : Out β) = { g with ph := g.ph.onOut (.srcUp i (.err e) : Out β) } := by
  rcases h with h | h | h
  · have key : ∃ h', g.sinkErr = some (e, h') := by
      cases hs : g.sinkErr with
      | none => rw [hs] at h; cases h
      | some p => obtain ⟨e', h'⟩ := p; rw [hs] at h; simp at h; subst h; exact ⟨h', rfl⟩
    obtain ⟨h', hs⟩ := key
    exact onOut_err_relayed sh g i e h' hs
  · exact onOut_err_noSinkErr sh g i e h
  · unfold G.onOut; simp only [h]; split <;> simp

theorem onOut_final {β} (sh : Shape) (g : G) (k : Nat) (d : Down β) (f : Fin) (hf : finOfDown d = some f) :
    g.onOut sh (.down k d) = if g.ph.sinkPh k = .live then { g with ph := g.ph.onOut (.down k d), fin := setAt g.fin k (some f) }
      else { g with ph := g.ph.onOut (.down k d) } := by
  unfold G.onOut; simp only [hf]

@[simp] theorem onOut_downTerm {β} (sh : Shape) (g : G) (k : Nat) :
    g.onOut sh (.down k .term : Out β) = if g.ph.sinkPh k = .live then { g with ph := g.ph.onOut (.down k .term : Out β), fin := setAt g.fin k (some .term) }
      else { g with ph := g.ph.onOut (.down k .term : Out β) } := onOut_final sh g k .term .term rfl

@[simp] theorem onOut_downErr {β} (sh : Shape) (g : G) (k e : Nat) :
    g.onOut sh (.down k (.err e) : Out β) = if g.ph.sinkPh k = .live then { g with ph := g.ph.onOut (.down k (.err e) : Out β), fin := setAt g.fin k (some (.err e)) }
      else { g with ph := g.ph.onOut (.down k (.err e) : Out β) } := onOut_final sh g k (.err e) (.err e) rfl

end Cb
