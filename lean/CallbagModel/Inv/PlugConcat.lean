import CallbagModel.Inv.PlugSafe
import CallbagModel.Fun.Concat
/-!
# What `concat!` of two closed sources computes

`concat2_headOkT`: if the closed sources `A`, `B` are heads for `ysA`, `ysB` (in the strengthened sense `HeadOkT` below), then
`plug 0 A (plug 1 B (Concat.machine β 2))` is a head for `ysA ++ ysB`.

`HeadOk` of `ComposeComplete.lean` is NOT enough for this, for two reasons (both would make the statement false or unprovable):
* its `done` clause speaks about the head's top level only, but the second member starts delivering INSIDE the first member's
  `Terminate` call (the first member's stack is not empty then): `DoneTurn` states completeness at every environment turn;
* it allows a head to end with `Error` after delivering everything; `concat!` then ends with that error and never starts the second
  member: `NoErr` (no `Error` is ever delivered) excludes this; stages pass errors but never create them (`ErrPass`).
-/
namespace Cb
namespace PlugConcat
open ComposeSafe ComposeFun ComposeComplete PlugSafe

/-! ## Part 1: the strengthened head / stage guarantees and their closure under `compose` -/
section Strong
variable {St Loc S1 L1 S2 L2 α β γ : Type}

/-- an `Error` has been delivered to some sink / received from some upstream -/
def ErrOut (tr : List (Ev α β)) : Prop := ∃ k e, SinkEv.down k (Down.err e) ∈ sinkEvs tr
def ErrIn (tr : List (Ev α β)) : Prop := ∃ i e, SrcEv.down i (Down.err e) ∈ srcEvs tr

/-- completeness when terminated, at EVERY environment turn -/
def DoneTurn (M : Machine St Loc α β) (ys : List β) : Prop :=
  ∀ s, SReach M s → EnvTurn s → s.g.ph.sinkPh 0 = .doneBySrc → recvData 0 s.tr = ys

/-- no `Error` is ever delivered -/
def NoErr (M : Machine St Loc α β) : Prop := ∀ s, SReach M s → ¬ ErrOut s.tr

/-- an `Error` is delivered only after one was received -/
def ErrPass (M : Machine St Loc α β) : Prop := ∀ s, SReach M s → ErrOut s.tr → ErrIn s.tr

/-- the terminal is delivered only when the upstream has ended or the output is final, at EVERY environment turn -/
def FinTurn (M : Machine St Loc α β) (F : List α → List β) : Prop :=
  ∀ s, SReach M s → EnvTurn s → s.g.ph.sinkPh 0 = .doneBySrc →
    s.g.ph.srcPh 0 = .ended ∨ ∀ ys, sentData 0 s.tr <+: ys → F ys = F (sentData 0 s.tr)

structure HeadOkT (M : Machine St Loc α β) (ys : List β) : Prop where
  head : HeadOk M ys
  doneT : DoneTurn M ys
  noErr : NoErr M

structure StageT (M : Machine St Loc α β) (F : List α → List β) : Prop where
  stage : DemandStage M F
  finT : FinTurn M F
  errPass : ErrPass M

theorem mem_dualEvs_down {β : Type} {i : Nat} {d : Down β} {l : List (SinkEv β)} (h : SrcEv.down i d ∈ dualEvs l) :
    SinkEv.down i d ∈ l := by
  induction l with
  | nil => cases h
  | cons e t ih =>
    cases e with
    | down k d' =>
      simp only [dualEvs, dual, consOpt_some, List.mem_cons] at h
      rcases h with h | h
      · cases h; exact List.mem_cons_self
      · exact List.mem_cons_of_mem _ (ih h)
    | subscribe k => simp only [dualEvs, dual, consOpt_some, List.mem_cons] at h; rcases h with h | h; cases h; exact List.mem_cons_of_mem _ (ih h)
    | up k u => simp only [dualEvs, dual, consOpt_some, List.mem_cons] at h; rcases h with h | h; cases h; exact List.mem_cons_of_mem _ (ih h)
    | greet k => simp only [dualEvs, dual, consOpt_some, List.mem_cons] at h; rcases h with h | h; cases h; exact List.mem_cons_of_mem _ (ih h)
    | app b => simp only [dualEvs, dual, consOpt_none] at h; exact List.mem_cons_of_mem _ (ih h)

theorem HeadOkT.compose {M1 : Machine S1 L1 α β} {M2 : Machine S2 L2 β γ} {ys : List β} {F : List β → List γ}
    (h : HeadOkT M1 ys) (d : StageT M2 F) : HeadOkT (Cb.compose M1 M2) (F ys) := by
  have H : Hyp M1 M2 := hyp_of_roles h.head.up d.stage.mono.stage.pipe.downSide
  refine ⟨h.head.compose d.stage, ?_, ?_⟩
  · intro s hs ht hd
    obtain ⟨s1, s2, hr1, hr2, hp⟩ := compose_proj H s hs
    obtain ⟨ht1, ht2⟩ := hp.turn ht
    have hgh := hp.m.gh
    have hd2 : s2.g.ph.sinkPh 0 = .doneBySrc := by rw [← hgh.sink 0]; exact hd
    rw [hp.recv 0, d.stage.mono.stage.io s2 hr2 ht2]
    rcases d.finT s2 hr2 ht2 hd2 with he | hfin
    · have hd1 : s1.g.ph.sinkPh 0 = .doneBySrc := toSrc_ended.1 (hgh.ifc ▸ he)
      rw [← hp.ifc 0, h.doneT s1 hr1 ht1 hd1]
    · exact (hfin ys (by rw [← hp.ifc 0]; exact h.head.spec s1 hr1 ht1)).symm
  · intro s hs ⟨k, e, hk⟩
    obtain ⟨s1, s2, hr1, hr2, hm, htr⟩ := compose_inv_tr H s hs
    rw [htr.sink] at hk
    obtain ⟨i, e', hi⟩ := d.errPass s2 hr2 ⟨k, e, hk⟩
    rw [← htr.ifc] at hi
    exact h.noErr s1 hr1 ⟨i, e', mem_dualEvs_down hi⟩

/-- no `call (down k (err e))` in the program text: no `Error` is ever delivered -/
theorem noErr_of_syntactic {M : Machine St Loc α β} (h : ∀ st l k e st' l', M.step st l ≠ .call (.down k (.err e)) st' l') :
    NoErr M := by
  apply reach_ind
  · rintro ⟨k, e, hk⟩; simp [Sys.init, sinkEvs] at hk
  · intro a b ha ih hstep
    cases hstep with
    | tau _ => exact ih
    | @call st l stk g tr o s' l' hst =>
      rintro ⟨k, e, hk⟩
      cases o with
      | down k' d =>
        cases d with
        | err e' => exact h _ _ _ _ _ _ hst
        | data x =>
          simp only [sinkEvs, sinkEv, consOpt_some, List.mem_cons] at hk
          rcases hk with hk | hk
          · cases hk
          · exact ih ⟨k, e, hk⟩
        | term =>
          simp only [sinkEvs, sinkEv, consOpt_some, List.mem_cons] at hk
          rcases hk with hk | hk
          · cases hk
          · exact ih ⟨k, e, hk⟩
      | greet k' =>
        simp only [sinkEvs, sinkEv, consOpt_some, List.mem_cons] at hk
        rcases hk with hk | hk
        · cases hk
        · exact ih ⟨k, e, hk⟩
      | app b' =>
        simp only [sinkEvs, sinkEv, consOpt_some, List.mem_cons] at hk
        rcases hk with hk | hk
        · cases hk
        · exact ih ⟨k, e, hk⟩
      | subSrc i => exact ih ⟨k, e, by simpa [sinkEvs, sinkEv] using hk⟩
      | srcUp i u => exact ih ⟨k, e, by simpa [sinkEvs, sinkEv] using hk⟩
    | ret _ => rintro ⟨k, e, hk⟩; exact ih ⟨k, e, by simpa [sinkEvs, sinkEv] using hk⟩
    | panic _ => rintro ⟨k, e, hk⟩; exact ih ⟨k, e, by simpa [sinkEvs, sinkEv] using hk⟩
  · intro a b m ha ih hstep
    cases hstep with
    | @call st stk g tr c i hc hl =>
      rintro ⟨k, e, hk⟩
      cases i with
      | subscribe k' =>
        simp only [sinkEvs, sinkEv, consOpt_some, List.mem_cons] at hk
        rcases hk with hk | hk
        · cases hk
        · exact ih ⟨k, e, hk⟩
      | sinkUp k' u =>
        simp only [sinkEvs, sinkEv, consOpt_some, List.mem_cons] at hk
        rcases hk with hk | hk
        · cases hk
        · exact ih ⟨k, e, hk⟩
      | srcGreet i' => exact ih ⟨k, e, by simpa [sinkEvs, sinkEv] using hk⟩
      | srcDown i' d => exact ih ⟨k, e, by simpa [sinkEvs, sinkEv] using hk⟩
    | ret hl => rintro ⟨k, e, hk⟩; exact ih ⟨k, e, by simpa [sinkEvs, sinkEv] using hk⟩

end Strong

/-! ## Part 2: instances -/
section Inst
variable {St Loc α β : Type}

theorem errIn_cons {tr : List (Ev α β)} (ev : Ev α β) (h : ErrIn tr) : ErrIn (ev :: tr) := by
  obtain ⟨i, e, hi⟩ := h
  refine ⟨i, e, ?_⟩
  simp only [srcEvs]
  cases hs : srcEv ev with
  | none => simpa using hi
  | some x => simp only [consOpt_some]; exact List.mem_cons_of_mem _ hi

theorem errOut_cons {tr : List (Ev α β)} {ev : Ev α β} (h : ErrOut (ev :: tr)) :
    ErrOut tr ∨ ∃ k e, ev = .out (.down k (.err e)) := by
  obtain ⟨k, e, hk⟩ := h
  simp only [sinkEvs] at hk
  cases hs : sinkEv ev with
  | none => rw [hs] at hk; exact .inl ⟨k, e, by simpa using hk⟩
  | some x =>
    rw [hs] at hk
    simp only [consOpt_some, List.mem_cons] at hk
    rcases hk with hk | hk
    · subst hk
      right
      cases ev with
      | inp i => cases i <;> simp [sinkEv] at hs
      | out o =>
        cases o with
        | down k' d => simp [sinkEv] at hs; obtain ⟨rfl, rfl⟩ := hs; exact ⟨_, _, rfl⟩
        | _ => simp [sinkEv] at hs
      | _ => simp [sinkEv] at hs
    · exact .inl ⟨k, e, hk⟩

theorem errIn_srcDown {tr : List (Ev α β)} (i e : Nat) : ErrIn (Ev.inp (.srcDown i (.err e)) :: tr) :=
  ⟨i, e, by simp [srcEvs, srcEv]⟩

/-- the pattern shared by relays and `take`: an `Error` is delivered only by the handler of an upstream `Error` -/
theorem errPass_of {M : Machine St Loc α β} (P : Loc → Prop)
    (hcall : ∀ st l k e st' l', M.step st l = .call (.down k (.err e)) st' l' → P l)
    (htau : ∀ st l st' l', M.step st l = .tau st' l' → P l' → P l)
    (honly : ∀ i, P (M.enter i) → ∃ j e, i = .srcDown j (.err e))
    (hcont : ∀ st l o st' l', M.step st l = .call o st' l' → ¬ P l') : ErrPass M := by
  have key : ∀ s, SReach M s →
      (ErrOut s.tr → ErrIn s.tr) ∧ (∀ l r, s.stack = .run l :: r → P l → ErrIn s.tr) ∧
      (∀ o l, Frame.wait o l ∈ s.stack → ¬ P l) := by
    apply reach_ind
    · exact ⟨fun ⟨k, e, hk⟩ => by simp [Sys.init, sinkEvs] at hk, fun l r h => by simp [Sys.init] at h,
        fun o l h => by simp [Sys.init] at h⟩
    · intro a b ha ih hstepp
      cases hstepp with
      | @tau st l stk g tr s' l' hst =>
        obtain ⟨h1, h2, h3⟩ := ih
        refine ⟨h1, ?_, fun o l0 hm => h3 o l0 (by simpa using hm)⟩
        intro l0 r heq hp
        simp only [List.cons.injEq, Frame.run.injEq] at heq
        obtain ⟨rfl, rfl⟩ := heq
        exact h2 l stk rfl (htau _ _ _ _ hst hp)
      | @call st l stk g tr o s' l' hst =>
        obtain ⟨h1, h2, h3⟩ := ih
        refine ⟨?_, fun l0 r heq => by simp at heq, ?_⟩
        · intro ho
          rcases errOut_cons ho with ho | ⟨k, e, he⟩
          · exact errIn_cons _ (h1 ho)
          · simp only [Ev.out.injEq] at he
            subst he
            exact errIn_cons _ (h2 l stk rfl (hcall _ _ _ _ _ _ hst))
        · intro o' l0 hm
          rcases List.mem_cons.1 hm with he | hm
          · simp only [Frame.wait.injEq] at he
            obtain ⟨_, rfl⟩ := he
            exact hcont _ _ _ _ _ hst
          · exact h3 o' l0 (List.mem_cons_of_mem _ hm)
      | @ret st l stk g tr hst =>
        obtain ⟨h1, h2, h3⟩ := ih
        have hw := pop_turn _ ha
        refine ⟨?_, ?_, fun o l0 hm => h3 o l0 (List.mem_cons_of_mem _ hm)⟩
        · intro ho
          rcases errOut_cons ho with ho | ⟨k, e, he⟩
          · exact errIn_cons _ (h1 ho)
          · cases he
        · intro l0 r heq
          simp only at heq
          obtain ⟨o, l1, he⟩ := hw (Frame.run l0) (by rw [heq]; exact List.mem_cons_self)
          cases he
      | @panic st l stk g tr m hst =>
        obtain ⟨h1, h2, h3⟩ := ih
        have hw := pop_turn _ ha
        refine ⟨?_, ?_, fun o l0 hm => h3 o l0 (List.mem_cons_of_mem _ hm)⟩
        · intro ho
          rcases errOut_cons ho with ho | ⟨k, e, he⟩
          · exact errIn_cons _ (h1 ho)
          · cases he
        · intro l0 r heq
          simp only at heq
          obtain ⟨o, l1, he⟩ := hw (Frame.run l0) (by rw [heq]; exact List.mem_cons_self)
          cases he
    · intro a b m ha ih hstepp
      cases hstepp with
      | @call st stk g tr c i hc hl =>
        obtain ⟨h1, h2, h3⟩ := ih
        refine ⟨?_, ?_, fun o l0 hm => h3 o l0 (by simpa using hm)⟩
        · intro ho
          rcases errOut_cons ho with ho | ⟨k, e, he⟩
          · exact errIn_cons _ (h1 ho)
          · cases he
        · intro l0 r heq hp
          simp only [List.cons.injEq, Frame.run.injEq] at heq
          obtain ⟨rfl, rfl⟩ := heq
          obtain ⟨j, e, rfl⟩ := honly i hp
          exact errIn_srcDown j e
      | @ret st stk g tr o l hl =>
        obtain ⟨h1, h2, h3⟩ := ih
        refine ⟨?_, ?_, fun o' l0 hm => h3 o' l0 (List.mem_cons_of_mem _ (by simpa using hm))⟩
        · intro ho
          rcases errOut_cons ho with ho | ⟨k, e, he⟩
          · exact errIn_cons _ (h1 ho)
          · cases he
        · intro l0 r heq hp
          simp only [List.cons.injEq, Frame.run.injEq] at heq
          obtain ⟨rfl, rfl⟩ := heq
          exact absurd hp (h3 o l List.mem_cons_self)
  intro s hs ho
  exact (key s hs).1 ho

macro "stp" h:ident "[" ts:Lean.Parser.Tactic.simpLemma,* "]" : tactic =>
  `(tactic| first
      | (simp [$ts,*] at $h:ident; done)
      | (simp [$ts,*] at $h:ident; split at $h:ident <;> simp at $h:ident; done)
      | (simp [$ts,*] at $h:ident; split at $h:ident <;> (try split at $h:ident) <;> simp at $h:ident; done))

theorem Relay.errPass {σ α β : Type} (k : Relay.Kind σ α β) : ErrPass (Relay.machine k) := by
  apply errPass_of (fun l => ∃ e, l = Relay.Loc.fwd (.err e))
  · intro st l k' e st' l' hst
    cases l with
    | fwd d => simp [Relay.machine, Relay.step] at hst; exact ⟨e, by rw [hst.1.2]⟩
    | emit b => simp [Relay.machine, Relay.step] at hst
    | sub0 => stp hst [Relay.machine, Relay.step]
    | done => stp hst [Relay.machine, Relay.step]
    | g0 => stp hst [Relay.machine, Relay.step]
    | g1 => stp hst [Relay.machine, Relay.step]
    | d0 a => stp hst [Relay.machine, Relay.step]
    | repull => stp hst [Relay.machine, Relay.step]
    | u0 u => stp hst [Relay.machine, Relay.step]
  · intro st l st' l' hst ⟨e, he⟩
    subst he
    cases l with
    | g0 => simp [Relay.machine, Relay.step] at hst; split at hst <;> simp at hst
    | d0 a => simp [Relay.machine, Relay.step] at hst; split at hst <;> simp at hst
    | sub0 => stp hst [Relay.machine, Relay.step]
    | done => stp hst [Relay.machine, Relay.step]
    | g1 => stp hst [Relay.machine, Relay.step]
    | emit b => stp hst [Relay.machine, Relay.step]
    | repull => stp hst [Relay.machine, Relay.step]
    | fwd d => stp hst [Relay.machine, Relay.step]
    | u0 u => stp hst [Relay.machine, Relay.step]
  · intro i hp
    obtain ⟨e, he⟩ := hp
    cases i with
    | srcDown j d => cases d <;> simp [Relay.machine, Relay.enter] at he; exact ⟨j, _, by rw [he]⟩
    | subscribe k' => simp [Relay.machine, Relay.enter] at he
    | sinkUp k' u => simp [Relay.machine, Relay.enter] at he
    | srcGreet j => simp [Relay.machine, Relay.enter] at he
  · intro st l o st' l' hst ⟨e, he⟩
    subst he
    cases l with
    | sub0 => stp hst [Relay.machine, Relay.step]
    | done => stp hst [Relay.machine, Relay.step]
    | g0 => stp hst [Relay.machine, Relay.step]
    | g1 => stp hst [Relay.machine, Relay.step]
    | d0 a => stp hst [Relay.machine, Relay.step]
    | emit b => stp hst [Relay.machine, Relay.step]
    | repull => stp hst [Relay.machine, Relay.step]
    | fwd d => stp hst [Relay.machine, Relay.step]
    | u0 u => stp hst [Relay.machine, Relay.step]

theorem Take.errPass {α : Type} (max : Nat) : ErrPass (Take.machine α max) := by
  apply errPass_of (fun l => ∃ e, l = Take.Loc.fwd (.err e))
  · intro st l k' e st' l' hst
    cases l with
    | fwd d => simp [Take.machine, Take.step] at hst; exact ⟨e, by rw [hst.1.2]⟩
    | sub0 => stp hst [Take.machine, Take.step]
    | done => stp hst [Take.machine, Take.step]
    | greet0 => stp hst [Take.machine, Take.step]
    | greet1 => stp hst [Take.machine, Take.step]
    | d0 a => stp hst [Take.machine, Take.step]
    | d1 a => stp hst [Take.machine, Take.step]
    | d2 a t => stp hst [Take.machine, Take.step]
    | d3 t => stp hst [Take.machine, Take.step]
    | d3b => stp hst [Take.machine, Take.step]
    | d4 => stp hst [Take.machine, Take.step]
    | d5 => stp hst [Take.machine, Take.step]
    | d6 => stp hst [Take.machine, Take.step]
    | p0 => stp hst [Take.machine, Take.step]
    | p1 => stp hst [Take.machine, Take.step]
    | x0 u => stp hst [Take.machine, Take.step]
    | x1 u => stp hst [Take.machine, Take.step]
  · intro st l st' l' hst ⟨e, he⟩
    subst he
    cases l with
    | sub0 => stp hst [Take.machine, Take.step]
    | done => stp hst [Take.machine, Take.step]
    | greet0 => stp hst [Take.machine, Take.step]
    | greet1 => stp hst [Take.machine, Take.step]
    | d0 a => stp hst [Take.machine, Take.step]
    | d1 a => stp hst [Take.machine, Take.step]
    | d2 a t => stp hst [Take.machine, Take.step]
    | d3 t => stp hst [Take.machine, Take.step]
    | d3b => stp hst [Take.machine, Take.step]
    | d4 => stp hst [Take.machine, Take.step]
    | d5 => stp hst [Take.machine, Take.step]
    | d6 => stp hst [Take.machine, Take.step]
    | fwd d => stp hst [Take.machine, Take.step]
    | p0 => stp hst [Take.machine, Take.step]
    | p1 => stp hst [Take.machine, Take.step]
    | x0 u => stp hst [Take.machine, Take.step]
    | x1 u => stp hst [Take.machine, Take.step]
  · intro i hp
    obtain ⟨e, he⟩ := hp
    cases i with
    | srcDown j d => cases d <;> simp [Take.machine, Take.enter] at he; exact ⟨j, _, by rw [he]⟩
    | subscribe k' => simp [Take.machine, Take.enter] at he
    | sinkUp k' u => cases u <;> simp [Take.machine, Take.enter] at he
    | srcGreet j => simp [Take.machine, Take.enter] at he
  · intro st l o st' l' hst ⟨e, he⟩
    subst he
    cases l with
    | sub0 => stp hst [Take.machine, Take.step]
    | done => stp hst [Take.machine, Take.step]
    | greet0 => stp hst [Take.machine, Take.step]
    | greet1 => stp hst [Take.machine, Take.step]
    | d0 a => stp hst [Take.machine, Take.step]
    | d1 a => stp hst [Take.machine, Take.step]
    | d2 a t => stp hst [Take.machine, Take.step]
    | d3 t => stp hst [Take.machine, Take.step]
    | d3b => stp hst [Take.machine, Take.step]
    | d4 => stp hst [Take.machine, Take.step]
    | d5 => stp hst [Take.machine, Take.step]
    | d6 => stp hst [Take.machine, Take.step]
    | fwd d => stp hst [Take.machine, Take.step]
    | p0 => stp hst [Take.machine, Take.step]
    | p1 => stp hst [Take.machine, Take.step]
    | x0 u => stp hst [Take.machine, Take.step]
    | x1 u => stp hst [Take.machine, Take.step]

theorem Relay.finTurn {σ α β : Type} (k : Relay.Kind σ α β) (hk : k.slotted = false → ∀ s a, (k.xfer s a).2 ≠ none) :
    FinTurn (Relay.machine k) (xferOut k.xfer k.seed) := by
  intro s hs ht hd
  obtain ⟨_, _, _, _, hm⟩ := inv_at_turn (Relay.machine k) (Relay.Inv k) (Relay.inv_init k)
    (fun s hi => (Relay.inv_turn k s hi).1) (Relay.inv_step k hk) hs ht
  left
  cases hm <;> simp_all

theorem Take.finTurn {α : Type} (max : Nat) : FinTurn (Take.machine α max) (List.take max) := by
  intro s hs ht hd
  obtain ⟨⟨_, _, hle, _, _, hm⟩, hT⟩ := TakeFun.finv_of_reach max s hs ht
  obtain ⟨_, hfin, _, _⟩ := TakeK.K_reach max s hs ht.1
  cases hm with
  | m5 _ h2 => exact .inl h2
  | m7 _ _ h3 =>
    right
    rcases hfin h3 with h | h
    · intro ys ⟨t, hys⟩
      have hlen : max ≤ (sentData 0 s.tr).length := by
        have := hT.cnt; rw [h] at this; omega
      rw [← hys, List.take_append]
      have : max - (sentData 0 s.tr).length = 0 := by omega
      simp [this]
    · rw [hd] at h; cases h
  | m1 h1 => rw [h1] at hd; cases hd
  | m2 h1 => rw [h1] at hd; cases hd
  | m3 h1 => rw [h1] at hd; cases hd
  | m4 h1 => rw [h1] at hd; cases hd
  | m6 h1 => rw [h1] at hd; cases hd

theorem FinTurn.congr {St Loc α β : Type} {M : Machine St Loc α β} {F G : List α → List β} (h : FinTurn M F)
    (hFG : ∀ l, F l = G l) : FinTurn M G := by
  intro s hs ht hd
  rcases h s hs ht hd with h1 | h1
  · exact .inl h1
  · exact .inr (fun ys hys => by rw [← hFG, ← hFG]; exact h1 ys hys)

theorem Relay.stageT {σ α β : Type} (k : Relay.Kind σ α β) (hk : k.slotted = false → ∀ s a, (k.xfer s a).2 ≠ none) :
    StageT (Relay.machine k) (xferOut k.xfer k.seed) := ⟨Relay.demandStage k hk, Relay.finTurn k hk, Relay.errPass k⟩

theorem StageT.congr {St Loc α β : Type} {M : Machine St Loc α β} {F G : List α → List β} (h : StageT M F)
    (hFG : ∀ l, F l = G l) : StageT M G := ⟨h.stage.congr hFG, h.finT.congr hFG, h.errPass⟩

theorem Take.stageT {α : Type} (max : Nat) (hmax : 0 < max) : StageT (Take.machine α max) (List.take max) :=
  ⟨Take.demandStage max hmax, Take.finTurn max, Take.errPass max⟩

/-- `from_iter` over an iterator that unfolds to `xs` is a head in the strengthened sense -/
theorem FromIter.headOkT {ι α α' : Type} (next : ι → Option (α × ι)) (it0 : ι) (xs : List α) (hx : Closed.Unfolds next it0 xs) :
    HeadOkT (FromIter.machine α' next it0) xs := by
  refine ⟨FromIter.headOk next it0 xs hx, ?_, ?_⟩
  · intro s hs ht hd
    obtain ⟨⟨_, _, _, _, hm⟩, hT⟩ := FromIterFun.finv_of_reach next it0 s hs ht
    have hrd : s.st.resDone = true := by cases hm <;> simp_all
    rw [hT.items]
    exact iterList_complete hx _ _ hT.iter (hT.exh hrd)
  · apply noErr_of_syntactic
    intro st l k e st' l'
    cases l <;> simp only [FromIter.machine, FromIter.step] <;> (repeat' split) <;> simp

end Inst

/-! ## Part 3: `concat` itself — four small-step invariants -/
namespace CK
variable {α : Type}

abbrev Fm (α : Type) := Frame (Concat.Loc α) α

/-- the exported phase invariant, at a reachable environment turn -/
theorem cinv (n : Nat) (hn : 0 < n) {st : Concat.St} {stk : List (Fm α)} {g : G} {tr : List (Ev α α)} {c : Ctx α}
    (ha : SReach (Concat.machine α n) ⟨st, stk, g, tr, none⟩) (hc : ctxOf stk = some c) :
    (∀ k, k ≠ 0 → g.ph.sinkPh k = .idle) ∧ Concat.Mode n st g.ph stk := by
  obtain ⟨_, _, h1, h2⟩ := inv_at_turn (Concat.machine α n) (Concat.Inv n) (Concat.inv_init n)
    (fun s hi => (Concat.inv_turn n s hi).1) (Concat.inv_step n hn) ha ⟨rfl, by simp [hc]⟩
  exact ⟨h1, h2⟩

theorem live_cur {n : Nat} {st : Concat.St} {g : Ph} {stk : List (Fm α)} (hm : Concat.Mode n st g stk) {k : Nat}
    (hk : g.srcPh k = .live) : k = st.i ∧ st.slot = some st.i ∧ g.sinkPh 0 = .live ∧ st.i < n := by
  cases hm with
  | idle _ h2 => rw [h2 k] at hk; cases hk
  | waiting _ h2 h3 h4 =>
    exfalso
    rcases Nat.lt_trichotomy k st.i with h | h | h
    · rw [h3 k h] at hk; cases hk
    · subst h; rw [h2] at hk; cases hk
    · rw [h4 k h] at hk; cases hk
  | live h1 h2 h3 _ h5 h6 =>
    rcases Nat.lt_trichotomy k st.i with h | h | h
    · rw [h5 k h] at hk; cases hk
    · exact ⟨h, h2, h3, h1⟩
    · rw [h6 k h] at hk; cases hk
  | over _ h2 => exact absurd hk (h2 k).1

theorem sub_cur {n : Nat} {st : Concat.St} {g : Ph} {stk : List (Fm α)} (hm : Concat.Mode n st g stk) {k : Nat}
    (hk : g.srcPh k = .subscribed) : k = st.i := by
  cases hm with
  | idle _ h2 => rw [h2 k] at hk; cases hk
  | waiting _ h2 h3 h4 =>
    rcases Nat.lt_trichotomy k st.i with h | h | h
    · rw [h3 k h] at hk; cases hk
    · exact h
    · rw [h4 k h] at hk; cases hk
  | live _ _ _ h4 h5 h6 =>
    exfalso
    rcases Nat.lt_trichotomy k st.i with h | h | h
    · rw [h5 k h] at hk; cases hk
    · subst h; rw [h4] at hk; cases hk
    · rw [h6 k h] at hk; cases hk
  | over _ h2 => exact absurd hk (h2 k).2

/-- a sink that may act (not inside a pending subscription) and is live: the mode is `live` -/
theorem sinkLive_cur {n : Nat} {st : Concat.St} {g : Ph} {stk : List (Fm α)} (hm : Concat.Mode n st g stk)
    (hs : g.sinkPh 0 = .live) (hnw : ∀ j l r, stk ≠ Frame.wait (.subSrc j) l :: r) :
    st.slot = some st.i ∧ g.srcPh st.i = .live ∧ st.i < n := by
  cases hm with
  | idle h1 => rw [h1] at hs; cases hs
  | waiting _ _ _ _ _ _ h7 => obtain ⟨r, h7, _⟩ := h7; exact absurd h7 (hnw _ _ _)
  | live h1 h2 _ h4 => exact ⟨h2, h4, h1⟩
  | over h1 => rcases h1 with h | h <;> rw [h] at hs <;> cases hs

/-- the assertion on the running handler -/
def TopB (st : Concat.St) (g : Ph) : List (Fm α) → Prop
  | .run .t0 :: _ => g.srcPh st.i = .ended ∧ g.sinkPh 0 = .live
  | .run (.g0 j) :: _ => j = st.i
  | .run .g1 :: _ => st.slot = some st.i
  | .run .g2 :: _ => st.slot = some st.i
  | .run .g3 :: _ => st.slot = some st.i
  | .run .p0 :: _ => st.slot = some st.i
  | .run (.u1 u) :: _ => u = .pull → st.slot = some st.i
  | _ => True

structure K1 (s : Sys Concat.St (Concat.Loc α) α α) : Prop where
  s1 : ∀ j, j < s.st.i → s.g.ph.srcPh j = .ended
  s2 : ∀ j, s.st.i < j → s.g.ph.srcPh j = .idle
  top : TopB s.st s.g.ph s.stack

macro "cstp" h:ident : tactic =>
  `(tactic| first
      | (simp [Concat.machine, Concat.step] at $h:ident; done)
      | (simp [Concat.machine, Concat.step] at $h:ident; split at $h:ident <;> simp at $h:ident; done))

theorem topB_turn {st : Concat.St} {g : Ph} {stk : List (Fm α)} (h : ∀ f ∈ stk, ∃ o l, f = Frame.wait o l) : TopB st g stk := by
  cases stk with
  | nil => trivial
  | cons f r => obtain ⟨o, l, rfl⟩ := h f List.mem_cons_self; trivial

theorem K1_reach (n : Nat) (hn : 0 < n) : ∀ s, SReach (Concat.machine α n) s → s.panicked = none → K1 s := by
  apply reach_ind
  · intro _; exact ⟨fun j hj => by simp [Sys.init, Concat.machine] at hj, fun j _ => by simp [Sys.init], trivial⟩
  · intro a b ha ih hstep
    cases hstep with
    | @tau st l stk g tr s' l' hst =>
      intro _
      obtain ⟨h1, h2, h3⟩ := ih rfl
      simp only at h1 h2 h3
      cases l with
      | t0 =>
        simp [Concat.machine, Concat.step] at hst
        obtain ⟨rfl, rfl⟩ := hst
        simp only [TopB] at h3
        refine ⟨fun j hj => ?_, fun j hj => h2 j (by simp at hj; omega), trivial⟩
        simp at hj
        rcases Nat.lt_or_ge j st.i with h | h
        · exact h1 j h
        · have : j = st.i := by omega
          subst this; exact h3.1
      | g0 j' =>
        simp [Concat.machine, Concat.step] at hst
        obtain ⟨rfl, rfl⟩ := hst
        simp only [TopB] at h3
        exact ⟨h1, h2, by simp [TopB, h3]⟩
      | g1 =>
        simp [Concat.machine, Concat.step] at hst
        split at hst <;> simp at hst
        obtain ⟨rfl, rfl⟩ := hst
        exact ⟨h1, h2, h3⟩
      | g2 =>
        simp [Concat.machine, Concat.step] at hst
        split at hst <;> simp at hst
        obtain ⟨rfl, rfl⟩ := hst
        exact ⟨h1, h2, h3⟩
      | p0 =>
        simp [Concat.machine, Concat.step] at hst
        obtain ⟨rfl, rfl⟩ := hst
        exact ⟨h1, h2, fun _ => h3⟩
      | done => cstp hst
      | next => cstp hst
      | g3 => cstp hst
      | fwd d => cstp hst
      | u1 u => cstp hst
    | @call st l stk g tr o s' l' hst =>
      intro _
      obtain ⟨h1, h2, h3⟩ := ih rfl
      simp only at h1 h2 h3
      have hst' : s' = st := by
        cases l with
        | next => simp [Concat.machine, Concat.step] at hst; split at hst <;> simp at hst <;> exact hst.2.1.symm
        | g1 => simp [Concat.machine, Concat.step] at hst; split at hst <;> simp at hst; exact hst.2.1.symm
        | g3 => simp [Concat.machine, Concat.step] at hst; split at hst <;> simp at hst; exact hst.2.1.symm
        | fwd d => simp [Concat.machine, Concat.step] at hst; exact hst.2.1.symm
        | u1 u => simp [Concat.machine, Concat.step] at hst; split at hst <;> simp at hst; exact hst.2.1.symm
        | done => cstp hst
        | g0 j' => cstp hst
        | g2 => cstp hst
        | t0 => cstp hst
        | p0 => cstp hst
      subst hst'
      have hsub : ∀ j, o = .subSrc j → j = s'.i := by
        intro j hj
        subst hj
        cases l with
        | next => simp [Concat.machine, Concat.step] at hst; split at hst <;> simp at hst; exact hst.1.symm
        | g1 => simp [Concat.machine, Concat.step] at hst; split at hst <;> simp at hst
        | g3 => simp [Concat.machine, Concat.step] at hst; split at hst <;> simp at hst
        | fwd d => simp [Concat.machine, Concat.step] at hst
        | u1 u => simp [Concat.machine, Concat.step] at hst; split at hst <;> simp at hst
        | done => cstp hst
        | g0 j' => cstp hst
        | g2 => cstp hst
        | t0 => cstp hst
        | p0 => cstp hst
      refine ⟨fun j hj => ?_, fun j hj => ?_, trivial⟩
      · simp only at hj
        simp only [onOut_ph]; exact ComposeFull.onOut_srcPh_ended _ _ _ (h1 j hj)
      · simp only at hj
        simp only [onOut_ph]
        exact ComposeFull.onOut_srcPh_idle_ne _ _ _ (h2 j hj) (fun ho => by have := hsub j ho; omega)
    | @ret st l stk g tr hst =>
      intro _
      obtain ⟨h1, h2, _⟩ := ih rfl
      exact ⟨by simpa using h1, by simpa using h2, topB_turn (pop_turn _ ha)⟩
    | panic hst => intro hp; cases hp
  · intro a b m ha ih hstep
    cases hstep with
    | @call st stk g tr c i hc hl =>
      intro _
      obtain ⟨h1, h2, _⟩ := ih rfl
      simp only at h1 h2
      obtain ⟨hoths, hm⟩ := cinv n hn ha hc
      cases i with
      | subscribe k =>
        exact ⟨by simpa [Ph.onIn] using h1, by simpa [Ph.onIn] using h2, by simp [TopB, Concat.machine, Concat.enter]⟩
      | sinkUp k u =>
        have hlive := legal_sinkUp hl
        have hk : k = 0 := by
          by_cases hk : k = 0
          · exact hk
          · rw [hoths k hk] at hlive; cases hlive
        subst hk
        have hnw : ∀ j l r, stk ≠ Frame.wait (.subSrc j) l :: r := by
          intro j l r he; subst he
          simp [ctxOf] at hc; subst hc
          simp [legalIn, isTop, inGreet, inData] at hl
        obtain ⟨hslot, _, _⟩ := sinkLive_cur hm hlive hnw
        cases u with
        | pull => exact ⟨by simpa [Ph.onIn] using h1, by simpa [Ph.onIn] using h2, by simp [TopB, Concat.machine, Concat.enter, hslot]⟩
        | term => exact ⟨by simpa [Ph.onIn] using h1, by simpa [Ph.onIn] using h2, by simp [TopB, Concat.machine, Concat.enter]⟩
        | err e => exact ⟨by simpa [Ph.onIn] using h1, by simpa [Ph.onIn] using h2, by simp [TopB, Concat.machine, Concat.enter]⟩
      | srcGreet k =>
        have hk := sub_cur hm (legal_srcGreet hl)
        subst hk
        refine ⟨fun j hj => ?_, fun j hj => ?_, by simp [TopB, Concat.machine, Concat.enter]⟩
        · simp only at hj
          have : j ≠ st.i := by omega
          simpa [Ph.onIn, this] using h1 j hj
        · simp only at hj
          have : j ≠ st.i := by omega
          simpa [Ph.onIn, this] using h2 j hj
      | srcDown k d =>
        obtain ⟨hk, _, hsl, _⟩ := live_cur hm (legal_srcDown hl)
        subst hk
        have e1 : ∀ (d' : Down α) j, j < st.i → (g.ph.onIn (.srcDown st.i d')).srcPh j = .ended := by
          intro d' j hj
          have : j ≠ st.i := by omega
          cases d' <;> simpa [Ph.onIn, this] using h1 j hj
        have e2 : ∀ (d' : Down α) j, st.i < j → (g.ph.onIn (.srcDown st.i d')).srcPh j = .idle := by
          intro d' j hj
          have : j ≠ st.i := by omega
          cases d' <;> simpa [Ph.onIn, this] using h2 j hj
        refine ⟨fun j hj => by simp only at hj; simpa using e1 d j hj, fun j hj => by simp only at hj; simpa using e2 d j hj, ?_⟩
        cases d with
        | data x => simp [TopB, Concat.machine, Concat.enter]
        | err e => simp [TopB, Concat.machine, Concat.enter]
        | term =>
          simp [TopB, Concat.machine, Concat.enter, Ph.onIn, hsl]
    | @ret st stk g tr o l hl =>
      intro _
      obtain ⟨h1, h2, _⟩ := ih rfl
      have hfr := (PlugSafe.ConcatK.K_reach n hn _ ha rfl).2.1
      have : l = .done := hfr _ List.mem_cons_self o l rfl
      subst this
      exact ⟨h1, h2, trivial⟩

end CK

/-! ### phases never go back -/

theorem onOut_srcPh_idle_back {β : Type} (g : Ph) (o : Out β) (i : Nat) (h : (g.onOut o).srcPh i = .idle) : g.srcPh i = .idle := by
  cases o with
  | greet k => simp only [Ph.onOut] at h; split at h <;> simpa using h
  | down k d =>
    simp only [Ph.onOut] at h
    split at h
    · split at h <;> simpa using h
    all_goals simpa using h
  | subSrc j =>
    simp only [Ph.onOut] at h
    split at h
    · simpa using h
    · split at h
      · simpa using h
      · simp only [Ph.srcPh_setSrc] at h
        split at h
        · cases h
        · exact h
  | srcUp j u =>
    cases u <;> simp only [Ph.onOut] at h <;> split at h <;> (try simp only [srcPh_flag, Ph.srcPh_setSrc] at h) <;>
      first
      | exact h
      | (split at h <;> first | cases h | exact h)
  | app b => exact h

theorem onIn_srcPh_idle_back {α : Type} (g : Ph) (m : In α) (i : Nat) (h : (g.onIn m).srcPh i = .idle) : g.srcPh i = .idle := by
  cases m with
  | subscribe k => simpa [Ph.onIn] using h
  | sinkUp k u => cases u <;> simpa [Ph.onIn] using h
  | srcGreet j =>
    simp only [Ph.onIn, Ph.srcPh_setSrc] at h
    split at h
    · cases h
    · exact h
  | srcDown j d =>
    cases d <;> simp only [Ph.onIn, Ph.srcPh_setSrc] at h
    · exact h
    all_goals (split at h; cases h; exact h)

theorem onIn_sinkPh_doneBySrc_back {α : Type} (g : Ph) (m : In α) (k : Nat) (h : (g.onIn m).sinkPh k = .doneBySrc) :
    g.sinkPh k = .doneBySrc := by
  cases m with
  | subscribe k' =>
    simp only [Ph.onIn, Ph.sinkPh_setSink] at h
    split at h
    · cases h
    · exact h
  | sinkUp k' u =>
    cases u <;> simp only [Ph.onIn, Ph.sinkPh_setSink] at h
    · exact h
    all_goals (split at h; cases h; exact h)
  | srcGreet j => simpa [Ph.onIn] using h
  | srcDown j d => cases d <;> simpa [Ph.onIn] using h

theorem onOut_sinkPh_doneBySrc_back {β : Type} (g : Ph) (o : Out β) (k : Nat) (ho : ∀ k' d, o ≠ .down k' d)
    (h : (g.onOut o).sinkPh k = .doneBySrc) : g.sinkPh k = .doneBySrc := by
  cases o with
  | greet j =>
    simp only [Ph.onOut] at h
    split at h
    · simp only [Ph.sinkPh_setSink] at h; split at h <;> first | cases h | exact h
    · exact h
  | down j d => exact absurd rfl (ho j d)
  | subSrc j =>
    simp only [Ph.onOut] at h
    split at h
    · exact h
    · split at h <;> exact h
  | srcUp j u => cases u <;> simp only [Ph.onOut] at h <;> split at h <;> exact h
  | app b => exact h

namespace CK
variable {α : Type}

/-- an `Error` has been received from one of the members `0 … n-1` -/
def ErrInLt (n : Nat) (tr : List (Ev α α)) : Prop := ∃ i e, i < n ∧ SrcEv.down i (Down.err e) ∈ srcEvs tr

theorem errInLt_cons {n : Nat} {tr : List (Ev α α)} (ev : Ev α α) (h : ErrInLt n tr) : ErrInLt n (ev :: tr) := by
  obtain ⟨i, e, hlt, hi⟩ := h
  refine ⟨i, e, hlt, ?_⟩
  simp only [srcEvs]
  cases hs : srcEv ev with
  | none => simpa using hi
  | some x => simp only [consOpt_some]; exact List.mem_cons_of_mem _ hi

/-- why the sink was terminated: after the last member, or because a member sent an `Error` -/
structure K2 (n : Nat) (s : Sys Concat.St (Concat.Loc α) α α) : Prop where
  tout : s.g.ph.sinkPh 0 = .doneBySrc → s.st.i = n ∨ ErrInLt n s.tr
  fe : ∀ e r, s.stack = Frame.run (Concat.Loc.fwd (.err e)) :: r → ErrInLt n s.tr
  nft : ∀ r, s.stack ≠ Frame.run (Concat.Loc.fwd .term) :: r
  ei : ErrOut s.tr → ErrInLt n s.tr

theorem K2_reach (n : Nat) (hn : 0 < n) : ∀ s, SReach (Concat.machine α n) s → s.panicked = none → K2 n s := by
  apply reach_ind
  · intro _; exact ⟨fun h => by simp [Sys.init] at h, fun e r h => by simp [Sys.init] at h, fun r h => by simp [Sys.init] at h,
      fun ⟨k, e, hk⟩ => by simp [Sys.init, sinkEvs] at hk⟩
  · intro a b ha ih hstep
    cases hstep with
    | @tau st l stk g tr s' l' hst =>
      intro _
      obtain ⟨h1, h2, h3, h4⟩ := ih rfl
      have hk1 := K1_reach n hn _ ha rfl
      simp only at h1 h2 h3 h4
      refine ⟨?_, ?_, ?_, h4⟩
      · intro hd
        simp only at hd
        cases l with
        | t0 =>
          have := hk1.top
          simp only [TopB] at this
          rw [this.2] at hd; cases hd
        | g0 j' => simp [Concat.machine, Concat.step] at hst; obtain ⟨rfl, rfl⟩ := hst; exact h1 hd
        | g1 => simp [Concat.machine, Concat.step] at hst; split at hst <;> simp at hst; obtain ⟨rfl, rfl⟩ := hst; exact h1 hd
        | g2 => simp [Concat.machine, Concat.step] at hst; split at hst <;> simp at hst; obtain ⟨rfl, rfl⟩ := hst; exact h1 hd
        | p0 => simp [Concat.machine, Concat.step] at hst; obtain ⟨rfl, rfl⟩ := hst; exact h1 hd
        | done => cstp hst
        | next => cstp hst
        | g3 => cstp hst
        | fwd d => cstp hst
        | u1 u => cstp hst
      · intro e r heq
        simp only [List.cons.injEq, Frame.run.injEq] at heq
        obtain ⟨rfl, rfl⟩ := heq
        cases l with
        | t0 => simp [Concat.machine, Concat.step] at hst
        | g0 j' => simp [Concat.machine, Concat.step] at hst
        | g1 => simp [Concat.machine, Concat.step] at hst; split at hst <;> simp at hst
        | g2 => simp [Concat.machine, Concat.step] at hst; split at hst <;> simp at hst
        | p0 => simp [Concat.machine, Concat.step] at hst
        | done => cstp hst
        | next => cstp hst
        | g3 => cstp hst
        | fwd d => cstp hst
        | u1 u => cstp hst
      · intro r heq
        simp only [List.cons.injEq, Frame.run.injEq] at heq
        obtain ⟨rfl, rfl⟩ := heq
        cases l with
        | t0 => simp [Concat.machine, Concat.step] at hst
        | g0 j' => simp [Concat.machine, Concat.step] at hst
        | g1 => simp [Concat.machine, Concat.step] at hst; split at hst <;> simp at hst
        | g2 => simp [Concat.machine, Concat.step] at hst; split at hst <;> simp at hst
        | p0 => simp [Concat.machine, Concat.step] at hst
        | done => cstp hst
        | next => cstp hst
        | g3 => cstp hst
        | fwd d => cstp hst
        | u1 u => cstp hst
    | @call st l stk g tr o s' l' hst =>
      intro _
      obtain ⟨h1, h2, h3, h4⟩ := ih rfl
      simp only at h1 h2 h3 h4
      refine ⟨?_, fun e r heq => by simp at heq, fun r heq => by simp at heq, ?_⟩
      rotate_left
      · intro ho
        rcases errOut_cons ho with ho | ⟨k, e, he⟩
        · exact errInLt_cons _ (h4 ho)
        · simp only [Ev.out.injEq] at he
          subst he
          cases l with
          | fwd d =>
            simp [Concat.machine, Concat.step] at hst
            obtain ⟨⟨_, rfl⟩, _, _⟩ := hst
            exact errInLt_cons _ (h2 e stk rfl)
          | next => simp [Concat.machine, Concat.step] at hst; split at hst <;> simp at hst
          | g1 => simp [Concat.machine, Concat.step] at hst; split at hst <;> simp at hst
          | g3 => simp [Concat.machine, Concat.step] at hst; split at hst <;> simp at hst
          | u1 u => simp [Concat.machine, Concat.step] at hst; split at hst <;> simp at hst
          | done => cstp hst
          | g0 j' => cstp hst
          | g2 => cstp hst
          | t0 => cstp hst
          | p0 => cstp hst
      intro hd
      simp only [onOut_ph] at hd
      have back : (∀ k' d, o ≠ .down k' d) → s' = st → s'.i = n ∨ ErrInLt n (Ev.out o :: tr) := by
        intro ho hs
        subst hs
        rcases h1 (onOut_sinkPh_doneBySrc_back _ _ _ ho hd) with h | h
        · exact .inl h
        · exact .inr (errInLt_cons _ h)
      cases l with
      | next =>
        by_cases hin : st.i = n
        · simp [Concat.machine, Concat.step, hin] at hst
          obtain ⟨rfl, rfl, rfl⟩ := hst
          exact .inl hin
        · simp [Concat.machine, Concat.step, hin] at hst
          obtain ⟨rfl, rfl, rfl⟩ := hst
          exact back (fun k' d h => by cases h) rfl
      | g1 =>
        simp [Concat.machine, Concat.step] at hst
        split at hst <;> simp at hst
        obtain ⟨rfl, rfl, rfl⟩ := hst
        exact back (fun k' d h => by cases h) rfl
      | g3 =>
        simp [Concat.machine, Concat.step] at hst
        split at hst <;> simp at hst
        obtain ⟨rfl, rfl, rfl⟩ := hst
        exact back (fun k' d h => by cases h) rfl
      | u1 u =>
        simp [Concat.machine, Concat.step] at hst
        split at hst <;> simp at hst
        obtain ⟨rfl, rfl, rfl⟩ := hst
        exact back (fun k' d h => by cases h) rfl
      | fwd d =>
        simp [Concat.machine, Concat.step] at hst
        obtain ⟨rfl, rfl, rfl⟩ := hst
        cases d with
        | err e => exact .inr (errInLt_cons _ (h2 e stk rfl))
        | term => exact absurd rfl (h3 stk)
        | data x =>
          have hv := (Concat.concat_basicSafe n hn _ (reach_op ha (.call (s' := st) (l' := .done) (o := .down 0 (.data x))
            (by simp [Concat.machine, Concat.step])))).1
          simp only [onOut_ph] at hv
          obtain ⟨hl, he⟩ := onOut_down_ok _ _ _ hv
          rw [he] at hd
          simp [isFinal] at hd
          rw [hl] at hd; cases hd
      | done => cstp hst
      | g0 j' => cstp hst
      | g2 => cstp hst
      | t0 => cstp hst
      | p0 => cstp hst
    | @ret st l stk g tr hst =>
      intro _
      obtain ⟨h1, h2, h3, h4⟩ := ih rfl
      simp only at h1 h2 h3 h4
      refine ⟨?_, ?_, ?_, ?_⟩
      rotate_left 3
      · intro ho
        rcases errOut_cons ho with ho | ⟨k, e, he⟩
        · exact errInLt_cons _ (h4 ho)
        · cases he
      · intro hd
        simp only [onRetO_ph] at hd
        rcases h1 hd with h | h
        · exact .inl h
        · exact .inr (errInLt_cons _ h)
      · intro e r heq
        simp only at heq
        obtain ⟨o, l1, he⟩ := pop_turn _ ha (Frame.run (Concat.Loc.fwd (.err e))) (by rw [heq]; exact List.mem_cons_self)
        cases he
      · intro r heq
        simp only at heq
        obtain ⟨o, l1, he⟩ := pop_turn _ ha (Frame.run (Concat.Loc.fwd .term)) (by rw [heq]; exact List.mem_cons_self)
        cases he
    | panic hst => intro hp; cases hp
  · intro a b m ha ih hstep
    cases hstep with
    | @call st stk g tr c i hc hl =>
      intro _
      obtain ⟨h1, h2, h3, h4⟩ := ih rfl
      simp only at h1 h2 h3 h4
      obtain ⟨_, hm⟩ := cinv n hn ha hc
      refine ⟨?_, ?_, ?_, ?_⟩
      rotate_left 3
      · intro ho
        rcases errOut_cons ho with ho | ⟨k, e, he⟩
        · exact errInLt_cons _ (h4 ho)
        · cases he
      · intro hd
        simp only [onIn_ph] at hd
        rcases h1 (onIn_sinkPh_doneBySrc_back _ _ _ hd) with h | h
        · exact .inl h
        · exact .inr (errInLt_cons _ h)
      · intro e r heq
        simp only [List.cons.injEq, Frame.run.injEq] at heq
        obtain ⟨he, rfl⟩ := heq
        cases i with
        | srcDown j d =>
          cases d with
          | err e' =>
            obtain ⟨hj, _, _, hlt⟩ := live_cur hm (legal_srcDown hl)
            exact ⟨j, e', by omega, by simp [srcEvs, srcEv]⟩
          | data x => simp [Concat.machine, Concat.enter] at he
          | term => simp [Concat.machine, Concat.enter] at he
        | subscribe k => simp [Concat.machine, Concat.enter] at he
        | sinkUp k u => cases u <;> simp [Concat.machine, Concat.enter] at he
        | srcGreet j => simp [Concat.machine, Concat.enter] at he
      · intro r heq
        simp only [List.cons.injEq, Frame.run.injEq] at heq
        obtain ⟨he, rfl⟩ := heq
        cases i with
        | srcDown j d => cases d <;> simp [Concat.machine, Concat.enter] at he
        | subscribe k => simp [Concat.machine, Concat.enter] at he
        | sinkUp k u => cases u <;> simp [Concat.machine, Concat.enter] at he
        | srcGreet j => simp [Concat.machine, Concat.enter] at he
    | @ret st stk g tr o l hl =>
      intro _
      obtain ⟨h1, h2, h3, h4⟩ := ih rfl
      simp only at h1 h2 h3 h4
      have hfr := (PlugSafe.ConcatK.K_reach n hn _ ha rfl).2.1
      have : l = .done := hfr _ List.mem_cons_self o l rfl
      subst this
      refine ⟨?_, fun e r heq => by simp at heq, fun r heq => by simp at heq, ?_⟩
      rotate_left
      · intro ho
        rcases errOut_cons ho with ho | ⟨k, e, he⟩
        · exact errInLt_cons _ (h4 ho)
        · cases he
      intro hd
      rcases h1 hd with h | h
      · exact .inl h
      · exact .inr (errInLt_cons _ h)

end CK

namespace CK
variable {α : Type}

/-- the datum in flight -/
def pend : List (Fm α) → List α
  | .run (.fwd (.data a)) :: _ => [a]
  | _ => []

theorem pend_turn {stk : List (Fm α)} (h : ∀ f ∈ stk, ∃ o l, f = Frame.wait o l) : pend stk = [] := by
  cases stk with
  | nil => rfl
  | cons f r => obtain ⟨o, l, rfl⟩ := h f List.mem_cons_self; rfl

/-- the data equation of the binary `concat`, at every reachable configuration -/
structure K4 (s : Sys Concat.St (Concat.Loc α) α α) : Prop where
  d : sentData 0 s.tr ++ sentData 1 s.tr = recvData 0 s.tr ++ pend s.stack
  d1 : s.g.ph.srcPh 1 = .idle → sentData 1 s.tr = []

theorem K4_reach : ∀ s, SReach (Concat.machine α 2) s → s.panicked = none → K4 s := by
  apply reach_ind
  · intro _; exact ⟨rfl, fun _ => rfl⟩
  · intro a b ha ih hstep
    cases hstep with
    | @tau st l stk g tr s' l' hst =>
      intro _
      obtain ⟨h1, h2⟩ := ih rfl
      simp only at h1 h2
      refine ⟨?_, h2⟩
      cases l with
      | t0 => simp [Concat.machine, Concat.step] at hst; obtain ⟨rfl, rfl⟩ := hst; simpa [pend] using h1
      | g0 j' => simp [Concat.machine, Concat.step] at hst; obtain ⟨rfl, rfl⟩ := hst; simpa [pend] using h1
      | g1 => simp [Concat.machine, Concat.step] at hst; split at hst <;> simp at hst; obtain ⟨rfl, rfl⟩ := hst; simpa [pend] using h1
      | g2 => simp [Concat.machine, Concat.step] at hst; split at hst <;> simp at hst; obtain ⟨rfl, rfl⟩ := hst; simpa [pend] using h1
      | p0 => simp [Concat.machine, Concat.step] at hst; obtain ⟨rfl, rfl⟩ := hst; simpa [pend] using h1
      | done => cstp hst
      | next => cstp hst
      | g3 => cstp hst
      | fwd d => cstp hst
      | u1 u => cstp hst
    | @call st l stk g tr o s' l' hst =>
      intro _
      obtain ⟨h1, h2⟩ := ih rfl
      simp only at h1 h2
      refine ⟨?_, fun hi => ?_⟩
      · cases l with
        | next =>
          simp [Concat.machine, Concat.step] at hst
          split at hst <;> simp at hst <;> obtain ⟨rfl, rfl, rfl⟩ := hst <;> simpa [pend, sentData, recvData] using h1
        | g1 =>
          simp [Concat.machine, Concat.step] at hst
          split at hst <;> simp at hst
          obtain ⟨rfl, rfl, rfl⟩ := hst
          simpa [pend, sentData, recvData] using h1
        | g3 =>
          simp [Concat.machine, Concat.step] at hst
          split at hst <;> simp at hst
          obtain ⟨rfl, rfl, rfl⟩ := hst
          simpa [pend, sentData, recvData] using h1
        | u1 u =>
          simp [Concat.machine, Concat.step] at hst
          split at hst <;> simp at hst
          obtain ⟨rfl, rfl, rfl⟩ := hst
          simpa [pend, sentData, recvData] using h1
        | fwd d =>
          simp [Concat.machine, Concat.step] at hst
          obtain ⟨rfl, rfl, rfl⟩ := hst
          cases d <;> simpa [pend, sentData, recvData] using h1
        | done => cstp hst
        | g0 j' => cstp hst
        | g2 => cstp hst
        | t0 => cstp hst
        | p0 => cstp hst
      · simp only [onOut_ph] at hi
        have := h2 (onOut_srcPh_idle_back _ _ _ hi)
        simpa [sentData] using this
    | @ret st l stk g tr hst =>
      intro _
      obtain ⟨h1, h2⟩ := ih rfl
      simp only at h1 h2
      refine ⟨?_, fun hi => by simpa [sentData] using h2 (by simpa using hi)⟩
      rw [pend_turn (pop_turn _ ha)]
      cases l with
      | done => simpa [pend, sentData, recvData] using h1
      | g2 => simpa [pend, sentData, recvData] using h1
      | next => cstp hst
      | g0 j' => cstp hst
      | g1 => cstp hst
      | g3 => cstp hst
      | fwd d => cstp hst
      | t0 => cstp hst
      | p0 => cstp hst
      | u1 u => cstp hst
    | panic hst => intro hp; cases hp
  · intro a b m ha ih hstep
    cases hstep with
    | @call st stk g tr c i hc hl =>
      intro _
      obtain ⟨h1, h2⟩ := ih rfl
      simp only at h1 h2
      obtain ⟨hoths, hm⟩ := cinv 2 (by decide) ha hc
      have hk1 := K1_reach 2 (by decide) _ ha rfl
      rw [pend_turn (turn_all_waits _ ha hc), List.append_nil] at h1
      cases i with
      | subscribe k => exact ⟨by simpa [pend, sentData, recvData, Concat.machine, Concat.enter] using h1,
          fun hi => by simpa [sentData] using h2 (by simpa [Ph.onIn] using hi)⟩
      | sinkUp k u =>
        cases u <;> exact ⟨by simpa [pend, sentData, recvData, Concat.machine, Concat.enter] using h1,
          fun hi => by simpa [sentData] using h2 (by simpa [Ph.onIn] using hi)⟩
      | srcGreet k => exact ⟨by simpa [pend, sentData, recvData, Concat.machine, Concat.enter] using h1,
          fun hi => by simpa [sentData] using h2 (onIn_srcPh_idle_back _ _ _ (by simpa using hi))⟩
      | srcDown k d =>
        obtain ⟨hk, _, _, hlt⟩ := live_cur hm (legal_srcDown hl)
        have hidle : ∀ hi : (g.ph.onIn (.srcDown k d)).srcPh 1 = .idle, g.ph.srcPh 1 = .idle ∧ k ≠ 1 := by
          intro hi
          refine ⟨onIn_srcPh_idle_back _ _ _ hi, ?_⟩
          rintro rfl
          have := legal_srcDown hl
          rw [onIn_srcPh_idle_back _ _ _ hi] at this; cases this
        cases d with
        | term =>
          refine ⟨by simpa [pend, sentData, recvData, Concat.machine, Concat.enter] using h1, fun hi => ?_⟩
          simpa [sentData] using h2 (hidle (by simpa using hi)).1
        | err e =>
          refine ⟨by simpa [pend, sentData, recvData, Concat.machine, Concat.enter] using h1, fun hi => ?_⟩
          simpa [sentData] using h2 (hidle (by simpa using hi)).1
        | data x =>
          refine ⟨?_, fun hi => ?_⟩
          · have hk01 : k = 0 ∨ k = 1 := by omega
            rcases hk01 with rfl | rfl
            · have hs1 : sentData 1 tr = [] := h2 (hk1.s2 1 (by rw [← hk]; decide))
              simp [pend, sentData, recvData, Concat.machine, Concat.enter, hs1] at h1 ⊢
              exact h1
            · simp [pend, sentData, recvData, Concat.machine, Concat.enter] at h1 ⊢
              rw [← h1, List.append_assoc]
          · obtain ⟨hi1, hk1'⟩ := hidle (by simpa using hi)
            simpa [sentData, hk1'] using h2 hi1
    | @ret st stk g tr o l hl =>
      intro _
      obtain ⟨h1, h2⟩ := ih rfl
      simp only at h1 h2
      have hfr := (PlugSafe.ConcatK.K_reach 2 (by decide) _ ha rfl).2.1
      have : l = .done := hfr _ List.mem_cons_self o l rfl
      subst this
      exact ⟨by simpa [pend, sentData, recvData] using h1, fun hi => by simpa [sentData] using h2 hi⟩

end CK

namespace CK
variable {α : Type}

/-- an unserved Pull of the sink has been passed to the CURRENT member -/
def Q (st : Concat.St) (tr : List (Ev α α)) : Prop := aP tr = true → lastPullSrc st.i (srcEvs tr) = true

def DQ (st : Concat.St) (g : Ph) (tr : List (Ev α α)) : List (Fm α) → Prop
  | .run .p0 :: _ => True
  | .run (.u1 .pull) :: _ => True
  | .run (.fwd _) :: _ => True
  | .run .t0 :: _ => True
  | .run .next :: _ => True
  | .run (.g0 _) :: _ => True
  | .run .g1 :: _ => True
  | .run .g2 :: _ => True
  | .run .g3 :: _ => True
  | .wait (.subSrc j) _ :: _ => g.srcPh j = .subscribed ∨ Q st tr
  | _ => Q st tr

structure K3 (s : Sys Concat.St (Concat.Loc α) α α) : Prop where
  np : s.g.ph.sinkPh 0 = .idle ∨ s.g.ph.sinkPh 0 = .subscribed → aP s.tr = false
  gp : aP s.tr = true → s.st.gotPull = true ∨ ∃ r, s.stack = Frame.run Concat.Loc.p0 :: r
  dq : DQ s.st s.g.ph s.tr s.stack

macro "cevs" : tactic =>
  `(tactic| simp [Q, aP, sinkEvs, sinkEv, srcEvs, srcEv, lastPull, lastPullSrc, relS, relSrc] at *)

theorem dq_pop {st : Concat.St} {g : Ph} {tr : List (Ev α α)} {stk : List (Fm α)}
    (hw : ∀ f ∈ stk, ∃ o l, f = Frame.wait o l) (hq : Q st tr) : DQ st g tr stk := by
  cases stk with
  | nil => exact hq
  | cons f r =>
    obtain ⟨o, l, rfl⟩ := hw f List.mem_cons_self
    cases o <;> first | exact hq | exact .inr hq

theorem K3_reach (n : Nat) (hn : 0 < n) : ∀ s, SReach (Concat.machine α n) s → s.panicked = none → K3 s := by
  apply reach_ind
  · intro _
    exact ⟨fun _ => by simp [aP, sinkEvs, lastPull, Sys.init], fun h => by simp [aP, sinkEvs, lastPull, Sys.init] at h,
      by simp [DQ, Q, aP, sinkEvs, lastPull, Sys.init]⟩
  · intro a b ha ih hstep
    have hbb := Concat.concat_basicSafe n hn b (reach_op ha hstep)
    cases hstep with
    | @tau st l stk g tr s' l' hst =>
      intro _
      obtain ⟨h1, h2, h3⟩ := ih rfl
      simp only at h1 h2 h3
      cases l with
      | t0 =>
        simp [Concat.machine, Concat.step] at hst; obtain ⟨rfl, rfl⟩ := hst
        exact ⟨h1, fun ha' => (by rcases h2 ha' with h | ⟨r, h⟩ <;> first | exact .inl h | cases h), by simp [DQ]⟩
      | g0 j' =>
        simp [Concat.machine, Concat.step] at hst; obtain ⟨rfl, rfl⟩ := hst
        exact ⟨h1, fun ha' => (by rcases h2 ha' with h | ⟨r, h⟩ <;> first | exact .inl h | cases h), by simp [DQ]⟩
      | g1 =>
        simp [Concat.machine, Concat.step] at hst; split at hst <;> simp at hst; obtain ⟨rfl, rfl⟩ := hst
        exact ⟨h1, fun ha' => (by rcases h2 ha' with h | ⟨r, h⟩ <;> first | exact .inl h | cases h), by simp [DQ]⟩
      | g2 =>
        simp [Concat.machine, Concat.step] at hst; split at hst <;> simp at hst; obtain ⟨rfl, rfl⟩ := hst
        exact ⟨h1, fun ha' => (by rcases h2 ha' with h | ⟨r, h⟩ <;> first | exact .inl h | cases h), by simp [DQ]⟩
      | p0 =>
        simp [Concat.machine, Concat.step] at hst; obtain ⟨rfl, rfl⟩ := hst
        exact ⟨h1, fun _ => .inl rfl, by simp [DQ]⟩
      | done => cstp hst
      | next => cstp hst
      | g3 => cstp hst
      | fwd d => cstp hst
      | u1 u => cstp hst
    | @call st l stk g tr o s' l' hst =>
      intro _
      obtain ⟨h1, h2, h3⟩ := ih rfl
      simp only at h1 h2 h3
      have hv : (g.ph.onOut o).viols = [] := by simpa using hbb.1
      have hk1 := K1_reach n hn _ ha rfl
      have gp' : aP tr = true → st.gotPull = true := by
        intro ha'
        rcases h2 ha' with h | ⟨r, h⟩
        · exact h
        · simp only [List.cons.injEq, Frame.run.injEq] at h
          obtain ⟨rfl, _⟩ := h
          simp [Concat.machine, Concat.step] at hst
      cases l with
      | next =>
        by_cases hin : st.i = n
        · simp [Concat.machine, Concat.step, hin] at hst
          obtain ⟨rfl, rfl, rfl⟩ := hst
          exact ⟨fun _ => by cevs, fun h => by cevs, by simp [DQ]; cevs⟩
        · simp [Concat.machine, Concat.step, hin] at hst
          obtain ⟨rfl, rfl, rfl⟩ := hst
          obtain ⟨_, _, he⟩ := onOut_subSrc_ok _ _ hv
          refine ⟨fun hs => ?_, fun h => ?_, ?_⟩
          · simp only [onOut_ph, he] at hs
            have := h1 (by simpa using hs); cevs; exact this
          · left; exact gp' (by cevs; exact h)
          · simp only [DQ, onOut_ph, he]; left; simp
      | g1 =>
        simp [Concat.machine, Concat.step] at hst
        split at hst <;> simp at hst
        obtain ⟨rfl, rfl, rfl⟩ := hst
        obtain ⟨hsub, he⟩ := onOut_greet_ok _ _ hv
        have hap : aP tr = false := h1 (.inr hsub)
        exact ⟨fun _ => (by cevs; exact hap), fun h => (by cevs; rw [hap] at h; cases h), (by simp [DQ]; cevs; intro h; rw [hap] at h; cases h)⟩
      | g3 =>
        have hslot := hk1.top
        simp only [TopB] at hslot
        simp [Concat.machine, Concat.step, hslot] at hst
        obtain ⟨rfl, rfl, rfl⟩ := hst
        refine ⟨fun hs => ?_, fun h => ?_, ?_⟩
        · simp only [onOut_ph] at hs
          have := h1 (by rcases hs with hs | hs
                         · exact .inl (onOut_sinkPh_idle _ _ _ hs)
                         · exact .inr (onOut_sinkPh_subscribed _ _ _ hs))
          cevs; exact this
        · left; exact gp' (by cevs; exact h)
        · simp [DQ]; cevs
      | fwd d =>
        simp [Concat.machine, Concat.step] at hst
        obtain ⟨rfl, rfl, rfl⟩ := hst
        exact ⟨fun _ => by cevs, fun h => by cevs, by simp [DQ]; cevs⟩
      | u1 u =>
        have hslot := hk1.top
        simp only [TopB] at hslot
        cases hs : st.slot with
        | none => simp [Concat.machine, Concat.step, hs] at hst
        | some sl =>
          simp [Concat.machine, Concat.step, hs] at hst
          obtain ⟨rfl, rfl, rfl⟩ := hst
          have np' : (g.ph.onOut (Out.srcUp sl u : Out α)).sinkPh 0 = .idle ∨ (g.ph.onOut (Out.srcUp sl u : Out α)).sinkPh 0 = .subscribed →
              g.ph.sinkPh 0 = .idle ∨ g.ph.sinkPh 0 = .subscribed := by
            intro hs'
            rcases hs' with hs' | hs'
            · exact .inl (onOut_sinkPh_idle _ _ _ hs')
            · exact .inr (onOut_sinkPh_subscribed _ _ _ hs')
          cases u with
          | pull =>
            have : sl = st.i := by have := hslot rfl; rw [hs] at this; exact Option.some.inj this
            subst this
            exact ⟨fun hs' => by have := h1 (np' (by simpa using hs')); cevs; exact this,
              fun h => .inl (gp' (by cevs; exact h)), by simp [DQ]; cevs⟩
          | term =>
            simp only [DQ] at h3
            exact ⟨fun hs' => by have := h1 (np' (by simpa using hs')); cevs; exact this,
              fun h => .inl (gp' (by cevs; exact h)), by simp [DQ]; cevs; exact h3⟩
          | err e =>
            simp only [DQ] at h3
            exact ⟨fun hs' => by have := h1 (np' (by simpa using hs')); cevs; exact this,
              fun h => .inl (gp' (by cevs; exact h)), by simp [DQ]; cevs; exact h3⟩
      | done => cstp hst
      | g0 j' => cstp hst
      | g2 => cstp hst
      | t0 => cstp hst
      | p0 => cstp hst
    | @ret st l stk g tr hst =>
      intro _
      obtain ⟨h1, h2, h3⟩ := ih rfl
      simp only at h1 h2 h3
      have hw := pop_turn _ ha
      have hapr : aP (Ev.retO :: tr : List (Ev α α)) = aP tr := by simp [aP, sinkEvs, sinkEv]
      have hqr : Q st tr → Q st (Ev.retO :: tr) := by intro h; cevs; exact h
      have gp' : aP tr = true → st.gotPull = true := by
        intro ha'
        rcases h2 ha' with h | ⟨r, h⟩
        · exact h
        · simp only [List.cons.injEq, Frame.run.injEq] at h
          obtain ⟨rfl, _⟩ := h
          simp [Concat.machine, Concat.step] at hst
      have hgp : aP (Ev.retO :: tr : List (Ev α α)) = true → st.gotPull = true ∨ ∃ r, stk = Frame.run Concat.Loc.p0 :: r :=
        fun h => .inl (gp' (by rw [hapr] at h; exact h))
      cases l with
      | done =>
        simp only [DQ] at h3
        exact ⟨fun hs => by rw [hapr]; exact h1 (by simpa using hs), hgp, dq_pop hw (hqr h3)⟩
      | g2 =>
        simp [Concat.machine, Concat.step] at hst
        refine ⟨fun hs => by rw [hapr]; exact h1 (by simpa using hs), hgp, dq_pop hw (hqr ?_)⟩
        intro ha'
        have := gp' ha'
        rw [this] at hst; cases hst
      | next => cstp hst
      | g0 j' => cstp hst
      | g1 => cstp hst
      | g3 => cstp hst
      | fwd d => cstp hst
      | t0 => cstp hst
      | p0 => cstp hst
      | u1 u => cstp hst
    | panic hst => intro hp; cases hp
  · intro a b m ha ih hstep
    cases hstep with
    | @call st stk g tr c i hc hl =>
      intro _
      obtain ⟨h1, h2, h3⟩ := ih rfl
      simp only at h1 h2 h3
      obtain ⟨hoths, hm⟩ := cinv n hn ha hc
      have gp' : aP tr = true → st.gotPull = true := by
        intro ha'
        rcases h2 ha' with h | ⟨r, h⟩
        · exact h
        · subst h; simp [ctxOf] at hc
      cases i with
      | subscribe k =>
        have hidle := legal_subscribe hl
        have hk : k = 0 := by
          simp only [legalIn, Bool.and_eq_true, beq_iff_eq, Concat.machine, Bool.or_false] at hl; exact hl.2
        subst hk
        have hap := h1 (.inl hidle)
        exact ⟨fun _ => (by cevs; exact hap), fun h => (by cevs; rw [hap] at h; cases h),
          by simp [DQ, Concat.machine, Concat.enter]⟩
      | sinkUp k u =>
        have hlive := legal_sinkUp hl
        have hk : k = 0 := by
          by_cases hk : k = 0
          · exact hk
          · rw [hoths k hk] at hlive; cases hlive
        subst hk
        have hnw : ∀ j l r, stk ≠ Frame.wait (.subSrc j) l :: r := by
          intro j l r he; subst he
          simp [ctxOf] at hc; subst hc
          simp [legalIn, isTop, inGreet, inData] at hl
        have hq : Q st tr := by
          cases stk with
          | nil => exact h3
          | cons f r =>
            cases f with
            | run l0 => simp [ctxOf] at hc
            | wait o l0 =>
              cases o with
              | subSrc j => exact absurd rfl (hnw j l0 r)
              | greet k' => exact h3
              | down k' d => exact h3
              | srcUp i' u' => exact h3
              | app b' => exact h3
        cases u with
        | pull =>
          refine ⟨fun hs => ?_, fun _ => .inr ⟨_, rfl⟩, by simp [DQ, Concat.machine, Concat.enter]⟩
          simp only [onIn_ph, Ph.onIn] at hs
          rw [hlive] at hs; rcases hs with hs | hs <;> cases hs
        | term =>
          refine ⟨fun hs => ?_, fun h => .inl (gp' (by cevs; exact h)), ?_⟩
          · simp [Ph.onIn] at hs
          · simp [DQ, Concat.machine, Concat.enter]; cevs; exact hq
        | err e =>
          refine ⟨fun hs => ?_, fun h => .inl (gp' (by cevs; exact h)), ?_⟩
          · simp [Ph.onIn] at hs
          · simp [DQ, Concat.machine, Concat.enter]; cevs; exact hq
      | srcGreet j =>
        exact ⟨fun hs => by have := h1 (by simpa [Ph.onIn] using hs); cevs; exact this,
          fun h => .inl (gp' (by cevs; exact h)), by simp [DQ, Concat.machine, Concat.enter]⟩
      | srcDown j d =>
        refine ⟨fun hs => ?_, fun h => .inl (gp' (by cevs; exact h)), ?_⟩
        · have := h1 (by cases d <;> simpa [Ph.onIn] using hs)
          cevs; exact this
        · cases d <;> simp [DQ, Concat.machine, Concat.enter]
    | @ret st stk g tr o l hl =>
      intro _
      obtain ⟨h1, h2, h3⟩ := ih rfl
      simp only at h1 h2 h3
      have hfr := (PlugSafe.ConcatK.K_reach n hn _ ha rfl).2.1
      have : l = .done := hfr _ List.mem_cons_self o l rfl
      subst this
      have hq : Q st tr := by
        cases o with
        | subSrc j =>
          simp only [DQ] at h3
          rcases h3 with h3 | h3
          · simp [legalRet, Concat.machine, h3] at hl
          · exact h3
        | greet k' => exact h3
        | down k' d => exact h3
        | srcUp i' u' => exact h3
        | app b' => exact h3
      refine ⟨fun hs => by have := h1 hs; cevs; exact this, fun h => ?_, by simp [DQ]; cevs; exact hq⟩
      rcases h2 (by cevs; exact h) with h | ⟨r, h⟩
      · exact .inl h
      · cases h

end CK

/-! ## Part 4: `concat!(A, B)` of two closed heads is a head for `ysA ++ ysB` -/
section Assembly

theorem lastPullSrc_srcNe {α : Type} (i j : Nat) (hij : i ≠ j) (l : List (SrcEv α)) :
    lastPullSrc i (srcNe j l) = lastPullSrc i l := by
  induction l with
  | nil => rfl
  | cons e t ih =>
    cases e with
    | down i' d =>
      by_cases h : i' = j
      · subst h
        have : i' ≠ i := Ne.symm hij
        simp [srcNe, srcIdx, lastPullSrc, relSrc, this] at ih ⊢; exact ih
      · simp [srcNe, srcIdx, lastPullSrc, relSrc, h] at ih ⊢; rw [ih]
    | up i' u =>
      by_cases h : i' = j
      · subst h
        have : i' ≠ i := Ne.symm hij
        simp [srcNe, srcIdx, lastPullSrc, relSrc, this] at ih ⊢; exact ih
      · simp [srcNe, srcIdx, lastPullSrc, relSrc, h] at ih ⊢; rw [ih]
    | greet i' => by_cases h : i' = j <;> simp [srcNe, srcIdx, lastPullSrc, relSrc, h] at ih ⊢ <;> exact ih
    | sub i' => by_cases h : i' = j <;> simp [srcNe, srcIdx, lastPullSrc, relSrc, h] at ih ⊢ <;> exact ih

theorem lastPullSrc_srcEq {α : Type} (j : Nat) (l : List (SrcEv α)) : lastPullSrc j (srcEq j l) = lastPullSrc j l := by
  induction l with
  | nil => rfl
  | cons e t ih =>
    cases e with
    | down i' d =>
      by_cases h : i' = j
      · simp [srcEq, srcIdx, lastPullSrc, relSrc, h]
      · simp [srcEq, srcIdx, lastPullSrc, relSrc, h] at ih ⊢; exact ih
    | up i' u =>
      by_cases h : i' = j
      · simp [srcEq, srcIdx, lastPullSrc, relSrc, h] at ih ⊢; rw [ih]
      · simp [srcEq, srcIdx, lastPullSrc, relSrc, h] at ih ⊢; exact ih
    | greet i' => by_cases h : i' = j <;> simp [srcEq, srcIdx, lastPullSrc, relSrc, h] at ih ⊢ <;> exact ih
    | sub i' => by_cases h : i' = j <;> simp [srcEq, srcIdx, lastPullSrc, relSrc, h] at ih ⊢ <;> exact ih

theorem lastPull_dualJ {β : Type} (j : Nat) (l : List (SinkEv β)) : lastPull 0 l = lastPullSrc j (dualJ j l) := by
  induction l with
  | nil => rfl
  | cons e t ih =>
    cases e with
    | down k d => by_cases h : k = 0 <;> simp [lastPull, relS, dualJ, dual1, lastPullSrc, relSrc, h, ih]
    | up k u => by_cases h : k = 0 <;> simp [lastPull, relS, dualJ, dual1, lastPullSrc, relSrc, h, ih]
    | subscribe k => by_cases h : k = 0 <;> simp [lastPull, relS, dualJ, dual1, lastPullSrc, relSrc, h, ih]
    | greet k => by_cases h : k = 0 <;> simp [lastPull, relS, dualJ, dual1, lastPullSrc, relSrc, h, ih]
    | app b => simp [lastPull, relS, dualJ, dual1, ih]

theorem mem_dualJ_down {β : Type} {j i : Nat} {d : Down β} {l : List (SinkEv β)} (h : SrcEv.down i d ∈ dualJ j l) :
    SinkEv.down 0 d ∈ l := by
  induction l with
  | nil => cases h
  | cons e t ih =>
    simp only [dualJ] at h
    cases hd : dual1 j e with
    | none => rw [hd] at h; exact List.mem_cons_of_mem _ (ih (by simpa using h))
    | some x =>
      rw [hd] at h
      simp only [consOpt_some, List.mem_cons] at h
      rcases h with h | h
      · subst h
        cases e with
        | down k d' =>
          simp only [dual1] at hd
          split at hd
          · rename_i hk; subst hk; cases hd; exact List.mem_cons_self
          · cases hd
        | subscribe k => simp only [dual1] at hd; split at hd <;> cases hd
        | up k u => simp only [dual1] at hd; split at hd <;> cases hd
        | greet k => simp only [dual1] at hd; split at hd <;> cases hd
        | app b => cases hd
      · exact List.mem_cons_of_mem _ (ih h)

end Assembly

section Main
open ComposeFull
variable {SA LA SB LB αA αB β : Type} {A : Machine SA LA αA β} {B : Machine SB LB αB β}

/-- everything the two projections give, for a reachable configuration `s` of `concat!(A, B)` -/
structure Proj2 (A : Machine SA LA αA β) (B : Machine SB LB αB β) (s : Sys (SA × (SB × Concat.St)) (List (CFr LA (List (CFr LB (Concat.Loc β))))) β β)
    (sA : Sys SA LA αA β) (sB : Sys SB LB αB β) (sC : Sys Concat.St (Concat.Loc β) β β) : Prop where
  rA : SReach A sA
  rB : SReach B sB
  rC : SReach (Concat.machine β 2) sC
  pC : sC.panicked = none
  sink : sinkEvs s.tr = sinkEvs sC.tr
  sinkPh : ∀ k, s.g.ph.sinkPh k = sC.g.ph.sinkPh k
  sent0 : sentData 0 sC.tr = recvData 0 sA.tr
  sent1 : sentData 1 sC.tr = recvData 0 sB.tr
  ph0 : sC.g.ph.srcPh 0 = toSrc (sA.g.ph.sinkPh 0)
  ph1 : sC.g.ph.srcPh 1 = toSrc (sB.g.ph.sinkPh 0)
  top : s.stack = [] → sA.stack = [] ∧ sB.stack = [] ∧ sC.stack = []
  turn : EnvTurn s → EnvTurn sA ∧ EnvTurn sB ∧ EnvTurn sC
  pull0 : lastPullSrc 0 (srcEvs sC.tr) = aP sA.tr
  pull1 : lastPullSrc 1 (srcEvs sC.tr) = aP sB.tr
  err : CK.ErrInLt 2 sC.tr → ErrOut sA.tr ∨ ErrOut sB.tr

theorem proj2 (HA : HypP A (plug 1 B (Concat.machine β 2))) (HB : HypP B (Concat.machine β 2)) :
    ∀ s, SReach (plug 0 A (plug 1 B (Concat.machine β 2))) s → ∃ (sA : Sys SA LA αA β) (sB : Sys SB LB αB β) (sC : Sys Concat.St (Concat.Loc β) β β), Proj2 A B s sA sB sC := by
  intro s hs
  obtain ⟨sA, s', hrA, hr', hmA, htA⟩ := plug_inv_tr HA 0 s hs
  obtain ⟨sB, sC, hrB, hrC, hmB, htB⟩ := plug_inv_tr HB 1 s' hr'
  have pA := ProjP.of hmA htA
  have pB := ProjP.of hmB htB
  refine ⟨sA, sB, sC, hrA, hrB, hrC, hmB.p2, htA.sink.trans htB.sink, fun k => (hmA.gh.sink k).trans (hmB.gh.sink k),
    ?_, pB.ifc.symm, ?_, hmB.gh.ifc, ?_, ?_, ?_, ?_, ?_⟩
  · rw [← pB.sent 0 (by decide)]; exact pA.ifc.symm
  · rw [← hmB.gh.src 0 (by decide)]; exact hmA.gh.ifc
  · intro hstk
    obtain ⟨h1, h2⟩ := matchP_top hmA hstk
    obtain ⟨h3, h4⟩ := matchP_top hmB h2
    exact ⟨h1, h3, h4⟩
  · intro ht
    obtain ⟨h1, h2⟩ := pA.turn ht
    obtain ⟨h3, h4⟩ := pB.turn h2
    exact ⟨h1, h3, h4⟩
  · rw [← lastPullSrc_srcNe 0 1 (by decide), ← htB.src, ← lastPullSrc_srcEq, ← htA.ifc, ← lastPull_dualJ]; rfl
  · rw [← lastPullSrc_srcEq, ← htB.ifc, ← lastPull_dualJ]; rfl
  · rintro ⟨i, e, hlt, hi⟩
    by_cases h1 : i = 1
    · subst h1
      right
      have : SrcEv.down 1 (Down.err e) ∈ srcEq 1 (srcEvs sC.tr) := by simp [srcEq, srcIdx, hi]
      rw [← htB.ifc] at this
      exact ⟨0, e, mem_dualJ_down this⟩
    · have h0 : i = 0 := by omega
      subst h0
      left
      have h' : SrcEv.down 0 (Down.err e) ∈ srcNe 1 (srcEvs sC.tr) := by simp [srcNe, srcIdx, hi]
      rw [← htB.src] at h'
      have : SrcEv.down 0 (Down.err e) ∈ srcEq 0 (srcEvs s'.tr) := by simp [srcEq, srcIdx, h']
      rw [← htA.ifc] at this
      exact ⟨0, e, mem_dualJ_down this⟩

/-- **`concat!(A, B)` of two closed heads** delivers `ysA ++ ysB` -/
theorem concat2_headOkT {ysA ysB : List β} (hA : HeadOkT A ysA) (NA : NoUpstream A) (hB : HeadOkT B ysB) (NB : NoUpstream B) :
    HeadOkT (plug 0 A (plug 1 B (Concat.machine β 2))) (ysA ++ ysB) ∧
      NoUpstream (plug 0 A (plug 1 B (Concat.machine β 2))) := by
  have h2 : (0 : Nat) < 2 := by decide
  have HB : HypP B (Concat.machine β 2) := hypP_of hB.head.up NB (Concat.concat_basicSafe 2 h2)
  have HA : HypP A (plug 1 B (Concat.machine β 2)) := hypP_of hA.head.up NA (plug_basicSafe HB 1)
  obtain ⟨UQ, NQ, _⟩ := concat2_plugged hA.head.up NA hB.head.up NB
  -- the data equation and its consequences, at an environment turn
  have data : ∀ s, SReach (plug 0 A (plug 1 B (Concat.machine β 2))) s → EnvTurn s →
      ∃ (sA : Sys SA LA αA β) (sB : Sys SB LB αB β) (sC : Sys Concat.St (Concat.Loc β) β β), Proj2 A B s sA sB sC ∧ recvData 0 s.tr = recvData 0 sA.tr ++ recvData 0 sB.tr ∧
        recvData 0 sA.tr <+: ysA ∧ recvData 0 sB.tr <+: ysB ∧ (recvData 0 sB.tr ≠ [] → recvData 0 sA.tr = ysA) := by
    intro s hs ht
    obtain ⟨sA, sB, sC, hp⟩ := proj2 HA HB s hs
    obtain ⟨htA, htB, htC⟩ := hp.turn ht
    have hk4 := CK.K4_reach sC hp.rC hp.pC
    have hd := hk4.d
    obtain ⟨cc, hcc⟩ := Option.isSome_iff_exists.1 htC.2
    rw [CK.pend_turn (turn_all_waits _ hp.rC hcc), List.append_nil, hp.sent0, hp.sent1] at hd
    refine ⟨sA, sB, sC, hp, ?_, hA.head.spec sA hp.rA htA, hB.head.spec sB hp.rB htB, ?_⟩
    · rw [recvData_eq, hp.sink, ← recvData_eq, ← hd]
    · intro hne
      have hk1 := CK.K1_reach 2 h2 sC hp.rC hp.pC
      have hn1 : sC.g.ph.srcPh 1 ≠ .idle := fun hi => hne (by rw [← hp.sent1]; exact hk4.d1 hi)
      have hi1 : 1 ≤ sC.st.i := by
        by_cases h : 1 ≤ sC.st.i
        · exact h
        · exact absurd (hk1.s2 1 (by omega)) hn1
      have he0 : sC.g.ph.srcPh 0 = .ended := hk1.s1 0 (by omega)
      exact hA.doneT sA hp.rA htA (toSrc_ended.1 (hp.ph0 ▸ he0))
  -- when the sink has been terminated, both members have ended
  have ended : ∀ s, SReach (plug 0 A (plug 1 B (Concat.machine β 2))) s → ∀ (sA : Sys SA LA αA β) (sB : Sys SB LB αB β) (sC : Sys Concat.St (Concat.Loc β) β β), Proj2 A B s sA sB sC →
      s.g.ph.sinkPh 0 = .doneBySrc → sA.g.ph.sinkPh 0 = .doneBySrc ∧ sB.g.ph.sinkPh 0 = .doneBySrc := by
    intro s hs sA sB sC hp hd
    have hk2 := CK.K2_reach 2 h2 sC hp.rC hp.pC
    have hk1 := CK.K1_reach 2 h2 sC hp.rC hp.pC
    rcases hk2.tout (by rw [← hp.sinkPh 0]; exact hd) with hi | herr
    · exact ⟨toSrc_ended.1 (hp.ph0 ▸ hk1.s1 0 (by omega)), toSrc_ended.1 (hp.ph1 ▸ hk1.s1 1 (by omega))⟩
    · rcases hp.err herr with he | he
      · exact absurd he (hA.noErr sA hp.rA)
      · exact absurd he (hB.noErr sB hp.rB)
  refine ⟨⟨⟨UQ, ?_, ?_, ?_⟩, ?_, ?_⟩, NQ⟩
  · -- spec
    intro s hs ht
    obtain ⟨sA, sB, sC, hp, he, h1, h2', h3⟩ := data s hs ht
    show recvData 0 s.tr <+: ysA ++ ysB
    rw [he]
    by_cases hne : recvData 0 sB.tr = []
    · rw [hne, List.append_nil]; exact h1.trans (List.prefix_append _ _)
    · rw [h3 hne]; exact (List.prefix_append_right_inj _).2 h2'
  · -- done (top level)
    intro s hs hstk hd
    have ht : EnvTurn s := ⟨(UQ.safe s hs).2, by simp [hstk, ctxOf]⟩
    obtain ⟨sA, sB, sC, hp, he, _, _, _⟩ := data s hs ht
    obtain ⟨htA, htB, _⟩ := hp.turn ht
    obtain ⟨hdA, hdB⟩ := ended s hs sA sB sC hp hd
    rw [he, hA.doneT sA hp.rA htA hdA, hB.doneT sB hp.rB htB hdB]
  · -- served (top level)
    intro s hs hstk hl
    obtain ⟨sA, sB, sC, hp⟩ := proj2 HA HB s hs
    obtain ⟨hkA, hkB, hkC⟩ := hp.top hstk
    cases hap : aP s.tr with
    | false => rfl
    | true =>
      exfalso
      have hapC : aP sC.tr = true := by simpa [aP, hp.sink] using hap
      have hlC : sC.g.ph.sinkPh 0 = .live := by rw [← hp.sinkPh 0]; exact hl
      have hrC' : SReach (Concat.machine β 2) ⟨sC.st, [], sC.g, sC.tr, none⟩ := by
        have := hp.rC; rw [← hkC, ← hp.pC]; exact this
      obtain ⟨_, hm⟩ := CK.cinv (c := Ctx.top) 2 h2 hrC' rfl
      obtain ⟨_, hcur, hlt⟩ := CK.sinkLive_cur hm hlC (fun j l r h => by cases h)
      have hk3 := (CK.K3_reach 2 h2 sC hp.rC hp.pC).dq
      rw [hkC] at hk3
      have hq : lastPullSrc sC.st.i (srcEvs sC.tr) = true := hk3 hapC
      have hi : sC.st.i = 0 ∨ sC.st.i = 1 := by omega
      rcases hi with hi | hi
      · rw [hi] at hq hcur
        rw [hp.pull0] at hq
        have := hA.head.served sA hp.rA hkA (toSrc_live.1 (hp.ph0 ▸ hcur))
        rw [this] at hq; cases hq
      · rw [hi] at hq hcur
        rw [hp.pull1] at hq
        have := hB.head.served sB hp.rB hkB (toSrc_live.1 (hp.ph1 ▸ hcur))
        rw [this] at hq; cases hq
  · -- doneT
    intro s hs ht hd
    obtain ⟨sA, sB, sC, hp, he, _, _, _⟩ := data s hs ht
    obtain ⟨htA, htB, _⟩ := hp.turn ht
    obtain ⟨hdA, hdB⟩ := ended s hs sA sB sC hp hd
    rw [he, hA.doneT sA hp.rA htA hdA, hB.doneT sB hp.rB htB hdB]
  · -- noErr
    intro s hs ⟨k, e, hk⟩
    obtain ⟨sA, sB, sC, hp⟩ := proj2 HA HB s hs
    rw [hp.sink] at hk
    have herr := (CK.K2_reach 2 h2 sC hp.rC hp.pC).ei ⟨k, e, hk⟩
    rcases hp.err herr with he | he
    · exact hA.noErr sA hp.rA he
    · exact hB.noErr sB hp.rB he

end Main
end PlugConcat
end Cb

#print axioms Cb.PlugConcat.concat2_headOkT
#print axioms Cb.PlugConcat.HeadOkT.compose
