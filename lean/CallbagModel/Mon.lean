import CallbagModel.EnvX
/-!
# The monitor on raw traces

`monRun` folds a chronological list of boundary events through the conformance automaton (`legalInX`, `legalRet`) and
the ghost monitor (`G.onIn`, `G.onOut`, `G.onRetO`) *without any machine*: it is what judges traces recorded from the
real crate.  `cross` counts the calls that are legal only by the cross-sink clause of `EnvX.lean` (classification of histories).
-/
namespace Cb

inductive CFrame (β : Type) where
  | op                 -- an operator handler is open
  | env (o : Out β)    -- the operator called `o`; the environment has control
deriving Repr

structure MonSt (β : Type) where
  g : G := {}
  cs : List (CFrame β) := []
  envOk : Bool := true       -- the environment has been conformant so far
  shapeOk : Bool := true     -- the event sequence is well bracketed
  panicked : Bool := false
  cross : Nat := 0           -- environment calls legal only in the cross-peer environment (EnvX.lean)
  wide : Nat := 0            -- … of which not even cross-sink calls: such histories are compared, not judged

def opHeight {β} : List (CFrame β) → Nat
  | [] => 0
  | .op :: r => opHeight r + 1
  | .env _ :: r => opHeight r

def ctxOfC {β} : List (CFrame β) → Option (Ctx β)
  | [] => some .top
  | .env o :: _ => some (.inCall o)
  | .op :: _ => none

def monStep {α β} (sh : Shape) (m : MonSt β) (e : Ev α β) : MonSt β :=
  if !m.envOk || !m.shapeOk || m.panicked then m else
  match e with
  | .inp i => match ctxOfC m.cs with
    | some c => if legalInX sh m.g.ph c i then
        { m with g := m.g.onIn (opHeight m.cs) i, cs := .op :: m.cs, cross := m.cross + (if isCross sh m.g.ph c i then 1 else 0),
                 wide := m.wide + (if isWide sh m.g.ph c i then 1 else 0) }
      else { m with envOk := false }
    | none => { m with shapeOk := false }
  | .out o => match m.cs with
    | .op :: _ => { m with g := m.g.onOut sh o, cs := .env o :: m.cs }
    | _ => { m with shapeOk := false }
  | .retE => match m.cs with
    | .env o :: r => if legalRet sh m.g.ph (.inCall o) then { m with cs := r } else { m with envOk := false }
    | _ => { m with shapeOk := false }
  | .retO => match m.cs with
    | .op :: r => { m with g := m.g.onRetO (opHeight r), cs := r }
    | _ => { m with shapeOk := false }
  | .panic => { m with panicked := true }

def monRun {α β} (sh : Shape) (evs : List (Ev α β)) : MonSt β := evs.foldl (monStep sh) {}

end Cb
