import CallbagModel.Sem
/-!
# Two subscriptions to the same operator value (C13)

In the model an operator VALUE has no state of its own: `Machine.init` is the state created inside the `Handshake` branch, once
per subscription (the one exception is `share`, whose machine keeps `sinks` and `source_talkback` across subscriptions in a single
configuration and is therefore not instantiated twice here).  Two overlapping subscriptions are two configurations of the same
machine whose steps interleave in any order whatsoever — a superset of what one program stack can produce.  Independence is then
true by the shape of the model; what carries the weight for C13 is the check that the REAL operators have this shape: the
correspondence runs two overlapping subscriptions of one operator value on the crate and compares each projection with a solo run
(`tools/extra.py`, `run_dual`).
-/
namespace Cb
variable {St Loc α β : Type}

/-- any interleaving of the steps of two subscriptions `a`, `b` of the same machine -/
inductive DReach (M : Machine St Loc α β) : Sys St Loc α β → Sys St Loc α β → Prop where
  | init : DReach M (Sys.init M) (Sys.init M)
  | stepA {a a' b} : DReach M a b → SStep M anyEnv a a' → DReach M a' b
  | stepB {a b b'} : DReach M a b → SStep M anyEnv b b' → DReach M a b'

/-- each subscription behaves exactly as if it were the only one: its configuration is one the solo machine can reach -/
theorem dual_independent (M : Machine St Loc α β) {a b : Sys St Loc α β} (h : DReach M a b) : SReach M a ∧ SReach M b := by
  induction h with
  | init => exact ⟨.init, .init⟩
  | stepA _ hs ih => exact ⟨.step ih.1 hs, ih.2⟩
  | stepB _ hs ih => exact ⟨ih.1, .step ih.2 hs⟩

/-- … whatever the other one does in the meantime: steps of `b` leave `a` untouched, and conversely every pair of solo runs is an
interleaved run -/
theorem dual_complete (M : Machine St Loc α β) {a b : Sys St Loc α β} (ha : SReach M a) (hb : SReach M b) : DReach M a b := by
  have h1 : DReach M a (Sys.init M) := by
    induction ha with
    | init => exact .init
    | step _ hs ih => exact .stepA ih hs
  induction hb with
  | init => exact h1
  | step _ hs ih => exact .stepB ih hs

/-- every property of solo runs holds of each subscription of an interleaved run -/
theorem dual_transfer (M : Machine St Loc α β) (P : Sys St Loc α β → Prop) (h : ∀ s, SReach M s → P s)
    {a b : Sys St Loc α β} (hd : DReach M a b) : P a ∧ P b :=
  ⟨h a (dual_independent M hd).1, h b (dual_independent M hd).2⟩

end Cb
