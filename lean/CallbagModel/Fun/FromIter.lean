import CallbagModel.Inv.FromIter
import CallbagModel.Inv.TraceGhost
import CallbagModel.Spec
/-!
# from_iter: the functional specification C15 holds on every trace of the model

`FInv s := FromIter.Inv s ∧ T …` at environment turns, where `T` relates the operator state (`it`, `nexts`, `gotPull`,
`resDone`, `inLoop`) and the stack to the trace.  The basic invariant is reused as a black box: an environment turn is a
fixpoint of `advance`, so the configuration reached by `FromIter.inv_step` and the one computed explicitly here coincide
(`fin_of`).
-/
namespace Cb.FromIterFun
open Cb Cb.FromIter

variable {ι α α' : Type}

/-! ## generic: `advance` -/

theorem advance_fix {St Loc α β : Type} (M : Machine St Loc α β) (s : Sys St Loc α β) (h : opStep M s = none) (n : Nat) :
    advance M n s = s := by
  cases n with
  | zero => rfl
  | succ n => simp [advance, h]

theorem advance_add {St Loc α β : Type} (M : Machine St Loc α β) (a b : Nat) (s : Sys St Loc α β) :
    advance M (a + b) s = advance M b (advance M a s) := by
  induction a generalizing s with
  | zero => simp [advance]
  | succ a ih =>
    rw [Nat.add_right_comm]
    simp only [advance]
    cases h : opStep M s with
    | none => simp [advance_fix M s h]
    | some s' => simp [ih]

/-- two environment turns reached from the same configuration by running the operator are the same configuration -/
theorem advance_confluent {St Loc α β : Type} (M : Machine St Loc α β) (s : Sys St Loc α β) (n1 n2 : Nat)
    (e1 : EnvTurn (advance M n1 s)) (e2 : EnvTurn (advance M n2 s)) : advance M n1 s = advance M n2 s := by
  have a := advance_add M n1 n2 s
  have b := advance_add M n2 n1 s
  rw [advance_of_envTurn e1] at a
  rw [advance_of_envTurn e2, Nat.add_comm] at b
  exact a.symm.trans b

/-! ## the iterator -/

theorem iter_succ (next : ι → Option (α × ι)) : ∀ (n : Nat) (it0 it : ι) (a : α) (it' : ι),
    iterAfter next n it0 = some it → next it = some (a, it') →
    iterList next (n + 1) it0 = iterList next n it0 ++ [a] ∧ iterAfter next (n + 1) it0 = some it' := by
  intro n
  induction n with
  | zero =>
    intro it0 it a it' h hn
    simp only [iterAfter, Option.some.injEq] at h
    subst h
    simp [iterList, iterAfter, hn]
  | succ n ih =>
    intro it0 it a it' h hn
    cases h0 : next it0 with
    | none => simp [iterAfter, h0] at h
    | some p =>
      obtain ⟨b, it1⟩ := p
      have h1 : iterAfter next n it1 = some it := by simpa [iterAfter, h0] using h
      obtain ⟨e1, e2⟩ := ih it1 it a it' h1 hn
      refine ⟨?_, ?_⟩
      · rw [iterList, h0]; simp only; rw [e1]; simp [iterList, h0]
      · rw [iterAfter, h0]; exact e2

theorem items_snoc {next : ι → Option (α × ι)} {it0 it it' : ι} {a : α} {D : List α}
    (h1 : D = iterList next D.length it0) (h2 : iterAfter next D.length it0 = some it) (hn : next it = some (a, it')) :
    D ++ [a] = iterList next (D ++ [a]).length it0 ∧ iterAfter next (D ++ [a]).length it0 = some it' := by
  obtain ⟨e1, e2⟩ := iter_succ next D.length it0 it a it' h2 hn
  rw [List.length_append, List.length_singleton]
  exact ⟨by rw [e1, ← h1], e2⟩

/-! ## the shape of the stack -/

/-- the only tail frame that can exist is the greeting frame, at the bottom -/
def Bot (stk : List (Frame Loc α)) : Prop := stk = [] ∨ stk = [.wait (.greet 0) .done]

/-- in the loop: exactly one delivery frame, on top -/
def Shp (il : Bool) (stk : List (Frame Loc α)) : Prop :=
  (il = false ∧ Bot stk) ∨ (il = true ∧ ∃ d l rest, stk = .wait (.down 0 d) l :: rest ∧ Bot rest)

/-! ## the trace invariant -/

structure T (next : ι → Option (α × ι)) (it0 : ι) (it : ι) (nx : Nat) (gp rd il : Bool)
    (stk : List (Frame Loc α)) (tr : List (Ev α' α)) : Prop where
  items : recvData 0 tr = iterList next (recvData 0 tr).length it0
  iter : iterAfter next (recvData 0 tr).length it0 = some it
  nexts : nx = (recvData 0 tr).length + finalsTo 0 tr
  owed : (recvData 0 tr).length + finalsTo 0 tr + (if gp = true then 1 else 0) ≤ pullsIn 0 tr
  fin : finalsTo 0 tr = if rd = true then 1 else 0
  exh : rd = true → next it = none
  nnd : noNestedDelivery 0 tr = true
  oc : openCalls tr = framesOf stk
  shp : Shp il stk

variable {next : ι → Option (α × ι)} {it0 it : ι} {nx : Nat} {gp rd il : Bool}
  {stk : List (Frame Loc α)} {tr : List (Ev α' α)}

theorem T.ctx (h : T next it0 it nx gp rd il stk tr) : (ctxOf stk).isSome := by
  rcases h.shp with ⟨_, rfl | rfl⟩ | ⟨_, d, l, rest, rfl, _⟩ <;> simp [ctxOf]

theorem T.init : T next it0 it0 0 false false false ([] : List (Frame Loc α)) ([] : List (Ev α' α)) := by
  constructor <;> simp [recvData, iterList, iterAfter, finalsTo, pullsIn, noNestedDelivery, openCalls, framesOf, Shp, Bot]

/-- A: the sink subscribes and is greeted -/
theorem T.sub (h : T next it0 it nx gp rd false ([] : List (Frame Loc α)) tr) :
    T next it0 it nx gp rd false [.wait (.greet 0) .done] (.out (.greet 0) :: .inp (.subscribe 0) :: tr) := by
  obtain ⟨h1, h2, h3, h4, h5, h6, h7, h8, h9⟩ := h
  refine ⟨by simpa [recvData] using h1, by simpa [recvData] using h2, by simpa [recvData, finalsTo] using h3,
    by simpa [recvData, finalsTo, pullsIn] using h4, by simpa [finalsTo] using h5, h6, by simpa [noNestedDelivery] using h7,
    by simp [openCalls, h8, framesOf], Or.inl ⟨rfl, Or.inr rfl⟩⟩

/-- E: a Pull that only sets `gotPull` (the loop is running further down the stack) -/
theorem T.quietPull (h : T next it0 it nx gp rd il stk tr) :
    T next it0 it nx true rd il stk (.retO :: .inp (.sinkUp 0 .pull) :: tr) := by
  obtain ⟨h1, h2, h3, h4, h5, h6, h7, h8, h9⟩ := h
  refine ⟨by simpa [recvData] using h1, by simpa [recvData] using h2, by simpa [recvData, finalsTo] using h3,
    ?_, by simpa [finalsTo] using h5, h6, by simpa [noNestedDelivery] using h7,
    by simp [openCalls, h8], h9⟩
  simp only [recvData, finalsTo, pullsIn, ↓reduceIte]
  split at h4 <;> omega

/-- D, F: the sink disposes -/
theorem T.quietEnd (u : Up) (hu : u ≠ .pull) (h : T next it0 it nx gp rd il stk tr) :
    T next it0 it nx gp rd il stk (.retO :: .inp (.sinkUp 0 u) :: tr) := by
  obtain ⟨h1, h2, h3, h4, h5, h6, h7, h8, h9⟩ := h
  cases u with
  | pull => exact absurd rfl hu
  | term =>
    exact ⟨by simpa [recvData] using h1, by simpa [recvData] using h2, by simpa [recvData, finalsTo] using h3,
      by simpa [recvData, finalsTo, pullsIn] using h4, by simpa [finalsTo] using h5, h6, by simpa [noNestedDelivery] using h7,
      by simp [openCalls, h8], h9⟩
  | err e =>
    exact ⟨by simpa [recvData] using h1, by simpa [recvData] using h2, by simpa [recvData, finalsTo] using h3,
      by simpa [recvData, finalsTo, pullsIn] using h4, by simpa [finalsTo] using h5, h6, by simpa [noNestedDelivery] using h7,
      by simp [openCalls, h8], h9⟩

/-- G: the greeting returns -/
theorem T.popTail {o : Out α} {l : Loc} (h : T next it0 it nx gp rd false (.wait o l :: stk) tr) :
    T next it0 it nx gp rd false stk (.retO :: .retE :: tr) := by
  obtain ⟨h1, h2, h3, h4, h5, h6, h7, h8, h9⟩ := h
  have hs : stk = [] := by
    rcases h9 with ⟨_, hb | hb⟩ | ⟨hc, _⟩
    · cases hb
    · simp at hb; exact hb.2
    · cases hc
  subst hs
  refine ⟨by simpa [recvData] using h1, by simpa [recvData] using h2, by simpa [recvData, finalsTo] using h3,
    by simpa [recvData, finalsTo, pullsIn] using h4, by simpa [finalsTo] using h5, h6, by simpa [noNestedDelivery] using h7,
    by simp [openCalls, h8, framesOf], Or.inl ⟨rfl, Or.inl rfl⟩⟩

/-- H, K, L, M: the loop is left -/
theorem T.exitLoop {o : Out α} {l : Loc} (h : T next it0 it nx gp rd true (.wait o l :: stk) tr) :
    T next it0 it nx gp rd false stk (.retO :: .retE :: tr) := by
  obtain ⟨h1, h2, h3, h4, h5, h6, h7, h8, h9⟩ := h
  have hs : Bot stk := by
    rcases h9 with ⟨hc, _⟩ | ⟨_, d, l', rest, he, hb⟩
    · cases hc
    · simp at he; rw [he.2]; exact hb
  refine ⟨by simpa [recvData] using h1, by simpa [recvData] using h2, by simpa [recvData, finalsTo] using h3,
    by simpa [recvData, finalsTo, pullsIn] using h4, by simpa [finalsTo] using h5, h6, by simpa [noNestedDelivery] using h7,
    by simp [openCalls, h8, framesOf], Or.inl ⟨rfl, hs⟩⟩

/-- a delivery to the sink begins while no other is in progress -/
theorem nnd_deliver {t : List (Ev α' α)} {rest : List (Frame Loc α)} (d : Down α)
    (ho : openCalls t = none :: framesOf rest) (hb : Bot rest) (hn : noNestedDelivery 0 t = true) :
    noNestedDelivery 0 (.out (.down 0 d) :: t) = true := by
  rcases hb with rfl | rfl <;> simp [noNestedDelivery, ho, hn, framesOf]

/-- C: a Pull at rest is answered with the next item -/
theorem T.pullData {a : α} {it' : ι} (h : T next it0 it nx gp false false stk tr) (hn : next it = some (a, it')) :
    T next it0 it' (nx + 1) false false true (.wait (.down 0 (.data a)) .w0 :: stk)
      (.out (.down 0 (.data a)) :: .inp (.sinkUp 0 .pull) :: tr) := by
  obtain ⟨h1, h2, h3, h4, h5, h6, h7, h8, h9⟩ := h
  have hb : Bot stk := by
    rcases h9 with ⟨_, hb⟩ | ⟨hc, _⟩
    · exact hb
    · cases hc
  obtain ⟨e1, e2⟩ := items_snoc h1 h2 hn
  refine ⟨by simpa [recvData] using e1, by simpa [recvData] using e2, ?_, ?_, by simpa [finalsTo] using h5,
    (by simp), ?_, by simp [openCalls, h8, framesOf], Or.inr ⟨rfl, _, _, _, rfl, hb⟩⟩
  · simp only [recvData, finalsTo, ↓reduceIte, List.length_append, List.length_singleton]; omega
  · simp only [recvData, finalsTo, pullsIn, ↓reduceIte, List.length_append, List.length_singleton]
    simp only [Bool.false_eq_true, ↓reduceIte]
    split at h4 <;> omega
  · exact nnd_deliver _ (by simp [openCalls, h8]) hb (by simpa [noNestedDelivery] using h7)

/-- B: a Pull at rest finds the iterator exhausted -/
theorem T.pullEnd (h : T next it0 it nx gp false false stk tr) (hn : next it = none) :
    T next it0 it (nx + 1) false true true (.wait (.down 0 .term) .lend :: stk)
      (.out (.down 0 .term) :: .inp (.sinkUp 0 .pull) :: tr) := by
  obtain ⟨h1, h2, h3, h4, h5, h6, h7, h8, h9⟩ := h
  have hb : Bot stk := by
    rcases h9 with ⟨_, hb⟩ | ⟨hc, _⟩
    · exact hb
    · cases hc
  simp only [Bool.false_eq_true, ↓reduceIte] at h5
  refine ⟨by simpa [recvData] using h1, by simpa [recvData] using h2, ?_, ?_, by simp [finalsTo, h5],
    fun _ => hn, ?_, by simp [openCalls, h8, framesOf], Or.inr ⟨rfl, _, _, _, rfl, hb⟩⟩
  · simp only [recvData, finalsTo, ↓reduceIte]; omega
  · simp only [recvData, finalsTo, pullsIn, ↓reduceIte]
    simp only [Bool.false_eq_true, ↓reduceIte]
    split at h4 <;> omega
  · exact nnd_deliver _ (by simp [openCalls, h8]) hb (by simpa [noNestedDelivery] using h7)

/-- J: the delivery returns, a Pull is owed, the next item is delivered -/
theorem T.retData {o : Out α} {l : Loc} {a : α} {it' : ι} (h : T next it0 it nx true false true (.wait o l :: stk) tr)
    (hn : next it = some (a, it')) :
    T next it0 it' (nx + 1) false false true (.wait (.down 0 (.data a)) .w0 :: stk)
      (.out (.down 0 (.data a)) :: .retE :: tr) := by
  obtain ⟨h1, h2, h3, h4, h5, h6, h7, h8, h9⟩ := h
  have hb : Bot stk := by
    rcases h9 with ⟨hc, _⟩ | ⟨_, d, l', rest, he, hb⟩
    · cases hc
    · simp at he; rw [he.2]; exact hb
  obtain ⟨e1, e2⟩ := items_snoc h1 h2 hn
  refine ⟨by simpa [recvData] using e1, by simpa [recvData] using e2, ?_, ?_, by simpa [finalsTo] using h5,
    (by simp), ?_, by simp [openCalls, h8, framesOf], Or.inr ⟨rfl, _, _, _, rfl, hb⟩⟩
  · simp only [recvData, finalsTo, ↓reduceIte, List.length_append, List.length_singleton]; omega
  · simp only [recvData, finalsTo, pullsIn, ↓reduceIte, List.length_append, List.length_singleton]
    simp only [Bool.false_eq_true, ↓reduceIte]
    simp only [↓reduceIte] at h4
    omega
  · exact nnd_deliver _ (by simp [openCalls, h8, framesOf]) hb (by simpa [noNestedDelivery] using h7)

/-- I: the delivery returns, a Pull is owed, the iterator is exhausted -/
theorem T.retEnd {o : Out α} {l : Loc} (h : T next it0 it nx true false true (.wait o l :: stk) tr) (hn : next it = none) :
    T next it0 it (nx + 1) false true true (.wait (.down 0 .term) .lend :: stk)
      (.out (.down 0 .term) :: .retE :: tr) := by
  obtain ⟨h1, h2, h3, h4, h5, h6, h7, h8, h9⟩ := h
  have hb : Bot stk := by
    rcases h9 with ⟨hc, _⟩ | ⟨_, d, l', rest, he, hb⟩
    · cases hc
    · simp at he; rw [he.2]; exact hb
  simp only [Bool.false_eq_true, ↓reduceIte] at h5
  refine ⟨by simpa [recvData] using h1, by simpa [recvData] using h2, ?_, ?_, by simp [finalsTo, h5],
    fun _ => hn, ?_, by simp [openCalls, h8, framesOf], Or.inr ⟨rfl, _, _, _, rfl, hb⟩⟩
  · simp only [recvData, finalsTo, ↓reduceIte]; omega
  · simp only [recvData, finalsTo, pullsIn, ↓reduceIte]
    simp only [Bool.false_eq_true, ↓reduceIte]
    simp only [↓reduceIte] at h4
    omega
  · exact nnd_deliver _ (by simp [openCalls, h8, framesOf]) hb (by simpa [noNestedDelivery] using h7)

/-! ## the invariant -/

def FInv (next : ι → Option (α × ι)) (it0 : ι) (s : Sys (St ι α) Loc α' α) : Prop :=
  FromIter.Inv s ∧ T next it0 s.st.it s.st.nexts s.st.gotPull s.st.resDone s.st.inLoop s.stack s.tr

theorem finv_init : FInv next it0 (Sys.init (machine α' next it0)) :=
  ⟨FromIter.inv_init next it0, T.init⟩

theorem finv_turn (s : Sys (St ι α) Loc α' α) (h : FInv next it0 s) : EnvTurn s := (FromIter.inv_turn s h.1).1

/-- the basic invariant of the configuration the operator runs into, plus the explicit description of that configuration -/
theorem fin_of {s' : Sys (St ι α) Loc α' α} (hb : ∃ n, FromIter.Inv (advance (machine α' next it0) n s')) (n : Nat)
    {it : ι} {nx : Nat} {gp rd il : Bool} {stk : List (Frame Loc α)} {tr : List (Ev α' α)}
    (hT : T next it0 it nx gp rd il stk tr)
    (hrun : (advance (machine α' next it0) n s').st.it = it ∧ (advance (machine α' next it0) n s').st.nexts = nx ∧
      (advance (machine α' next it0) n s').st.gotPull = gp ∧ (advance (machine α' next it0) n s').st.resDone = rd ∧
      (advance (machine α' next it0) n s').st.inLoop = il ∧ (advance (machine α' next it0) n s').stack = stk ∧
      (advance (machine α' next it0) n s').tr = tr ∧ (advance (machine α' next it0) n s').panicked = none) :
    ∃ n, FInv next it0 (advance (machine α' next it0) n s') := by
  obtain ⟨n1, h1⟩ := hb
  obtain ⟨r1, r2, r3, r4, r5, r6, r7, r8⟩ := hrun
  have e1 : EnvTurn (advance (machine α' next it0) n1 s') := (FromIter.inv_turn _ h1).1
  have e2 : EnvTurn (advance (machine α' next it0) n s') := ⟨r8, by rw [r6]; exact hT.ctx⟩
  rw [advance_confluent _ _ _ _ e1 e2] at h1
  refine ⟨n, h1, ?_⟩
  rw [r1, r2, r3, r4, r5, r6, r7]
  exact hT

macro "run" : tactic => `(tactic| simp [advance, opStep, machine, enter, step, *])

theorem finv_step (next : ι → Option (α × ι)) (it0 : ι) (s s' : Sys (St ι α) Loc α' α) (m : Move α') (h : FInv next it0 s)
    (hs : EnvStep (machine α' next it0) m s s') : ∃ n, FInv next it0 (advance (machine α' next it0) n s') := by
  obtain ⟨hI, hT⟩ := h
  have hb := FromIter.inv_step next it0 s s' m hI hs
  obtain ⟨hp, hv, hsrc, hoths, hm⟩ := hI
  cases hs with
  | @call st stk g tr c i hc hl =>
    simp only at hp hv hsrc hoths hm hT
    cases i with
    | subscribe k =>
      simp only [legalIn, Bool.and_eq_true, beq_iff_eq, machine, Bool.or_false] at hl
      obtain ⟨⟨hc', hidle⟩, rfl⟩ := hl
      cases hm with
      | idle h1 h2 h3 h4 h5 h6 h7 =>
        subst h2
        rw [h3] at hT
        exact fin_of hb 1 hT.sub (by run)
      | _ => simp_all
    | sinkUp k u =>
      simp only [legalIn, Bool.and_eq_true, beq_iff_eq, Bool.or_eq_true] at hl
      obtain ⟨hlive, hctx⟩ := hl
      have hk : k = 0 := by
        by_cases hk : k = 0
        · exact hk
        · rw [hoths k hk] at hlive; cases hlive
      subst hk
      cases hm with
      | live0 h1 h2 h3 h4 h5 h6 =>
        rw [h3, h5] at hT
        cases u with
        | pull =>
          cases hn : next st.it with
          | none => exact fin_of hb 10 (hT.pullEnd hn) (by run)
          | some p =>
            obtain ⟨a, it'⟩ := p
            exact fin_of hb 10 (hT.pullData hn) (by run)
        | term => exact fin_of hb 3 (hT.quietEnd .term (by simp)) (by run)
        | err e => exact fin_of hb 3 (hT.quietEnd (.err e) (by simp)) (by run)
      | live1 h1 h2 h3 h4 h5 h6 =>
        cases u with
        | pull => exact fin_of hb 3 hT.quietPull (by run)
        | term => exact fin_of hb 3 (hT.quietEnd .term (by simp)) (by run)
        | err e => exact fin_of hb 3 (hT.quietEnd (.err e) (by simp)) (by run)
      | _ => simp_all
    | srcGreet i =>
      simp only [legalIn, Bool.and_eq_true, beq_iff_eq, Bool.or_eq_true] at hl
      simp [hsrc i] at hl
    | srcDown i d =>
      simp only [legalIn, Bool.and_eq_true, beq_iff_eq, Bool.or_eq_true] at hl
      simp [hsrc i] at hl
  | @ret st stk g tr o l hl =>
    simp only at hp hv hsrc hoths hm hT
    have resume_tail : st.inLoop = false → Tail (Frame.wait o l :: stk) →
        ∃ n, FInv next it0 (advance (machine α' next it0) n ⟨st, .run l :: stk, g, .retE :: tr, none⟩) := by
      intro hil ht
      obtain ⟨o', he⟩ := ht _ List.mem_cons_self
      simp at he; obtain ⟨rfl, rfl⟩ := he
      rw [hil] at hT
      exact fin_of hb 1 hT.popTail (by run)
    cases hm with
    | idle _ h => simp at h
    | live0 h1 h2 h3 h4 h5 h6 => exact resume_tail h5 h6
    | self0 h1 h2 h3 h4 h6 => exact resume_tail h4 h6
    | src0 h1 h2 h3 h4 h6 => exact resume_tail h4 h6
    | live1 h1 h2 h3 h4 h5 h6 =>
      obtain ⟨a, rest, he, hrest⟩ := h6
      simp at he; obtain ⟨⟨rfl, rfl⟩, rfl⟩ := he
      rw [h3, h5] at hT
      cases hgp : st.gotPull with
      | false => exact fin_of hb 3 hT.exitLoop (by run)
      | true =>
        rw [hgp] at hT
        cases hn : next st.it with
        | none => exact fin_of hb 5 (hT.retEnd hn) (by run)
        | some p =>
          obtain ⟨b, it'⟩ := p
          exact fin_of hb 5 (hT.retData hn) (by run)
    | self1 h1 h2 h3 h4 h6 =>
      obtain ⟨a, rest, he, hrest⟩ := h6
      simp at he; obtain ⟨⟨rfl, rfl⟩, rfl⟩ := he
      rw [h4] at hT
      cases hgp : st.gotPull with
      | false => exact fin_of hb 3 hT.exitLoop (by run)
      | true => exact fin_of hb 4 hT.exitLoop (by run)
    | src1 h1 h2 h3 h4 h6 =>
      obtain ⟨rest, he, hrest⟩ := h6
      simp at he; obtain ⟨⟨rfl, rfl⟩, rfl⟩ := he
      rw [h4] at hT
      exact fin_of hb 2 hT.exitLoop (by run)

/-- every reachable environment turn satisfies the invariant -/
theorem finv_of_reach (next : ι → Option (α × ι)) (it0 : ι) (s : Sys (St ι α) Loc α' α)
    (hs : SReach (machine α' next it0) s) (ht : EnvTurn s) : FInv next it0 s := by
  obtain ⟨n, hn⟩ := reach_runs_into_inv (machine α' next it0) anyEnv (FInv next it0) finv_init finv_turn
    (fun s s' m h he _ => finv_step next it0 s s' m h he) s hs
  rwa [advance_of_envTurn ht] at hn

/-- **C15** (model side): at every reachable configuration where the environment has control, the trace satisfies the
specification of `from_iter`, and the iterator has been advanced exactly once per answer given, never without a Pull; the
operator's part of the stack does not grow with the number of items. -/
theorem fromIter_spec {ι α α' : Type} [DecidableEq α] (next : ι → Option (α × ι)) (it0 : ι) :
    ∀ s, SReach (FromIter.machine α' next it0) s → EnvTurn s →
      fromIterOk next it0 s.tr = true
      ∧ s.st.nexts = (recvData 0 s.tr).length + finalsTo 0 s.tr      -- the iterator is advanced once per item delivered, plus once to discover exhaustion
      ∧ s.st.nexts ≤ pullsIn 0 s.tr                                   -- … and never without a Pull
      ∧ s.stack.length ≤ 2                                            -- the operator's part of the stack does not grow with the number of items
      := by
  intro s hs ht
  obtain ⟨_, h1, h2, h3, h4, h5, h6, h7, h8, h9⟩ := finv_of_reach next it0 s hs ht
  have hF : finalsTo 0 s.tr ≤ 1 := by rw [h5]; split <;> simp
  have howed : (recvData 0 s.tr).length + finalsTo 0 s.tr ≤ pullsIn 0 s.tr := by omega
  have hdepth : deliveryDepth 0 s.tr ≤ 1 := by
    unfold deliveryDepth
    rw [h8]
    rcases h9 with ⟨_, hb | hb⟩ | ⟨_, d, l, rest, he, hb | hb⟩ <;> simp [framesOf, *]
  have hlen : s.stack.length ≤ 2 := by
    rcases h9 with ⟨_, hb | hb⟩ | ⟨_, d, l, rest, he, hb | hb⟩ <;> simp [*]
  have hexh : (if finalsTo 0 s.tr = 1 then
        (match iterAfter next (recvData 0 s.tr).length it0 with | some it => (next it).isNone | none => false)
      else true) = true := by
    rw [h2]
    split
    · rename_i hf
      have hrd : s.st.resDone = true := by
        rw [h5] at hf
        split at hf
        · assumption
        · cases hf
      simp [h6 hrd]
    · rfl
  refine ⟨?_, h3, by omega, hlen⟩
  unfold fromIterOk
  simp only [Bool.and_eq_true, decide_eq_true_eq, beq_iff_eq]
  exact ⟨⟨⟨⟨⟨h1, howed⟩, h7⟩, hdepth⟩, hF⟩, hexh⟩

end Cb.FromIterFun

#print axioms Cb.FromIterFun.fromIter_spec
