import CallbagModel.Inv.Take
import CallbagModel.Inv.TraceGhost
import CallbagModel.Spec
/-!
# take(max): the functional specification `takeOk` (C07) holds on every trace of the model

`FInv s := Take.Inv max s ∧ T max s.st.taken s.stack s.tr`.  The phase-level invariant is reused as a black box (`finv_of`: an
environment turn is a fixpoint of `advance`, so the configuration that `Take.inv_step` reaches and the one computed here with
the exact step count coincide).  `T` links the counter to the trace (`taken = min max (number of data received)`) and carries
the first four clauses of `takeOk`; for `takeSelfCompletion`, which looks two events ahead, it also remembers that a
`Terminate` sent upstream that is the newest event either relays the sink's `Terminate` or is take's own, in which case the
stack top is the continuation `d6` that completes the sink next.  The last clause is read off the basic `Mode` through the
lemmas of `TraceGhost.lean`.
-/
namespace Cb.TakeFun
open Cb Cb.Take

variable {α β : Type}

local notation "ST" => Ev.out (Out.srcUp 0 Up.term)

/-! ## trace lemmas -/

/-- events that carry neither a message from upstream nor a message to the sink -/
def neutral : Ev α β → Bool
  | .inp (.srcDown _ _) => false
  | .out (.down _ _) => false
  | _ => true

theorem sentData_neutral (e : Ev α β) (he : neutral e = true) (t : List (Ev α β)) : sentData 0 (e :: t) = sentData 0 t := by
  cases e with
  | inp i => cases i <;> simp_all [neutral, sentData]
  | out o => cases o <;> simp_all [neutral, sentData]
  | _ => simp [sentData]

theorem recvData_neutral (e : Ev α β) (he : neutral e = true) (t : List (Ev α β)) : recvData 0 (e :: t) = recvData 0 t := by
  cases e with
  | inp i => cases i <;> simp_all [neutral, recvData]
  | out o => cases o <;> simp_all [neutral, recvData]
  | _ => simp [recvData]

theorem isDataOut_neutral (e : Ev α β) (he : neutral e = true) : isDataOut 0 e = false := by
  cases e with
  | inp i => cases i <;> simp_all [neutral, isDataOut]
  | out o => cases o <;> simp_all [neutral, isDataOut]
  | _ => simp [isDataOut]

theorem isFinalOut_neutral (e : Ev α β) (he : neutral e = true) : isFinalOut 0 e = false := by
  cases e with
  | inp i => cases i <;> simp_all [neutral, isFinalOut]
  | out o => cases o <;> simp_all [neutral, isFinalOut]
  | _ => simp [isFinalOut]

/-- two events are consed on: the older one is not selected, the newer one is related to it if selected -/
theorem epb_cons2 {p : Ev α β → Bool} {q : Ev α β → Ev α β → Bool} (a b : Ev α β) (tr : List (Ev α β))
    (hpa : p a = false) (hb : p b = true → q a b = true) (h : eachPrecededBy p q tr = true) :
    eachPrecededBy p q (b :: a :: tr) = true := by
  have h1 : eachPrecededBy p q (a :: tr) = true := by
    cases tr with
    | nil => simp [eachPrecededBy, hpa]
    | cons e1 t => simp [eachPrecededBy, hpa, h]
  cases hpb : p b with
  | false => simp [eachPrecededBy, hpb, h1]
  | true => simp [eachPrecededBy, hpb, h1, hb hpb]

/-- `takeSelfCompletion` inspects the third event of a window; if that is not a `Terminate` sent upstream nothing is checked -/
theorem tsc_cons (max : Nat) (e : Ev α β) (l : List (Ev α β)) (h : ∀ x1 x2 t, l = x1 :: x2 :: t → x2 ≠ ST) :
    takeSelfCompletion max (e :: l) = takeSelfCompletion max l := by
  match l, h with
  | [], _ => simp [takeSelfCompletion]
  | [_], _ => simp [takeSelfCompletion]
  | [_, _], _ => simp [takeSelfCompletion]
  | x1 :: x2 :: x3 :: t, h =>
    have hne := h x1 x2 _ rfl
    rw [takeSelfCompletion]
    · simp
    all_goals (intro hx; exact absurd hx hne)

theorem tsc_sink (max : Nat) (e3 e2 : Ev α β) (t : List (Ev α β)) :
    takeSelfCompletion max (e3 :: e2 :: ST :: .inp (.sinkUp 0 .term) :: t)
      = takeSelfCompletion max (e2 :: ST :: .inp (.sinkUp 0 .term) :: t) := by
  rw [takeSelfCompletion]; simp

theorem tsc_self (max : Nat) (t : List (Ev α β)) (hlen : (recvData 0 (.retE :: t)).length = max) :
    takeSelfCompletion max (.out (.down 0 .term) :: .retE :: ST :: .retE :: t)
      = takeSelfCompletion max (.retE :: ST :: .retE :: t) := by
  rw [takeSelfCompletion]; simp [hlen]

/-- the step lemma for `takeSelfCompletion`: two events `a` (older), `b` are consed on -/
theorem tsc_cons2 {max : Nat} {tr : List (Ev α β)} (a b : Ev α β)
    (h : takeSelfCompletion max tr = true)
    (h2 : ∀ x1 x2 t, tr = x1 :: x2 :: t → x2 ≠ ST)
    (hH : ∀ x2 t, tr = ST :: x2 :: t → x2 = .inp (.sinkUp 0 .term) ∨
      (x2 = .retE ∧ (recvData 0 (x2 :: t)).length = max ∧ a = .retE ∧ b = .out (.down 0 .term))) :
    takeSelfCompletion max (b :: a :: tr) = true := by
  have h1 : takeSelfCompletion max (a :: tr) = true := by rw [tsc_cons max a tr h2]; exact h
  match tr, h1, hH with
  | [], _, _ => simp [takeSelfCompletion]
  | [_], _, _ => simp [takeSelfCompletion]
  | x1 :: x2 :: t, h1, hH =>
    by_cases hx : x1 = ST
    · subst hx
      rcases hH x2 t rfl with rfl | ⟨rfl, hlen, rfl, rfl⟩
      · rw [tsc_sink]; exact h1
      · rw [tsc_self max t hlen]; exact h1
    · rw [tsc_cons max b _ (by intro y1 y2 t' he; simp at he; rw [← he.2.1]; exact hx)]; exact h1

/-! ## the trace part of the invariant -/

/-- what is known about the trace, the counter and the stack at every environment turn -/
structure T (max taken : Nat) (stk : List (Frame (Loc α) α)) (tr : List (Ev α α)) : Prop where
  cnt : taken = min max (sentData 0 tr).length
  io : recvData 0 tr = (sentData 0 tr).take max
  c2 : eachPrecededBy (isDataOut 0) (fun e1 _ => isDataIn 0 e1) tr = true
  c3 : eachPrecededBy (isFinalOut 0) takeFinalCause tr = true
  c4 : takeSelfCompletion max tr = true
  h2 : ∀ x1 x2 t, tr = x1 :: x2 :: t → x2 ≠ ST
  h1 : ∀ x2 t, tr = ST :: x2 :: t → x2 = .inp (.sinkUp 0 .term) ∨
        (x2 = .retE ∧ (recvData 0 (x2 :: t)).length = max ∧ ∃ rest, stk = .wait (.srcUp 0 .term) .d6 :: rest)

theorem T.init (max : Nat) : T max 0 ([] : List (Frame (Loc α) α)) ([] : List (Ev α α)) where
  cnt := by simp [sentData]
  io := by simp [sentData, recvData]
  c2 := by simp [eachPrecededBy]
  c3 := by simp [eachPrecededBy]
  c4 := by simp [takeSelfCompletion]
  h2 := by intro _ _ _ h; cases h
  h1 := by intro _ _ h; cases h

theorem T.recvLen {max taken : Nat} {stk : List (Frame (Loc α) α)} {tr : List (Ev α α)} (h : T max taken stk tr) :
    (recvData 0 tr).length = taken := by
  rw [h.io, h.cnt, List.length_take]

/-- the general step: two events `a` (older), `b` are consed on -/
theorem T.step {max taken : Nat} {stk : List (Frame (Loc α) α)} {tr : List (Ev α α)} (h : T max taken stk tr)
    (a b : Ev α α) (taken' : Nat) (stk' : List (Frame (Loc α) α))
    (hcnt : taken' = min max (sentData 0 (b :: a :: tr)).length)
    (hio : recvData 0 (b :: a :: tr) = (sentData 0 (b :: a :: tr)).take max)
    (h2a : isDataOut 0 a = false) (h2b : isDataOut 0 b = true → isDataIn 0 a = true)
    (h3a : isFinalOut 0 a = false) (h3b : isFinalOut 0 b = true → takeFinalCause a b = true)
    (ha : a ≠ ST)
    (hH : ∀ x2 t, tr = ST :: x2 :: t → x2 = .inp (.sinkUp 0 .term) ∨
      (x2 = .retE ∧ (recvData 0 (x2 :: t)).length = max ∧ a = .retE ∧ b = .out (.down 0 .term)))
    (hb : b = ST → a = .inp (.sinkUp 0 .term) ∨
      (a = .retE ∧ (recvData 0 (a :: tr)).length = max ∧ ∃ rest, stk' = .wait (.srcUp 0 .term) .d6 :: rest)) :
    T max taken' stk' (b :: a :: tr) where
  cnt := hcnt
  io := hio
  c2 := epb_cons2 a b tr h2a h2b h.c2
  c3 := epb_cons2 a b tr h3a h3b h.c3
  c4 := tsc_cons2 a b h.c4 h.h2 hH
  h2 := by intro x1 x2 t he; simp at he; rw [← he.2.1]; exact ha
  h1 := by intro x2 t he; simp at he; obtain ⟨rfl, rfl, rfl⟩ := he; exact hb rfl

/-- the stack top is not take's own completion in progress -/
def Quiet (stk : List (Frame (Loc α) α)) : Prop := ∀ rest, stk ≠ .wait (.srcUp 0 .term) .d6 :: rest

theorem T.quiet {max taken : Nat} {stk : List (Frame (Loc α) α)} {tr : List (Ev α α)} (h : T max taken stk tr)
    (hq : Quiet stk) (a b : Ev α α) : ∀ x2 t, tr = ST :: x2 :: t → x2 = .inp (.sinkUp 0 .term) ∨
      (x2 = .retE ∧ (recvData 0 (x2 :: t)).length = max ∧ a = .retE ∧ b = .out (.down 0 .term)) := by
  intro x2 t he
  rcases h.h1 x2 t he with h' | ⟨_, _, rest, hr⟩
  · exact Or.inl h'
  · exact absurd hr (hq rest)

/-- L1: two events that carry no message from upstream or to the sink, the newer not a `Terminate` sent upstream -/
theorem T.neutral2 {max taken : Nat} {stk : List (Frame (Loc α) α)} {tr : List (Ev α α)} (h : T max taken stk tr)
    (hq : Quiet stk) (a b : Ev α α) (stk' : List (Frame (Loc α) α))
    (hna : neutral a = true) (hnb : neutral b = true) (ha : a ≠ ST) (hb : b ≠ ST) :
    T max taken stk' (b :: a :: tr) :=
  h.step a b taken stk'
    (by rw [sentData_neutral b hnb, sentData_neutral a hna]; exact h.cnt)
    (by rw [sentData_neutral b hnb, sentData_neutral a hna, recvData_neutral b hnb, recvData_neutral a hna]; exact h.io)
    (isDataOut_neutral a hna) (by simp [isDataOut_neutral b hnb])
    (isFinalOut_neutral a hna) (by simp [isFinalOut_neutral b hnb])
    ha (h.quiet hq a b) (fun e => absurd e hb)

/-- L2: the sink's `Terminate` is relayed upstream -/
theorem T.sinkTerm {max taken : Nat} {stk : List (Frame (Loc α) α)} {tr : List (Ev α α)} (h : T max taken stk tr)
    (hq : Quiet stk) (stk' : List (Frame (Loc α) α)) :
    T max taken stk' (ST :: .inp (.sinkUp 0 .term) :: tr) :=
  h.step _ _ taken stk'
    (by simpa [sentData] using h.cnt) (by simpa [sentData, recvData] using h.io)
    (by simp [isDataOut]) (by simp [isDataOut]) (by simp [isFinalOut]) (by simp [isFinalOut])
    (by simp) (h.quiet hq _ _) (fun _ => Or.inl rfl)

/-- L3: a datum arrives while `taken < max` and is delivered inside that delivery -/
theorem T.dataTake {max taken : Nat} {stk : List (Frame (Loc α) α)} {tr : List (Ev α α)} (h : T max taken stk tr)
    (hq : Quiet stk) (hlt : taken < max) (x : α) (stk' : List (Frame (Loc α) α)) :
    T max (taken + 1) stk' (.out (.down 0 (.data x)) :: .inp (.srcDown 0 (.data x)) :: tr) := by
  have hc := h.cnt
  have hlen : (sentData 0 tr).length < max := by omega
  refine h.step _ _ (taken + 1) stk' ?_ ?_
    (by simp [isDataOut]) (by simp [isDataIn]) (by simp [isFinalOut]) (by simp [isFinalOut])
    (by simp) (h.quiet hq _ _) (fun e => by simp at e)
  · simp [sentData]; omega
  · simp only [sentData, recvData, ↓reduceIte]
    rw [h.io, List.take_of_length_le (by omega), List.take_of_length_le (by simp; omega)]

/-- L4: a datum arrives when `max` have been taken and is dropped -/
theorem T.dataDrop {max taken : Nat} {stk : List (Frame (Loc α) α)} {tr : List (Ev α α)} (h : T max taken stk tr)
    (hq : Quiet stk) (hge : ¬ taken < max) (x : α) (stk' : List (Frame (Loc α) α)) :
    T max taken stk' (.retO :: .inp (.srcDown 0 (.data x)) :: tr) := by
  have hc := h.cnt
  have hlen : max ≤ (sentData 0 tr).length := by omega
  refine h.step _ _ taken stk' ?_ ?_
    (by simp [isDataOut]) (by simp [isDataOut]) (by simp [isFinalOut]) (by simp [isFinalOut])
    (by simp) (h.quiet hq _ _) (fun e => by simp at e)
  · simp [sentData]; omega
  · simp only [sentData, recvData, ↓reduceIte]
    rw [h.io, List.take_append_of_le_length hlen]

/-- L5: upstream completes, the sink is completed inside that delivery -/
theorem T.fwdTerm {max taken : Nat} {stk : List (Frame (Loc α) α)} {tr : List (Ev α α)} (h : T max taken stk tr)
    (hq : Quiet stk) (stk' : List (Frame (Loc α) α)) :
    T max taken stk' (.out (.down 0 .term) :: .inp (.srcDown 0 .term) :: tr) :=
  h.step _ _ taken stk'
    (by simpa [sentData] using h.cnt) (by simpa [sentData, recvData] using h.io)
    (by simp [isDataOut]) (by simp [isDataOut]) (by simp [isFinalOut]) (by simp [takeFinalCause, finalPasses])
    (by simp) (h.quiet hq _ _) (fun e => by simp at e)

theorem T.fwdErr {max taken : Nat} {stk : List (Frame (Loc α) α)} {tr : List (Ev α α)} (h : T max taken stk tr)
    (hq : Quiet stk) (e : Nat) (stk' : List (Frame (Loc α) α)) :
    T max taken stk' (.out (.down 0 (.err e)) :: .inp (.srcDown 0 (.err e)) :: tr) :=
  h.step _ _ taken stk'
    (by simpa [sentData] using h.cnt) (by simpa [sentData, recvData] using h.io)
    (by simp [isDataOut]) (by simp [isDataOut]) (by simp [isFinalOut]) (by simp [takeFinalCause, finalPasses])
    (by simp) (h.quiet hq _ _) (fun e => by simp at e)

/-- L6: the delivery of the `max`-th datum returns: take tells upstream to stop -/
theorem T.selfTerm {max taken : Nat} {stk : List (Frame (Loc α) α)} {tr : List (Ev α α)} (h : T max taken stk tr)
    (hq : Quiet stk) (htk : taken = max) (rest : List (Frame (Loc α) α)) :
    T max taken (.wait (.srcUp 0 .term) .d6 :: rest) (ST :: .retE :: tr) :=
  h.step _ _ taken _
    (by simpa [sentData] using h.cnt) (by simpa [sentData, recvData] using h.io)
    (by simp [isDataOut]) (by simp [isDataOut]) (by simp [isFinalOut]) (by simp [isFinalOut])
    (by simp) (h.quiet hq _ _)
    (fun _ => Or.inr ⟨rfl, by rw [recvData_neutral _ rfl, h.recvLen, htk], rest, rfl⟩)

/-- L7: upstream has returned from that `Terminate`: take completes the sink -/
theorem T.selfDone {max taken : Nat} {stk : List (Frame (Loc α) α)} {tr : List (Ev α α)} (h : T max taken stk tr)
    (stk' : List (Frame (Loc α) α)) :
    T max taken stk' (.out (.down 0 .term) :: .retE :: tr) :=
  h.step _ _ taken stk'
    (by simpa [sentData] using h.cnt) (by simpa [sentData, recvData] using h.io)
    (by simp [isDataOut]) (by simp [isDataOut]) (by simp [isFinalOut]) (by simp [takeFinalCause])
    (by simp)
    (fun x2 t he => by
      rcases h.h1 x2 t he with h' | ⟨h1, h2, _⟩
      · exact Or.inl h'
      · exact Or.inr ⟨h1, h2, rfl, rfl⟩)
    (fun e => by simp at e)

/-! ## combining with the basic invariant: environment turns are fixpoints of `advance` -/

theorem advance_fix {St Loc α β : Type} (M : Machine St Loc α β) (s : Sys St Loc α β) (h : opStep M s = none) (n : Nat) :
    advance M n s = s := by
  cases n with
  | zero => rfl
  | succ n => simp [advance, h]

theorem advance_add {St Loc α β : Type} (M : Machine St Loc α β) (a b : Nat) (s : Sys St Loc α β) :
    advance M (a + b) s = advance M b (advance M a s) := by
  induction a generalizing s with
  | zero => simp [advance]
  | succ a ih =>
    rw [Nat.add_right_comm]
    simp only [advance]
    cases h : opStep M s with
    | none => simp [advance_fix M s h]
    | some s' => simp [ih]

def FInv (max : Nat) (s : Sys St (Loc α) α α) : Prop :=
  Take.Inv max s ∧ T max s.st.taken s.stack s.tr

theorem finv_of (max : Nat) {s' : Sys St (Loc α) α α}
    (hb : ∃ n, Take.Inv max (advance (machine α max) n s')) (n2 : Nat)
    (ht : EnvTurn (advance (machine α max) n2 s'))
    (hT : T max (advance (machine α max) n2 s').st.taken (advance (machine α max) n2 s').stack (advance (machine α max) n2 s').tr) :
    ∃ n, FInv max (advance (machine α max) n s') := by
  obtain ⟨n1, h1⟩ := hb
  have e1 := (Take.inv_turn max _ h1).1
  have heq : advance (machine α max) n1 s' = advance (machine α max) n2 s' := by
    have a := advance_add (machine α max) n1 n2 s'
    have b := advance_add (machine α max) n2 n1 s'
    rw [advance_of_envTurn e1] at a
    rw [advance_of_envTurn ht, Nat.add_comm] at b
    exact a.symm.trans b
  refine ⟨n2, ?_, hT⟩
  rw [← heq]; exact h1

theorem finv_init (max : Nat) : FInv max (Sys.init (machine α max)) :=
  ⟨Take.inv_init max, by simpa [Sys.init, machine] using T.init max⟩

theorem quiet_of_benign {taken : Nat} {stk : List (Frame (Loc α) α)} (h : ∀ f ∈ stk, Benign taken f) : Quiet stk := by
  intro rest he
  have := h _ (by rw [he]; exact List.mem_cons_self)
  simp [Benign] at this

macro "run" : tactic =>
  `(tactic| simp [advance, opStep, machine, enter, step, EnvTurn, ctxOf, *])

theorem finv_step (max : Nat) (s s' : Sys St (Loc α) α α) (m : Move α) (h : FInv max s)
    (hs : EnvStep (machine α max) m s s') : ∃ n, FInv max (advance (machine α max) n s') := by
  obtain ⟨hinv, hT⟩ := h
  have hb := Take.inv_step max s s' m hinv hs
  obtain ⟨hp, hbs, hle, hoth, hoths, hm⟩ := hinv
  cases hs with
  | @call st stk g tr c i hc hl =>
    simp only at hp hbs hle hoth hoths hm hT
    cases i with
    | subscribe k =>
      have hidle := legal_subscribe hl
      have hq : Quiet stk := by
        cases hm with
        | m1 _ _ h => subst h; intro rest he; cases he
        | m2 _ _ _ _ _ h => subst h; intro rest he; simp at he
        | m3 _ _ _ _ _ h => exact quiet_of_benign h
        | m4 _ _ _ h => exact quiet_of_benign h
        | m5 _ _ _ h => exact quiet_of_benign h
        | m6 h1 _ _ _ _ =>
          simp only [legalIn, Bool.and_eq_true, beq_iff_eq, machine, Bool.or_false] at hl
          obtain ⟨⟨_, hi⟩, rfl⟩ := hl
          rw [h1] at hi; cases hi
        | m7 _ _ _ h => exact quiet_of_benign h
      have := hT.neutral2 hq (.inp (.subscribe k)) (.out (.subSrc 0)) (.wait (.subSrc 0) .done :: stk) rfl rfl (by simp) (by simp)
      exact finv_of max hb 1 (by run) (by run)
    | sinkUp k u =>
      simp only [legalIn, Bool.and_eq_true, beq_iff_eq, Bool.or_eq_true] at hl
      obtain ⟨hlive, hctx⟩ := hl
      have hk : k = 0 := by
        by_cases hk : k = 0
        · exact hk
        · rw [hoths k hk] at hlive; cases hlive
      subst hk
      cases hm with
      | m3 h1 h2 h3 h4 h5 h6 =>
        have hq := quiet_of_benign h6
        have hctx' := ctx_isSome_of_benign h6
        cases u with
        | pull =>
          by_cases hlt : st.taken < max
          · have := hT.neutral2 hq (.inp (.sinkUp 0 .pull)) (.out (.srcUp 0 .pull)) (.wait (.srcUp 0 .pull) .done :: stk)
              rfl rfl (by simp) (by simp)
            exact finv_of max hb 2 (by run) (by run)
          · have := hT.neutral2 hq (.inp (.sinkUp 0 .pull)) .retO stk rfl rfl (by simp) (by simp)
            exact finv_of max hb 1 (by simp [advance, opStep, machine, enter, step, EnvTurn, hlt, hctx'])
              (by simp [advance, opStep, machine, enter, step, hlt, this])
        | term =>
          have := hT.sinkTerm hq (.wait (.srcUp 0 .term) .done :: stk)
          exact finv_of max hb 2 (by run) (by run)
        | err e =>
          have := hT.neutral2 hq (.inp (.sinkUp 0 (.err e))) (.out (.srcUp 0 (.err e))) (.wait (.srcUp 0 (.err e)) .done :: stk)
            rfl rfl (by simp) (by simp)
          exact finv_of max hb 2 (by run) (by run)
      | m6 h1 h2 h3 h4 h5 =>
        obtain ⟨rest, rfl, _⟩ := h5
        simp [ctxOf] at hc; subst hc; simp [isTop, inGreet, inData] at hctx
      | m1 h1 => rw [h1] at hlive; cases hlive
      | m2 h1 => rw [h1] at hlive; cases hlive
      | m4 h1 => rw [h1] at hlive; cases hlive
      | m5 h1 => rw [h1] at hlive; cases hlive
      | m7 h1 => rw [h1] at hlive; cases hlive
    | srcGreet i =>
      have hsub := legal_srcGreet hl
      have hi : i = 0 := by
        by_cases hi : i = 0
        · exact hi
        · rw [hoth i hi] at hsub; cases hsub
      subst hi
      cases hm with
      | m2 h1 h2 h3 h4 h4' h5 =>
        subst h5
        clear h3 h4 h4'
        have hq : Quiet [Frame.wait (Out.subSrc 0) (Loc.done : Loc α)] := by intro rest he; simp at he
        have := hT.neutral2 hq (.inp (.srcGreet 0)) (.out (.greet 0)) [.wait (.greet 0) .done, .wait (.subSrc 0) .done]
          rfl rfl (by simp) (by simp)
        exact finv_of max hb 2 (by run) (by run)
      | m1 _ h2 => rw [h2] at hsub; cases hsub
      | m3 _ h2 => rw [h2] at hsub; cases hsub
      | m4 _ h2 => rw [h2] at hsub; cases hsub
      | m5 _ h2 => rw [h2] at hsub; cases hsub
      | m6 _ h2 => rw [h2] at hsub; cases hsub
      | m7 _ h2 => rw [h2] at hsub; cases hsub
    | srcDown i d =>
      have hlive := legal_srcDown hl
      have hi : i = 0 := by
        by_cases hi : i = 0
        · exact hi
        · rw [hoth i hi] at hlive; cases hlive
      subst hi
      cases hm with
      | m3 h1 h2 h3 h4 h5 h6 =>
        have hq := quiet_of_benign h6
        have hctx' := ctx_isSome_of_benign h6
        cases d with
        | data a =>
          by_cases hlt : st.taken < max
          · have := hT.dataTake hq hlt a (.wait (.down 0 (.data a)) (.d3 (st.taken + 1)) :: stk)
            exact finv_of max hb 2 (by run) (by run)
          · have := hT.dataDrop hq hlt a stk
            exact finv_of max hb 1 (by simp [advance, opStep, machine, enter, step, EnvTurn, hlt, hctx'])
              (by simp [advance, opStep, machine, enter, step, hlt, this])
        | term =>
          have := hT.fwdTerm hq (.wait (.down 0 .term) .done :: stk)
          exact finv_of max hb 1 (by run) (by run)
        | err e =>
          have := hT.fwdErr hq e (.wait (.down 0 (.err e)) .done :: stk)
          exact finv_of max hb 1 (by run) (by run)
      | m1 _ h2 => rw [h2] at hlive; cases hlive
      | m2 _ h2 => rw [h2] at hlive; cases hlive
      | m4 _ h2 => rw [h2] at hlive; cases hlive
      | m5 _ h2 => rw [h2] at hlive; cases hlive
      | m6 _ h2 => rw [h2] at hlive; cases hlive
      | m7 _ h2 => rw [h2] at hlive; cases hlive
  | @ret st stk g tr o l hl =>
    simp only at hp hbs hle hoth hoths hm hT
    -- resuming a benign continuation that has nothing left to do
    have resume_quiet : ∀ (_ : ∀ f ∈ Frame.wait o l :: stk, Benign st.taken f)
        (_ : st.fin = true ∨ ¬ (0 < st.taken ∧ st.taken = max) ∨ l = .done ∨ ∀ t, l = .d3 t → t ≠ max),
        ∃ n, FInv max (advance (machine α max) n ⟨st, .run l :: stk, g, .retE :: tr, none⟩) := by
      intro h6 hcase
      have hben := h6 _ (List.mem_cons_self)
      have hrest := (List.forall_mem_cons.1 h6).2
      have hq := quiet_of_benign h6
      have hctx' := ctx_isSome_of_benign hrest
      have := hT.neutral2 hq .retE .retO stk rfl rfl (by simp) (by simp)
      cases l with
      | done =>
        exact finv_of max hb 1 (by simp [advance, opStep, machine, step, EnvTurn, hctx'])
          (by simp [advance, opStep, machine, step, this])
      | d3 t =>
        simp [Benign] at hben
        by_cases ht : t = max
        · rcases hcase with hf | hn | hd | hd
          · exact finv_of max hb 2 (by simp [advance, opStep, machine, step, EnvTurn, hctx', ht, hf])
              (by simp [advance, opStep, machine, step, this, ht, hf])
          · exact absurd ⟨by omega, by omega⟩ hn
          · cases hd
          · exact absurd ht (hd t rfl)
        · exact finv_of max hb 1 (by simp [advance, opStep, machine, step, EnvTurn, hctx', ht])
            (by simp [advance, opStep, machine, step, this, ht])
      | _ => simp [Benign] at hben
    cases hm with
    | m1 _ _ h => simp at h
    | m2 h1 h2 h3 h4 h4' h5 =>
      simp at h5; obtain ⟨⟨rfl, rfl⟩, rfl⟩ := h5
      simp [legalRet, h2, machine] at hl
    | m3 h1 h2 h3 h4 h5 h6 =>
      have hben := h6 _ (List.mem_cons_self)
      have hq := quiet_of_benign h6
      by_cases hself : l = .d3 max
      · subst hself
        simp [Benign] at hben
        have := hT.selfTerm hq (by omega) stk
        exact finv_of max hb 4 (by run) (by run)
      · refine resume_quiet h6 (Or.inr (Or.inr (Or.inr ?_)))
        intro t he hmax; subst he; subst hmax; exact hself rfl
    | m4 h1 h2 h3 h6 => exact resume_quiet h6 (Or.inl h3)
    | m5 h1 h2 h3 h6 => exact resume_quiet h6 (Or.inr (Or.inl h3))
    | m6 h1 h2 h3 h4 h5 =>
      obtain ⟨rest, he, hrest⟩ := h5
      simp at he; obtain ⟨⟨rfl, rfl⟩, rfl⟩ := he
      have := hT.selfDone (.wait (.down 0 .term) .done :: stk)
      exact finv_of max hb 1 (by run) (by run)
    | m7 h1 h2 h3 h6 => exact resume_quiet h6 (Or.inl h3)

/-- the strengthened invariant holds at every environment turn that is reachable -/
theorem finv_of_reach (max : Nat) :
    ∀ s, SReach (machine α max) s → EnvTurn s → FInv max s := by
  intro s hs ht
  obtain ⟨n, hn⟩ := reach_runs_into_inv (machine α max) anyEnv (FInv max) (finv_init max)
    (fun s h => (Take.inv_turn max s h.1).1) (fun s s' m hi he _ => finv_step max s s' m hi he) s hs
  rwa [advance_of_envTurn ht] at hn

/-! ## the theorem -/

theorem framesOf_eq_nil {Loc β : Type} (stk : List (Frame Loc β)) (h : (framesOf stk).isEmpty = true) : stk = [] := by
  cases stk with
  | nil => rfl
  | cons f r => cases f <;> simp [framesOf] at h

/-- C07 for take -/
theorem take_spec {α : Type} [DecidableEq α] (max : Nat) :
    ∀ s, SReach (Take.machine α max) s → EnvTurn s → takeOk max s.tr = true := by
  intro s hs ht
  obtain ⟨hinv, hT⟩ := finv_of_reach max s hs ht
  obtain ⟨hp, hbs, hle, hoth, hoths, hm⟩ := hinv
  have hlast : (if (openCalls s.tr).isEmpty && decide (max > 0) && (recvData 0 s.tr).length == max
      then (finalsTo 0 s.tr == 1 || sinkDisposed 0 s.tr) && upFinals 0 s.tr == 1 else true) = true := by
    split
    · rename_i hc
      simp only [Bool.and_eq_true, decide_eq_true_eq, beq_iff_eq] at hc
      obtain ⟨⟨hopen, hpos⟩, hlen⟩ := hc
      rw [openCalls_eq hs hp] at hopen
      have hstk := framesOf_eq_nil _ hopen
      rw [hT.recvLen] at hlen
      have hdisp : s.g.ph.srcPh 0 = .disposed ∧ (s.g.ph.sinkPh 0 = .doneBySrc ∨ s.g.ph.sinkPh 0 = .doneBySelf) := by
        cases hm with
        | m1 _ _ _ _ h => omega
        | m2 _ _ _ _ _ h => rw [hstk] at h; cases h
        | m3 _ _ _ _ h5 _ => obtain ⟨a, rest, h⟩ := h5 (by omega) hlen; rw [hstk] at h; cases h
        | m4 h1 h2 => exact ⟨h2, Or.inr h1⟩
        | m5 _ _ h => exact absurd ⟨by omega, hlen⟩ h
        | m6 _ _ _ _ h => obtain ⟨rest, h, _⟩ := h; rw [hstk] at h; cases h
        | m7 h1 h2 => exact ⟨h2, Or.inl h1⟩
      have hup := ((upFinals_iff hs hbs 0).1).2 hdisp.1
      rcases hdisp.2 with h | h
      · have := ((finalsTo_iff hs hbs 0).1).2 h
        simp [this, hup]
      · have := (sinkDisposed_iff hs 0).2 h
        simp [this, hup]
    · rfl
  have hio : (recvData 0 s.tr == (sentData 0 s.tr).take max) = true := beq_iff_eq.2 hT.io
  rw [takeOk, hio, hT.c2, hT.c3, hT.c4]
  exact hlast

end Cb.TakeFun

#print axioms Cb.TakeFun.take_spec
