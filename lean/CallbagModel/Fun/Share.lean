import CallbagModel.Inv.ShareFull
import CallbagModel.Inv.TraceGhost
import CallbagModel.Spec
/-!
# share: the functional specification C12 (`shareOk`) holds on every trace, under `noNestedFanout`

The phase-level invariant `Share.Inv` is reused as a black box (through determinism, `full_of`); on top of it the trace
invariant `T` links the trace to the operator state:

* `attached tr = expAtt st.sinks stk`: the sinks attached according to the trace are `st.sinks` — except during a terminal
  fan-out (top frame `wait (down s d) (fLoop r d)`, `d` terminal, mode `tfan`), where `st.sinks` is still the old list and the
  attached ones are those not served yet, `r`;
* `subscriptions tr = List.range st.gen`: upstream subscriptions are numbered 0, 1, … and `gen` counts them;
* the newest event of the trace at an environment turn is an event of the operator (`out _` / `retO`);
* the four clauses of `shareOk`.

Every macro-step conses exactly two events on the trace: the move of the environment and the operator's next call or return.
-/
namespace Cb.ShareFun
open Cb Cb.Share

variable {α : Type}

/-! ## generic facts -/

theorem SReachR.advance {St Loc α β : Type} {M : Machine St Loc α β} {R : Restr St Loc α β} {s : Sys St Loc α β}
    (h : SReachR M R s) (n : Nat) : SReachR M R (advance M n s) := by
  induction n generalizing s with
  | zero => exact h
  | succ n ih =>
    simp only [Cb.advance]
    cases ho : opStep M s with
    | none => exact h
    | some s' => exact ih (.step h (.op ho))

/-- an upstream that has been subscribed never becomes `idle` again -/
def SubsNI {α β : Type} (ph : Ph) (tr : List (Ev α β)) : Prop :=
  ph.viols = [] → ∀ i ∈ subscriptions tr, ph.srcPh i ≠ .idle

theorem SubsNI.inp {α β : Type} {ph : Ph} {tr : List (Ev α β)} (h : SubsNI ph tr) (i : In α) :
    SubsNI (ph.onIn i) (.inp i :: tr) := by
  intro hv j hj
  simp only [subscriptions] at hj
  cases i with
  | subscribe k => exact h hv j hj
  | sinkUp k u => cases u <;> exact h hv j hj
  | srcGreet i' =>
    simp only [Ph.onIn, Ph.srcPh_setSrc]
    split
    · simp
    · exact h hv j hj
  | srcDown i' d =>
    cases d with
    | data a => exact h hv j hj
    | term =>
      simp only [Ph.onIn, Ph.srcPh_setSrc]
      split
      · simp
      · exact h hv j hj
    | err e =>
      simp only [Ph.onIn, Ph.srcPh_setSrc]
      split
      · simp
      · exact h hv j hj

theorem SubsNI.out {α β : Type} {ph : Ph} {tr : List (Ev α β)} (h : SubsNI ph tr) (o : Out β) :
    SubsNI (ph.onOut o) (.out o :: tr) := by
  intro hv j hj
  cases o with
  | greet k =>
    simp only [subscriptions] at hj
    simp only [Ph.onOut] at hv ⊢
    split at hv
    · rename_i hk; simp only [hk, ↓reduceIte, Ph.srcPh_setSink]; exact h hv j hj
    · simp at hv
  | down k d =>
    simp only [subscriptions] at hj
    cases hp : ph.sinkPh k with
    | live =>
      simp only [Ph.onOut, hp] at hv ⊢
      by_cases hf : isFinal d = true
      · simp only [hf, ↓reduceIte, Ph.srcPh_setSink, Ph.viols_setSink] at hv ⊢; exact h hv j hj
      · simp only [hf] at hv ⊢; exact h hv j hj
    | idle | subscribed | doneBySrc | doneBySelf => simp [Ph.onOut, hp] at hv
  | subSrc i =>
    simp only [subscriptions, List.mem_append, List.mem_singleton] at hj
    by_cases h1 : ph.srcPh i = .idle
    · by_cases h2 : ph.anySinkOpen = false
      · simp [Ph.onOut, h1, h2] at hv
      · have e : ph.onOut (Out.subSrc i : Out β) = ph.setSrc i .subscribed := by simp [Ph.onOut, h1, h2]
        rw [e] at hv ⊢
        by_cases hji : j = i
        · simp [hji]
        · rw [Ph.srcPh_setSrc, if_neg hji]
          rcases hj with hj | hj
          · exact h hv j hj
          · exact absurd hj hji
    · simp [Ph.onOut, h1] at hv
  | srcUp i u =>
    simp only [subscriptions] at hj
    cases u with
    | pull =>
      simp only [Ph.onOut] at hv ⊢
      split at hv
      · rename_i hk; simp only [hk, ↓reduceIte]; exact h hv j hj
      · simp at hv
    | term =>
      simp only [Ph.onOut] at hv ⊢
      split at hv
      · rename_i hk
        simp only [hk, ↓reduceIte, Ph.srcPh_setSrc]
        split
        · simp
        · exact h hv j hj
      · simp at hv
    | err e =>
      simp only [Ph.onOut] at hv ⊢
      split at hv
      · rename_i hk
        simp only [hk, ↓reduceIte, Ph.srcPh_setSrc]
        split
        · simp
        · exact h hv j hj
      · simp at hv
  | app b => simp only [subscriptions] at hj; exact h hv j hj

theorem subsNI_of_reach {St Loc α β : Type} {M : Machine St Loc α β} {R : Restr St Loc α β} {s : Sys St Loc α β}
    (hs : SReachR M R s) : SubsNI s.g.ph s.tr := by
  induction hs with
  | init => intro _ j hj; simp [Sys.init, subscriptions] at hj
  | @step a b _ hab ih =>
    cases hab with
    | op h =>
      unfold Cb.opStep at h
      cases hp : a.panicked with
      | some m => simp [hp] at h
      | none =>
        simp only [hp, Option.isSome_none, Bool.false_eq_true, ↓reduceIte] at h
        cases hstk : a.stack with
        | nil => simp [hstk] at h
        | cons f r =>
          cases f with
          | wait o l => simp [hstk] at h
          | run l =>
            simp only [hstk] at h
            cases hst : M.step a.st l with
            | ret =>
              simp only [hst, Option.some.injEq] at h; subst h
              intro hv j hj
              simp only [onRetO_ph] at hv ⊢
              simp only [subscriptions] at hj
              exact ih hv j hj
            | tau s' l' => simp only [hst, Option.some.injEq] at h; subst h; exact ih
            | call o s' l' =>
              simp only [hst, Option.some.injEq] at h; subst h
              simpa using ih.out o
            | panic m =>
              simp only [hst, Option.some.injEq] at h; subst h
              intro hv j hj
              simp only [subscriptions] at hj
              exact ih hv j hj
    | env h _ =>
      cases h with
      | call i hc hl => simpa using ih.inp i
      | ret hl =>
        intro hv j hj
        simp only [subscriptions] at hj
        exact ih hv j hj

/-! ## adjacency clauses and macro-steps of two events -/

theorem eachAtNext_cons2 {α β : Type} (chk : List (Ev α β) → Ev α β → Ev α β → Bool) (e2 e1 : Ev α β) (tr : List (Ev α β))
    (h : eachAtNext chk tr = true) (hb : ∀ e0 t, tr = e0 :: t → chk t e0 e1 = true) (hn : chk tr e1 e2 = true) :
    eachAtNext chk (e2 :: e1 :: tr) = true := by
  cases tr with
  | nil => simp [eachAtNext, hn]
  | cons e0 t => simp [eachAtNext, hn, hb e0 t rfl, h]

theorem eachPrecededBy_cons2 {α β : Type} (p : Ev α β → Bool) (q : Ev α β → Ev α β → Bool) (e2 e1 : Ev α β) (tr : List (Ev α β))
    (h : eachPrecededBy p q tr = true) (h1 : p e1 = false) (h2 : p e2 = true → q e1 e2 = true) :
    eachPrecededBy p q (e2 :: e1 :: tr) = true := by
  have h3 : eachPrecededBy p q (e1 :: tr) = true := by
    cases tr with
    | nil => simp [eachPrecededBy, h1]
    | cons e0 t => simp [eachPrecededBy, h1, h]
  simp only [eachPrecededBy, h3, Bool.and_true]
  split
  · rename_i hp; exact h2 hp
  · rfl

/-! ## the clauses of `shareOk`, named -/

/-- a sink attaching while none is attached starts a fresh upstream subscription; otherwise it is greeted at once -/
def chk1 : List (Ev α α) → Ev α α → Ev α α → Bool := fun past e1 e2 => match e1 with
      | .inp (.subscribe k) =>
          if (attached past).isEmpty then (match e2 with | .out (.subSrc i) => i == (subscriptions past).length | _ => false)
          else isGreetOut k e2
      | _ => true

/-- upstream is disposed exactly when the last attached sink detaches -/
def chk2 : List (Ev α α) → Ev α α → Ev α α → Bool := fun past e1 e2 => match e1 with
      | .inp (.sinkUp k .term) =>
          if (attached past).erase k == [] && (attached past).contains k then (match e2 with | .out (.srcUp _ .term) => true | _ => false)
          else (match e2 with | .retO => true | _ => false)
      | .inp (.sinkUp k (.err _)) =>
          if (attached past).erase k == [] && (attached past).contains k then (match e2 with | .out (.srcUp _ .term) => true | _ => false)
          else (match e2 with | .retO => true | _ => false)
      | _ => true

def p3 : Ev α α → Bool := fun e => match e with | .out (.srcUp _ .term) => true | _ => false
def q3 : Ev α α → Ev α α → Bool :=
  fun e1 _ => match e1 with | .inp (.sinkUp _ .term) => true | .inp (.sinkUp _ (.err _)) => true | _ => false

/-- at most one upstream subscription is alive -/
def chk4 : List (Ev α α) → Ev α α → Ev α α → Bool := fun past _ e2 => match e2 with
      | .out (.subSrc _) => (subscriptions past).all (fun i => srcEnded i past || upFinals i past > 0)
      | _ => true

theorem shareOk_eq [BEq α] (tr : List (Ev α α)) :
    shareOk tr = (eachAtNext chk1 tr && eachAtNext chk2 tr && eachPrecededBy p3 q3 tr && eachAtNext chk4 tr) := rfl

def isEnvEv : Ev α α → Bool | .inp _ => true | .retE => true | _ => false
def isOpEv : Ev α α → Bool | .out _ => true | .retO => true | _ => false

/-- the sinks the trace says are attached: `st.sinks`, except while a terminal fan-out is in progress (then: the sinks
not served yet) -/
def expAtt (sinks : List Nat) : List (Fr α) → List Nat
  | .wait (.down _ d) (.fLoop r _) :: _ => if isEndD d then r else sinks
  | _ => sinks

@[simp] theorem expAtt_nil (ks : List Nat) : expAtt ks ([] : List (Fr α)) = ks := rfl
@[simp] theorem expAtt_tail (ks : List Nat) (o : Out α) (stk : List (Fr α)) : expAtt ks (.wait o .done :: stk) = ks := by
  cases o <;> rfl
@[simp] theorem expAtt_fan (ks : List Nat) (s : Nat) (d d' : Down α) (r : List Nat) (stk : List (Fr α)) :
    expAtt ks (.wait (.down s d) (.fLoop r d') :: stk) = if isEndD d then r else ks := rfl

theorem expAtt_tails {ks : List Nat} {stk : List (Fr α)} (h : ∀ f ∈ stk, TailF f) : expAtt ks stk = ks := by
  cases stk with
  | nil => rfl
  | cons f r => obtain ⟨o, rfl⟩ := h f (by simp); simp

theorem expAtt_stackOK {ks ks' : List Nat} {stk : List (Fr α)} (h : StackOK ks' stk) : expAtt ks stk = ks := by
  rcases h with ht | ⟨pre, s0, a, r, post, rfl, hpre, _⟩
  · exact expAtt_tails ht
  · cases pre with
    | nil => simp [isEndD]
    | cons f pre => obtain ⟨i, u, rfl⟩ := hpre f (by simp); simp

/-- the trace invariant at environment turns -/
structure T (st : St) (stk : List (Fr α)) (tr : List (Ev α α)) : Prop where
  att : attached tr = expAtt st.sinks stk
  gen : subscriptions tr = List.range st.gen
  hd : ∀ e t, tr = e :: t → isOpEv e = true
  c1 : eachAtNext chk1 tr = true
  c2 : eachAtNext chk2 tr = true
  c3 : eachPrecededBy p3 q3 tr = true
  c4 : eachAtNext chk4 tr = true

theorem T.init : T ({} : St) ([] : List (Fr α)) ([] : List (Ev α α)) :=
  ⟨rfl, rfl, (by intro e t h; cases h), rfl, rfl, rfl, rfl⟩

/-- one macro-step: the environment's event `e1`, then the operator's event `e2` -/
theorem T.cons2 {st st' : St} {stk stk' : List (Fr α)} {tr : List (Ev α α)} (h : T st stk tr) (e1 e2 : Ev α α)
    (he1 : isEnvEv e1 = true) (he2 : isOpEv e2 = true)
    (hatt : attached (e2 :: e1 :: tr) = expAtt st'.sinks stk')
    (hgen : subscriptions (e2 :: e1 :: tr) = List.range st'.gen)
    (n1 : chk1 tr e1 e2 = true) (n2 : chk2 tr e1 e2 = true) (n3 : p3 e2 = true → q3 e1 e2 = true) (n4 : chk4 tr e1 e2 = true) :
    T st' stk' (e2 :: e1 :: tr) := by
  refine ⟨hatt, hgen, ?_, ?_, ?_, ?_, ?_⟩
  · intro e t he; simp at he; rw [← he.1]; exact he2
  · refine eachAtNext_cons2 _ _ _ _ h.c1 (fun e0 t he => ?_) n1
    have := h.hd e0 t he
    cases e0 <;> simp [isOpEv] at this <;> rfl
  · refine eachAtNext_cons2 _ _ _ _ h.c2 (fun e0 t he => ?_) n2
    have := h.hd e0 t he
    cases e0 <;> simp [isOpEv] at this <;> rfl
  · refine eachPrecededBy_cons2 _ _ _ _ _ h.c3 ?_ n3
    cases e1 <;> simp [isEnvEv] at he1 <;> rfl
  · refine eachAtNext_cons2 _ _ _ _ h.c4 (fun e0 t he => ?_) n4
    cases e1 <;> simp [isEnvEv] at he1 <;> rfl

/-! ## operational lemmas exposing the trace -/

def ReachesT (s : Cfg α) (st : St) (stk : List (Fr α)) (tr : List (Ev α α)) : Prop :=
  ∃ n g, advance (machine α) n s = ⟨st, stk, g, tr, none⟩

theorem run_done (st : St) (stk : List (Fr α)) (g : G) (tr : List (Ev α α)) :
    ReachesT ⟨st, .run .done :: stk, g, tr, none⟩ st stk (.retO :: tr) :=
  ⟨1, g.onRetO stk.length, by simp [advance, opStep, machine, step]⟩

theorem run_sub_first (k : Nat) (st : St) (stk : List (Fr α)) (g : G) (tr : List (Ev α α))
    (he : st.sinks = []) (hi : g.ph.srcPh st.gen = .idle) (ho : g.ph.anySinkOpen = true) :
    ReachesT ⟨st, .run (.s0 k) :: stk, g, tr, none⟩
      { st with sinks := [k], gen := st.gen + 1, first := st.first ++ [k] }
      (.wait (.subSrc st.gen) .done :: stk) (.out (.subSrc st.gen) :: tr) :=
  ⟨3, { g with ph := g.ph.setSrc st.gen .subscribed }, by simp [advance, opStep, machine, step, Ph.onOut, he, hi, ho]⟩

theorem run_sub_more (k : Nat) (st : St) (stk : List (Fr α)) (g : G) (tr : List (Ev α α))
    (he : st.sinks ≠ []) (hk : g.ph.sinkPh k = .subscribed) :
    ReachesT ⟨st, .run (.s0 k) :: stk, g, tr, none⟩
      { st with sinks := st.sinks ++ [k] } (.wait (.greet k) .done :: stk) (.out (.greet k) :: tr) := by
  obtain ⟨x, xs, hx⟩ := List.exists_cons_of_ne_nil he
  exact ⟨2, { g with ph := g.ph.setSink k .live }, by simp [advance, opStep, machine, step, Ph.onOut, hx, hk]⟩

theorem run_g0 (i : Nat) (st : St) (stk : List (Fr α)) (g : G) (tr : List (Ev α α))
    (hk : g.ph.sinkPh (phAt st.first i) = .subscribed) :
    ReachesT ⟨st, .run (.g0 i) :: stk, g, tr, none⟩
      { st with slot := some i } (.wait (.greet (phAt st.first i)) .done :: stk) (.out (.greet (phAt st.first i)) :: tr) :=
  ⟨2, { g with ph := g.ph.setSink (phAt st.first i) .live }, by simp [advance, opStep, machine, step, Ph.onOut, hk]⟩

theorem run_fLoop_data (s : Nat) (r : List Nat) (a : α) (st : St) (stk : List (Fr α)) (g : G) (tr : List (Ev α α))
    (hk : g.ph.sinkPh s = .live) :
    ReachesT ⟨st, .run (.fLoop (s :: r) (.data a)) :: stk, g, tr, none⟩
      st (.wait (.down s (.data a)) (.fLoop r (.data a)) :: stk) (.out (.down s (.data a)) :: tr) :=
  ⟨1, g, by simp [advance, opStep, machine, step, Ph.onOut, hk, isFinal]⟩

theorem run_fLoop_end (s : Nat) (r : List Nat) (d : Down α) (hd : isEndD d = true) (st : St) (stk : List (Fr α)) (g : G)
    (tr : List (Ev α α)) (hk : g.ph.sinkPh s = .live) :
    ReachesT ⟨st, .run (.fLoop (s :: r) d) :: stk, g, tr, none⟩
      st (.wait (.down s d) (.fLoop r d) :: stk) (.out (.down s d) :: tr) := by
  cases d with
  | data a => simp [isEndD] at hd
  | term => exact ⟨1, { g with ph := g.ph.setSink s .doneBySrc, fin := setAt g.fin s (finOfDown (.term : Down α)) },
      by simp [advance, opStep, machine, step, Ph.onOut, hk, isFinal, finOfDown]⟩
  | err e => exact ⟨1, { g with ph := g.ph.setSink s .doneBySrc, fin := setAt g.fin s (finOfDown (.err e : Down α)) },
      by simp [advance, opStep, machine, step, Ph.onOut, hk, isFinal, finOfDown]⟩

theorem run_f0_data (s : Nat) (r : List Nat) (a : α) (st : St) (stk : List (Fr α)) (g : G) (tr : List (Ev α α))
    (hs : st.sinks = s :: r) (hk : g.ph.sinkPh s = .live) :
    ReachesT ⟨st, .run (.f0 (.data a)) :: stk, g, tr, none⟩
      st (.wait (.down s (.data a)) (.fLoop r (.data a)) :: stk) (.out (.down s (.data a)) :: tr) :=
  ⟨2, g, by simp [advance, opStep, machine, step, Ph.onOut, hk, hs, isFinal]⟩

theorem run_f0_end (s : Nat) (r : List Nat) (d : Down α) (hd : isEndD d = true) (st : St) (stk : List (Fr α)) (g : G)
    (tr : List (Ev α α)) (hs : st.sinks = s :: r) (hk : g.ph.sinkPh s = .live) :
    ReachesT ⟨st, .run (.f0 d) :: stk, g, tr, none⟩
      st (.wait (.down s d) (.fLoop r d) :: stk) (.out (.down s d) :: tr) := by
  cases d with
  | data a => simp [isEndD] at hd
  | term => exact ⟨2, { g with ph := g.ph.setSink s .doneBySrc, fin := setAt g.fin s (finOfDown (.term : Down α)) },
      by simp [advance, opStep, machine, step, Ph.onOut, hk, hs, isFinal, finOfDown]⟩
  | err e => exact ⟨2, { g with ph := g.ph.setSink s .doneBySrc, fin := setAt g.fin s (finOfDown (.err e : Down α)) },
      by simp [advance, opStep, machine, step, Ph.onOut, hk, hs, isFinal, finOfDown]⟩

theorem run_fLoop_nil_data (a : α) (st : St) (stk : List (Fr α)) (g : G) (tr : List (Ev α α)) :
    ReachesT ⟨st, .run (.fLoop [] (.data a)) :: stk, g, tr, none⟩ st stk (.retO :: tr) :=
  ⟨2, g.onRetO stk.length, by simp [advance, opStep, machine, step, isEndD]⟩

theorem run_fLoop_nil_end (d : Down α) (hd : isEndD d = true) (st : St) (stk : List (Fr α)) (g : G) (tr : List (Ev α α)) :
    ReachesT ⟨st, .run (.fLoop [] d) :: stk, g, tr, none⟩ { st with sinks := [] } stk (.retO :: tr) :=
  ⟨3, g.onRetO stk.length, by simp [advance, opStep, machine, step, hd]⟩

theorem run_p0 (i : Nat) (st : St) (stk : List (Fr α)) (g : G) (tr : List (Ev α α))
    (hs : st.slot = some i) (hl : g.ph.srcPh i = .live) :
    ReachesT ⟨st, .run .p0 :: stk, g, tr, none⟩ st (.wait (.srcUp i .pull) .done :: stk) (.out (.srcUp i .pull) :: tr) :=
  ⟨1, g, by simp [advance, opStep, machine, step, Ph.onOut, hs, hl]⟩

theorem run_x0_some (k : Nat) (st : St) (stk : List (Fr α)) (g : G) (tr : List (Ev α α))
    (he : st.sinks.erase k ≠ []) :
    ReachesT ⟨st, .run (.x0 k) :: stk, g, tr, none⟩ { st with sinks := st.sinks.erase k } stk (.retO :: tr) :=
  ⟨2, g.onRetO stk.length, by simp [advance, opStep, machine, step, he]⟩

theorem run_x0_last (k i : Nat) (st : St) (stk : List (Fr α)) (g : G) (tr : List (Ev α α))
    (he : st.sinks.erase k = []) (hs : st.slot = some i) (hl : g.ph.srcPh i = .live) :
    ReachesT ⟨st, .run (.x0 k) :: stk, g, tr, none⟩ { st with sinks := [] }
      (.wait (.srcUp i .term) .done :: stk) (.out (.srcUp i .term) :: tr) :=
  ⟨3, { g with ph := g.ph.setSrc i .disposed }, by simp [advance, opStep, machine, step, Ph.onOut, he, hs, hl]⟩

/-! ## the invariant, and combining with the basic one (environment turns are fixpoints of `advance`) -/

def FInv (s : Cfg α) : Prop := SReachR (machine α) noNestedFanout s ∧ Share.Inv s ∧ T s.st s.stack s.tr

/-- the explicit result of a macro-step: where the operator stops, and the trace invariant there -/
def Next (s' : Cfg α) : Prop :=
  ∃ st' stk' tr', ReachesT s' st' stk' tr' ∧ (ctxOf stk').isSome ∧ T st' stk' tr'

theorem full_of {s' : Cfg α} (hs' : SReachR (machine α) noNestedFanout s')
    (hb : ∃ n, Share.Inv (advance (machine α) n s')) (hn : Next s') : ∃ n, FInv (advance (machine α) n s') := by
  obtain ⟨n1, h1⟩ := hb
  obtain ⟨st, stk, tr, ⟨n2, g, h2⟩, ht, hx⟩ := hn
  have e1 : EnvTurn (advance (machine α) n1 s') := (Share.inv_turn _ h1).1
  have e2 : EnvTurn (advance (machine α) n2 s') := by rw [h2]; exact ⟨rfl, ht⟩
  have heq : advance (machine α) n1 s' = advance (machine α) n2 s' := by
    have a := ShareFull.advance_add (machine α) n1 n2 s'
    have b := ShareFull.advance_add (machine α) n2 n1 s'
    rw [advance_of_envTurn e1] at a
    rw [advance_of_envTurn e2, Nat.add_comm] at b
    exact a.symm.trans b
  refine ⟨n2, SReachR.advance hs' n2, heq ▸ h1, ?_⟩
  rw [h2]; exact hx

theorem inv_init : FInv (Sys.init (machine α)) := ⟨.init, Share.inv_init, T.init⟩

theorem inv_turn (s : Cfg α) (h : FInv s) : EnvTurn s := (Share.inv_turn s h.2.1).1

/-! ## the environment moves -/

theorem step_subscribe {st : St} {stk : List (Fr α)} {g : G} {tr : List (Ev α α)} {c : Ctx α} {k : Nat}
    (hR : SReachR (machine α) noNestedFanout (⟨st, stk, g, tr, none⟩ : Cfg α))
    (hI : Inv' st stk g.ph) (hT : T st stk tr) (hc : ctxOf stk = some c)
    (hl : legalIn (machine α).shape g.ph c (In.subscribe k : In α) = true) :
    Next ⟨st, .run (enter (In.subscribe k : In α)) :: stk, g.onIn stk.length (In.subscribe k : In α), .inp (.subscribe k) :: tr, none⟩ := by
  obtain ⟨hv, hlen, hidle, hm⟩ := hI
  simp only [legalIn, Bool.and_eq_true, beq_iff_eq, machine, Bool.or_true] at hl
  obtain ⟨⟨htop, hki⟩, _⟩ := hl
  have := stk_nil_of_top hc htop; subst this
  rcases hm with ⟨hcore, hs⟩ | ⟨k0, hs, _⟩ | ⟨s, d, r, rest, hs, _⟩
  · have hatt : attached tr = st.sinks := by simpa using hT.att
    by_cases he : st.sinks = []
    · refine ⟨_, _, _, run_sub_first k st [] _ _ he (by simpa [Ph.onIn] using hidle _ (Nat.le_refl _))
        ((Ph.anySinkOpen_iff _).2 ⟨k, by simp [Ph.onIn]⟩), by simp [ctxOf], ?_⟩
      refine hT.cons2 (.inp (.subscribe k)) (.out (.subSrc st.gen)) rfl rfl ?_ ?_ ?_ rfl (by simp [p3]) ?_
      · simp [attached, hatt, he]
      · simp [subscriptions, hT.gen, List.range_succ]
      · simp [chk1, hatt, he, hT.gen]
      · simp only [chk4, List.all_eq_true, hT.gen, List.mem_range, Bool.or_eq_true, decide_eq_true_eq]
        intro i hi
        have hni : g.ph.srcPh i ≠ .idle := subsNI_of_reach hR hv i (by simp [hT.gen, hi])
        cases hp : g.ph.srcPh i with
        | idle => exact absurd hp hni
        | subscribed => exact absurd hp (hcore.nosrcsub i)
        | live => exact absurd he (hcore.live i hp).2
        | ended => left; exact (srcEnded_iff hR i).2 hp
        | disposed => right; have := ((upFinals_iff hR hv i).1).2 hp; simp only at this; omega
    · refine ⟨_, _, _, run_sub_more k st [] _ _ he (by simp [Ph.onIn]), by simp [ctxOf], ?_⟩
      refine hT.cons2 (.inp (.subscribe k)) (.out (.greet k)) rfl rfl ?_ ?_ ?_ rfl (by simp [p3]) rfl
      · simp [attached, hatt]
      · simp [subscriptions, hT.gen]
      · simp [chk1, hatt, he, isGreetOut]
  · simp at hs
  · simp at hs

theorem step_pull {st : St} {stk : List (Fr α)} {g : G} {tr : List (Ev α α)} {c : Ctx α} {k : Nat}
    (hI : Inv' st stk g.ph) (hT : T st stk tr) (hc : ctxOf stk = some c)
    (hl : legalIn (machine α).shape g.ph c (In.sinkUp k .pull : In α) = true) :
    Next ⟨st, .run (enter (In.sinkUp k .pull : In α)) :: stk, g.onIn stk.length (In.sinkUp k .pull : In α), .inp (.sinkUp k .pull) :: tr, none⟩ := by
  obtain ⟨hv, hlen, hidle, hm⟩ := hI
  simp only [legalIn, Bool.and_eq_true, beq_iff_eq, Bool.or_eq_true] at hl
  obtain ⟨hlive, hctx⟩ := hl
  obtain ⟨hcore, hs⟩ := sink_has_control hm hc hlive (by simpa [or_assoc] using hctx)
  have hne : st.sinks ≠ [] := List.ne_nil_of_mem ((hcore.mem k).2 hlive)
  obtain ⟨hup, hslot⟩ := hcore.up hne
  have hatt : attached tr = st.sinks := by rw [hT.att, expAtt_stackOK hs]
  refine ⟨_, _, _, run_p0 (st.gen - 1) st stk _ _ hslot (by simpa [Ph.onIn] using hup), by simp [ctxOf], ?_⟩
  refine hT.cons2 (.inp (.sinkUp k .pull)) (.out (.srcUp (st.gen - 1) .pull)) rfl rfl ?_ ?_ rfl rfl (by simp [p3]) rfl
  · simp [attached, hatt]
  · simp [subscriptions, hT.gen]

/-- sink `k` disposes (`Terminate` or `Error`) -/
theorem step_dispose_aux {st : St} {stk : List (Fr α)} {g g1 : G} {tr : List (Ev α α)} {c : Ctx α} {k : Nat} {u : Up}
    (hu : u ≠ .pull)
    (hI : Inv' st stk g.ph) (hT : T st stk tr) (hc : ctxOf stk = some c) (hlive : g.ph.sinkPh k = .live)
    (hctx : isTop c = true ∨ inGreet k c = true ∨ inData k c = true) (hg1 : g1.ph = g.ph.setSink k .doneBySelf) :
    Next ⟨st, .run (.x0 k) :: stk, g1, .inp (.sinkUp k u) :: tr, none⟩ := by
  obtain ⟨hv, hlen, hidle, hm⟩ := hI
  obtain ⟨hcore, hs⟩ := sink_has_control hm hc hlive hctx
  have hk : k ∈ st.sinks := (hcore.mem k).2 hlive
  have hne : st.sinks ≠ [] := List.ne_nil_of_mem hk
  obtain ⟨hup, hslot⟩ := hcore.up hne
  have hatt : attached tr = st.sinks := by rw [hT.att, expAtt_stackOK hs]
  by_cases he : st.sinks.erase k = []
  · refine ⟨_, _, _, run_x0_last k (st.gen - 1) st stk g1 _ he hslot (by simpa [hg1] using hup), by simp [ctxOf], ?_⟩
    refine hT.cons2 (.inp (.sinkUp k u)) (.out (.srcUp (st.gen - 1) .term)) rfl rfl ?_ ?_ rfl ?_ ?_ rfl
    · cases u <;> simp [attached, hatt, he] at hu ⊢
    · simp [subscriptions, hT.gen]
    · cases u <;> simp [chk2, hatt, he, hk] at hu ⊢
    · intro _; cases u <;> simp [q3] at hu ⊢
  · refine ⟨_, _, _, run_x0_some k st stk g1 _ he, by rw [hc]; rfl, ?_⟩
    refine hT.cons2 (.inp (.sinkUp k u)) .retO rfl rfl ?_ ?_ rfl ?_ (by simp [p3]) rfl
    · cases u <;> simp [attached, hatt, expAtt_stackOK hs] at hu ⊢
    · simp [subscriptions, hT.gen]
    · cases u <;> simp [chk2, hatt, he] at hu ⊢

theorem step_greet {st : St} {stk : List (Fr α)} {g : G} {tr : List (Ev α α)} {c : Ctx α} {i : Nat}
    (hI : Inv' st stk g.ph) (hT : T st stk tr) (hl : legalIn (machine α).shape g.ph c (In.srcGreet i : In α) = true) :
    Next ⟨st, .run (.g0 i) :: stk, g.onIn stk.length (In.srcGreet i : In α), .inp (.srcGreet i) :: tr, none⟩ := by
  obtain ⟨hv, hlen, hidle, hm⟩ := hI
  simp only [legalIn, Bool.and_eq_true, beq_iff_eq] at hl
  obtain ⟨hsub, _⟩ := hl
  rcases hm with ⟨hcore, _⟩ | ⟨k, hs, hsinks, hfirst, hk, hoth, hsrc, hoths⟩ | ⟨s, d, r, rest, _, _, _, _, _, _, hsrcs⟩
  · exact absurd hsub (hcore.nosrcsub i)
  · have hi : i = st.gen - 1 := by
      by_cases hi : i = st.gen - 1
      · exact hi
      · exact absurd hsub (hoths i hi).2
    subst hi
    have hatt : attached tr = st.sinks := by rw [hT.att, hs]; simp
    refine ⟨_, _, _, run_g0 (st.gen - 1) st stk _ _ (by simpa [Ph.onIn, hfirst] using hk), by simp [ctxOf], ?_⟩
    refine hT.cons2 (.inp (.srcGreet (st.gen - 1))) (.out (.greet (phAt st.first (st.gen - 1)))) rfl rfl ?_ ?_ rfl rfl (by simp [p3]) rfl
    · simp [attached, hatt]
    · simp [subscriptions, hT.gen]
  · exact absurd hsub (hsrcs i).2

theorem step_down_data {st : St} {stk : List (Fr α)} {g : G} {tr : List (Ev α α)} {c : Ctx α} {i : Nat} {a : α}
    (hI : Inv' st stk g.ph) (hT : T st stk tr) (hl : legalIn (machine α).shape g.ph c (In.srcDown i (.data a) : In α) = true)
    (hr : deliveryOpen stk = false) :
    Next ⟨st, .run (.f0 (.data a)) :: stk, g.onIn stk.length (In.srcDown i (.data a) : In α), .inp (.srcDown i (.data a)) :: tr, none⟩ := by
  obtain ⟨hv, hlen, hidle, hm⟩ := hI
  simp only [legalIn, Bool.and_eq_true, beq_iff_eq] at hl
  obtain ⟨hlive, _⟩ := hl
  rcases hm with ⟨hcore, hs⟩ | ⟨k, _, _, _, _, _, hsrc, hoths⟩ | ⟨s, d, r, rest, _, _, _, _, _, _, hsrcs⟩
  · have hatt : attached tr = st.sinks := by rw [hT.att, expAtt_stackOK hs]
    rcases hs with ht | ⟨pre, s0, a0, r, post, rfl, _⟩
    · obtain ⟨_, hne⟩ := hcore.live i hlive
      obtain ⟨s0, r, hsr⟩ := List.exists_cons_of_ne_nil hne
      have hs0 : g.ph.sinkPh s0 = .live := (hcore.mem s0).1 (by simp [hsr])
      refine ⟨_, _, _, run_f0_data s0 r a st stk _ _ hsr (by simpa [Ph.onIn] using hs0), by simp [ctxOf], ?_⟩
      refine hT.cons2 (.inp (.srcDown i (.data a))) (.out (.down s0 (.data a))) rfl rfl ?_ ?_ rfl rfl (by simp [p3]) rfl
      · simp [attached, hatt, isEndD]
      · simp [subscriptions, hT.gen]
    · rw [deliveryOpen_fan] at hr; cases hr
  · by_cases hi : i = st.gen - 1
    · subst hi; rw [hsrc] at hlive; cases hlive
    · exact absurd hlive (hoths i hi).1
  · exact absurd hlive (hsrcs i).1

/-- the upstream ends with `Terminate` or `Error(e)`: the first sink is served in the same macro-step -/
theorem step_down_end {st : St} {stk : List (Fr α)} {g : G} {tr : List (Ev α α)} {i : Nat} {d : Down α}
    (hI : Inv' st stk g.ph) (hT : T st stk tr) (hlive : g.ph.srcPh i = .live) (hr : deliveryOpen stk = false) (hd : isEndD d = true) :
    Next ⟨st, .run (.f0 d) :: stk, g.onIn stk.length (In.srcDown i d : In α), .inp (.srcDown i d) :: tr, none⟩ := by
  obtain ⟨hv, hlen, hidle, hm⟩ := hI
  rcases hm with ⟨hcore, hs⟩ | ⟨k, _, _, _, _, _, hsrc, hoths⟩ | ⟨s, d, r, rest, _, _, _, _, _, _, hsrcs⟩
  · have hatt : attached tr = st.sinks := by rw [hT.att, expAtt_stackOK hs]
    rcases hs with ht | ⟨pre, s0, a0, r, post, rfl, _⟩
    · obtain ⟨hi, hne⟩ := hcore.live i hlive
      obtain ⟨s0, r, hsr⟩ := List.exists_cons_of_ne_nil hne
      have hs0 : g.ph.sinkPh s0 = .live := (hcore.mem s0).1 (by simp [hsr])
      have hs0' : (g.onIn stk.length (In.srcDown i d : In α)).ph.sinkPh s0 = .live := by
        cases d <;> simpa [Ph.onIn] using hs0
      refine ⟨_, _, _, run_f0_end s0 r d hd st stk _ _ hsr hs0', by simp [ctxOf], ?_⟩
      refine hT.cons2 (.inp (.srcDown i d)) (.out (.down s0 d)) rfl rfl ?_ ?_ rfl rfl ?_ rfl
      · cases d <;> simp [attached, hatt, hsr, isEndD] at hd ⊢
      · simp [subscriptions, hT.gen]
      · cases d <;> simp [p3]
    · rw [deliveryOpen_fan] at hr; cases hr
  · by_cases hi : i = st.gen - 1
    · subst hi; rw [hsrc] at hlive; cases hlive
    · exact absurd hlive (hoths i hi).1
  · exact absurd hlive (hsrcs i).1

theorem step_ret {st : St} {stk : List (Fr α)} {g : G} {tr : List (Ev α α)} {o : Out α} {l : Loc α}
    (hI : Inv' st (.wait o l :: stk) g.ph) (hT : T st (.wait o l :: stk) tr)
    (hl : legalRet (machine α).shape g.ph (.inCall o : Ctx α) = true) :
    Next ⟨st, .run l :: stk, g, .retE :: tr, none⟩ := by
  obtain ⟨hv, hlen, hidle, hm⟩ := hI
  rcases hm with ⟨hcore, hs⟩ | ⟨k, hs, _, _, _, _, hsrc, _⟩ | ⟨s, d, r, rest, hs, hd, hrest, hnd, hlv, hnosub, hsrcs⟩
  · have hatt : attached tr = st.sinks := by rw [hT.att, expAtt_stackOK hs]
    rcases hs with ht | ⟨pre, s0, a, r, post, he, hpre, hpost, hnd, hr⟩
    · obtain ⟨o', ho'⟩ := ht _ List.mem_cons_self
      simp at ho'; obtain ⟨rfl, rfl⟩ := ho'
      have ht' := (List.forall_mem_cons.1 ht).2
      refine ⟨_, _, _, run_done st stk g _, ctx_isSome_of_tails ht', ?_⟩
      refine hT.cons2 .retE .retO rfl rfl ?_ ?_ rfl rfl (by simp [p3]) rfl
      · simp [attached, hatt, expAtt_tails ht']
      · simp [subscriptions, hT.gen]
    · cases pre with
      | nil =>
        simp at he; obtain ⟨⟨rfl, rfl⟩, rfl⟩ := he
        cases r with
        | nil =>
          refine ⟨_, _, _, run_fLoop_nil_data a st stk g _, ctx_isSome_of_tails hpost, ?_⟩
          refine hT.cons2 .retE .retO rfl rfl ?_ ?_ rfl rfl (by simp [p3]) rfl
          · simp [attached, hatt, expAtt_tails hpost]
          · simp [subscriptions, hT.gen]
        | cons s1 r1 =>
          have hs1 : g.ph.sinkPh s1 = .live := (hcore.mem s1).1 (hr s1 (by simp))
          refine ⟨_, _, _, run_fLoop_data s1 r1 a st stk g _ hs1, by simp [ctxOf], ?_⟩
          refine hT.cons2 .retE (.out (.down s1 (.data a))) rfl rfl ?_ ?_ rfl rfl (by simp [p3]) rfl
          · simp [attached, hatt, isEndD]
          · simp [subscriptions, hT.gen]
      | cons f pre =>
        obtain ⟨i, u, rfl⟩ := hpre f (by simp)
        simp at he; obtain ⟨⟨rfl, rfl⟩, rfl⟩ := he
        have hs' : StackOK st.sinks (pre ++ Frame.wait (Out.down s0 (Down.data a)) (Loc.fLoop r (Down.data a)) :: post) :=
          Or.inr ⟨pre, s0, a, r, post, rfl, (List.forall_mem_cons.1 hpre).2, hpost, hnd, hr⟩
        refine ⟨_, _, _, run_done st _ g _, ShareFull.ctx_isSome_of_stackOK hs', ?_⟩
        refine hT.cons2 .retE .retO rfl rfl ?_ ?_ rfl rfl (by simp [p3]) rfl
        · simp only [attached, hatt]; exact (expAtt_stackOK hs').symm
        · simp [subscriptions, hT.gen]
  · simp at hs; obtain ⟨⟨rfl, rfl⟩, rfl⟩ := hs
    simp [legalRet, machine, hsrc] at hl
  · simp at hs; obtain ⟨⟨rfl, rfl⟩, rfl⟩ := hs
    have hatt : attached tr = r := by rw [hT.att]; simp [hd]
    cases r with
    | nil =>
      refine ⟨_, _, _, run_fLoop_nil_end d hd st stk g _, ctx_isSome_of_tails hrest, ?_⟩
      refine hT.cons2 .retE .retO rfl rfl ?_ ?_ rfl rfl (by simp [p3]) rfl
      · simp [attached, hatt, expAtt_tails hrest]
      · simp [subscriptions, hT.gen]
    | cons s1 r1 =>
      have hs1 : g.ph.sinkPh s1 = .live := (hlv s1).2 (by simp)
      refine ⟨_, _, _, run_fLoop_end s1 r1 d hd st stk g _ hs1, by simp [ctxOf], ?_⟩
      refine hT.cons2 .retE (.out (.down s1 d)) rfl rfl ?_ ?_ rfl rfl ?_ rfl
      · cases d <;> simp [attached, hatt, isEndD] at hd ⊢
      · simp [subscriptions, hT.gen]
      · cases d <;> simp [p3]

theorem inv_step (s s' : Cfg α) (m : Move α) (h : FInv s) (hs : EnvStep (machine α) m s s') (hr : noNestedFanout s m) :
    ∃ n, FInv (advance (machine α) n s') := by
  obtain ⟨hR, hbI, hT⟩ := h
  have hb := Share.inv_step s s' m hbI hs hr
  have hR' : SReachR (machine α) noNestedFanout s' := .step hR (.env hs hr)
  refine full_of hR' hb ?_
  obtain ⟨hp, hI⟩ := hbI
  cases hs with
  | @call st stk g tr c i hc hl =>
    simp only at hI hT
    cases i with
    | subscribe k => exact step_subscribe hR hI hT hc hl
    | sinkUp k u =>
      cases u with
      | pull => exact step_pull hI hT hc hl
      | term =>
        simp only [legalIn, Bool.and_eq_true, beq_iff_eq, Bool.or_eq_true] at hl
        exact step_dispose_aux (by simp) hI hT hc hl.1 (by simpa [or_assoc] using hl.2) (by simp [Ph.onIn])
      | err e =>
        simp only [legalIn, Bool.and_eq_true, beq_iff_eq, Bool.or_eq_true] at hl
        exact step_dispose_aux (by simp) hI hT hc hl.1 (by simpa [or_assoc] using hl.2) (by simp [Ph.onIn])
    | srcGreet i => exact step_greet hI hT hl
    | srcDown i d =>
      have hr' : deliveryOpen stk = false := hr
      cases d with
      | data a => exact step_down_data hI hT hl hr'
      | term =>
        simp only [legalIn, Bool.and_eq_true, beq_iff_eq] at hl
        exact step_down_end hI hT hl.1 hr' rfl
      | err e =>
        simp only [legalIn, Bool.and_eq_true, beq_iff_eq] at hl
        exact step_down_end hI hT hl.1 hr' rfl
  | @ret st stk g tr o l hl => exact step_ret hI hT hl

theorem finv_of_reach {α : Type} (s : Cfg α) (hs : SReachR (machine α) noNestedFanout s) (ht : EnvTurn s) : FInv s := by
  obtain ⟨n, hn⟩ := reach_runs_into_inv (machine α) noNestedFanout FInv inv_init inv_turn inv_step s hs
  rwa [advance_of_envTurn ht] at hn

/-- C12, trace part: at every environment turn of every run of `share` against conformant peers (any number of sinks, any
nesting) in which no upstream delivers from inside one of the operator's own deliveries, the trace satisfies `shareOk`. -/
theorem share_spec {α : Type} [DecidableEq α] :
    ∀ s, SReachR (Share.machine α) noNestedFanout s → EnvTurn s → shareOk s.tr = true := by
  intro s hs ht
  obtain ⟨_, _, hT⟩ := finv_of_reach s hs ht
  rw [shareOk_eq]
  simp [hT.c1, hT.c2, hT.c3, hT.c4]

/-- the trace-level link at every environment turn: the sinks attached according to the trace are `st.sinks` (during a
terminal fan-out: the sinks not served yet), and the upstream subscriptions made so far are `0, …, gen-1` in this order -/
theorem share_attached {α : Type} (s : Cfg α) (hs : SReachR (machine α) noNestedFanout s) (ht : EnvTurn s) :
    attached s.tr = expAtt s.st.sinks s.stack ∧ subscriptions s.tr = List.range s.st.gen :=
  let ⟨_, _, hT⟩ := finv_of_reach s hs ht
  ⟨hT.att, hT.gen⟩

/-! ## the fan-out clause: every attached sink receives every datum emitted while it is attached -/

/-- runs of the operator against peers that answer every call of the operator by returning at once -/
inductive RetRun : Cfg α → Cfg α → Prop where
  | refl (s : Cfg α) : RetRun s s
  | op {a b c : Cfg α} : opStep (machine α) a = some b → RetRun b c → RetRun a c
  | ret {a b c : Cfg α} : EnvStep (machine α) .ret a b → RetRun b c → RetRun a c

theorem RetRun.trans {a b c : Cfg α} (h1 : RetRun a b) (h2 : RetRun b c) : RetRun a c := by
  induction h1 with
  | refl => exact h2
  | op h _ ih => exact .op h (ih h2)
  | ret h _ ih => exact .ret h (ih h2)

theorem RetRun.of_advance (n : Nat) (s : Cfg α) : RetRun s (advance (machine α) n s) := by
  induction n generalizing s with
  | zero => exact .refl s
  | succ n ih =>
    simp only [advance]
    cases h : opStep (machine α) s with
    | none => exact .refl s
    | some s' => exact .op h (ih s')

/-- the events of one fan-out of `Data a` to the sinks `ks` (in list order) that return at once; newest first -/
def fanEvs (a : α) : List Nat → List (Ev α α)
  | [] => []
  | k :: r => fanEvs a r ++ [.retE, .out (.down k (.data a))]

theorem fan_loop (a : α) (st : St) (stk : List (Fr α)) (g : G) (r : List Nat) (tr : List (Ev α α))
    (hlive : ∀ k ∈ r, g.ph.sinkPh k = .live) :
    RetRun ⟨st, .run (.fLoop r (.data a)) :: stk, g, tr, none⟩ ⟨st, stk, g.onRetO stk.length, .retO :: fanEvs a r ++ tr, none⟩ := by
  induction r generalizing tr with
  | nil =>
    have h : advance (machine α) 2 ⟨st, .run (.fLoop [] (.data a)) :: stk, g, tr, none⟩ =
        ⟨st, stk, g.onRetO stk.length, .retO :: tr, none⟩ := by simp [advance, opStep, machine, step, isEndD]
    have := RetRun.of_advance 2 (⟨st, .run (.fLoop [] (.data a)) :: stk, g, tr, none⟩ : Cfg α)
    rw [h] at this
    simpa [fanEvs] using this
  | cons k r ih =>
    have hk : g.ph.sinkPh k = .live := hlive k (by simp)
    have h : advance (machine α) 1 ⟨st, .run (.fLoop (k :: r) (.data a)) :: stk, g, tr, none⟩ =
        ⟨st, .wait (.down k (.data a)) (.fLoop r (.data a)) :: stk, g, .out (.down k (.data a)) :: tr, none⟩ := by
      simp [advance, opStep, machine, step, Ph.onOut, hk, isFinal]
    have h1 := RetRun.of_advance 1 (⟨st, .run (.fLoop (k :: r) (.data a)) :: stk, g, tr, none⟩ : Cfg α)
    rw [h] at h1
    have h2 : EnvStep (machine α) .ret
        (⟨st, .wait (.down k (.data a)) (.fLoop r (.data a)) :: stk, g, .out (.down k (.data a)) :: tr, none⟩ : Cfg α)
        ⟨st, .run (.fLoop r (.data a)) :: stk, g, .retE :: .out (.down k (.data a)) :: tr, none⟩ := EnvStep.ret rfl
    have h3 := ih (.retE :: .out (.down k (.data a)) :: tr) (fun k' hk' => hlive k' (by simp [hk']))
    have := h1.trans (.ret h2 h3)
    simpa [fanEvs, List.append_assoc] using this

/-- **fan-out**: in the configuration right after an upstream delivered `Data a`, with every listed sink live, running the
operator against sinks that simply return delivers `a` to exactly the sinks of `st.sinks`, in list order, one call each, and
then returns to the upstream; the operator state is unchanged. -/
theorem share_fanout (st : St) (stk : List (Fr α)) (g : G) (tr : List (Ev α α)) (a : α)
    (hlive : ∀ k ∈ st.sinks, g.ph.sinkPh k = .live) :
    RetRun ⟨st, .run (.f0 (.data a)) :: stk, g, tr, none⟩
      ⟨st, stk, g.onRetO stk.length, .retO :: fanEvs a st.sinks ++ tr, none⟩ := by
  have h : opStep (machine α) ⟨st, .run (.f0 (.data a)) :: stk, g, tr, none⟩ =
      some ⟨st, .run (.fLoop st.sinks (.data a)) :: stk, g, tr, none⟩ := by simp [opStep, machine, step]
  exact .op h (fan_loop a st stk g st.sinks tr hlive)

/-- what the sinks have received after a fan-out -/
theorem recvData_fanEvs (a : α) (k : Nat) (ks : List Nat) (tr : List (Ev α α)) :
    recvData k (fanEvs a ks ++ tr) = recvData k tr ++ List.replicate (ks.count k) a := by
  induction ks generalizing tr with
  | nil => simp [fanEvs]
  | cons k1 r ih =>
    have : fanEvs a (k1 :: r) ++ tr = fanEvs a r ++ (.retE :: .out (.down k1 (.data a)) :: tr) := by
      simp [fanEvs, List.append_assoc]
    rw [this, ih]
    by_cases h : k1 = k
    · subst h
      simp [recvData, List.replicate_succ]
    · simp [recvData, h]

theorem recvData_fanEvs_nodup (a : α) (k : Nat) (ks : List Nat) (hnd : ks.Nodup) (tr : List (Ev α α)) :
    recvData k (.retO :: fanEvs a ks ++ tr) = if k ∈ ks then recvData k tr ++ [a] else recvData k tr := by
  have : recvData k (.retO :: fanEvs a ks ++ tr) = recvData k (fanEvs a ks ++ tr) := by simp [recvData]
  rw [this, recvData_fanEvs, hnd.count]
  split <;> simp [List.replicate_succ]

/-- **fan-out, at reachable configurations**: whenever an upstream legally delivers `Data a` (environment turn `s`, no
delivery of the operator open), the sinks attached according to the trace (`attached s.tr`) are exactly `st.sinks`, they are
distinct, and — as long as each sink just returns — each of them is called with `Data a` exactly once, in attachment order,
nobody else is called, and control returns to the upstream with the operator state unchanged.  In terms of `recvData`:
every attached sink has received one more datum, `a`; every other sink nothing. -/
theorem share_fanout_reach (s s' : Cfg α) (hs : SReachR (machine α) noNestedFanout s) (i : Nat) (a : α)
    (he : EnvStep (machine α) (.call (.srcDown i (.data a))) s s') (hr : noNestedFanout s (.call (.srcDown i (.data a)))) :
    attached s.tr = s.st.sinks ∧ (attached s.tr).Nodup ∧
    (∃ g', RetRun s' ⟨s.st, s.stack, g', .retO :: fanEvs a (attached s.tr) ++ .inp (.srcDown i (.data a)) :: s.tr, none⟩) ∧
    ∀ k, recvData k (.retO :: fanEvs a (attached s.tr) ++ .inp (.srcDown i (.data a)) :: s.tr)
      = if k ∈ attached s.tr then recvData k s.tr ++ [a] else recvData k s.tr := by
  obtain ⟨_, ⟨_, hI⟩, hT⟩ := finv_of_reach s hs (envTurn_of_envStep he)
  cases he with
  | @call st stk g tr c _ hc hl =>
    simp only at hI hT ⊢
    have hr' : deliveryOpen stk = false := hr
    obtain ⟨hv, hlen, hidle, hm⟩ := hI
    simp only [legalIn, Bool.and_eq_true, beq_iff_eq] at hl
    obtain ⟨hlive, _⟩ := hl
    rcases hm with ⟨hcore, hs⟩ | ⟨k, _, _, _, _, _, hsrc, hoths⟩ | ⟨s, d, r, rest, _, _, _, _, _, _, hsrcs⟩
    · have hatt : attached tr = st.sinks := by rw [hT.att, expAtt_stackOK hs]
      refine ⟨hatt, hatt ▸ hcore.nodup, ?_, fun k => ?_⟩
      · rw [hatt]
        exact ⟨_, share_fanout st stk _ _ a (fun k hk => by simpa [Ph.onIn] using (hcore.mem k).1 hk)⟩
      · rw [recvData_fanEvs_nodup a k _ (hatt ▸ hcore.nodup)]
        simp [recvData]
    · by_cases hi : i = st.gen - 1
      · subst hi; rw [hsrc] at hlive; cases hlive
      · exact absurd hlive (hoths i hi).1
    · exact absurd hlive (hsrcs i).1

end Cb.ShareFun

#print axioms Cb.ShareFun.share_spec
#print axioms Cb.ShareFun.share_fanout
#print axioms Cb.ShareFun.share_fanout_reach
