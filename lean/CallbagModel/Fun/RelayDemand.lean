import CallbagModel.Inv.Relay
import CallbagModel.Inv.TraceGhost
import CallbagModel.Fun.Relay
import CallbagModel.Spec14
/-!
# map / filter / scan / skip: demand conservation `demandOk` (C14) under the pullable discipline

`FInv s := SReachR … pullable s ∧ Relay.Inv k s ∧ T s.tr ∧ (upstream subscribed → 0 ∈ subscriptions s.tr)`.  The phase-level
invariant is reused as a black box through determinism of `advance` (as in `Fun/Relay.lean`); reachability is carried along
so that the TraceGhost lemmas translate phases into trace projections inside the step.  `T` is the counting part, on the trace
alone: with `P = pullsIn 0`, `D = |recvData 0|`, `U = pullsOut 0`, `A = answersOf 0`,

* `A ≤ U` (the environment's discipline), `D ≤ P`,
* `P + A = U + D` while upstream has not ended (every sink Pull is forwarded, every dropped item is compensated by a Pull),
* `P = 0` before upstream greets.
-/
namespace Cb.RelayDemand
open Cb Cb.Relay Cb.RelayFun

variable {σ α β : Type}

/-! ## the counting part of the invariant -/

structure T (tr : List (Ev α β)) : Prop where
  au : answersOf 0 tr ≤ pullsOut 0 tr
  dp : (recvData 0 tr).length ≤ pullsIn 0 tr
  bal : srcEnded 0 tr = false → pullsIn 0 tr + answersOf 0 tr = pullsOut 0 tr + (recvData 0 tr).length
  p0 : srcGreeted 0 tr = false → pullsIn 0 tr = 0

theorem T.init : T ([] : List (Ev α β)) := by
  constructor <;> simp [answersOf, pullsOut, pullsIn, recvData]

/-- subscription: the operator subscribes upstream -/
theorem T.subscribe {tr : List (Ev α β)} (h : T tr) (j : Nat) :
    T (.out (.subSrc 0) :: .inp (.subscribe j) :: tr) := by
  obtain ⟨h1, h2, h3, h4⟩ := h
  constructor <;> simpa [answersOf, pullsOut, pullsIn, recvData, srcEnded, srcGreeted]

/-- greeting: the operator greets the sink -/
theorem T.greet {tr : List (Ev α β)} (h : T tr) (i : Nat) :
    T (.out (.greet 0) :: .inp (.srcGreet i) :: tr) := by
  obtain ⟨h1, h2, h3, h4⟩ := h
  constructor
  · simpa [answersOf, pullsOut]
  · simpa [pullsIn, recvData]
  · simpa [answersOf, pullsOut, pullsIn, recvData, srcEnded]
  · simp only [srcGreeted, pullsIn]
    intro hg
    apply h4
    cases hh : srcGreeted 0 tr with
    | false => rfl
    | true => simp [hh] at hg

/-- a message of the sink is forwarded upstream; a Pull only after the greeting -/
theorem T.sinkUp {tr : List (Ev α β)} (h : T tr) (hg : srcGreeted 0 tr = true) (u : Up) :
    T (.out (.srcUp 0 u) :: .inp (.sinkUp 0 u) :: tr) := by
  obtain ⟨h1, h2, h3, h4⟩ := h
  cases u with
  | pull =>
    constructor
    · simp [answersOf, pullsOut]; omega
    · simp [pullsIn, recvData]; omega
    · simp only [srcEnded, answersOf, pullsOut, pullsIn, recvData]; intro he; have := h3 he; simp; omega
    · simp [srcGreeted, hg]
  | term =>
    constructor <;> simpa [answersOf, pullsOut, pullsIn, recvData, srcEnded, srcGreeted]
  | err e =>
    constructor <;> simpa [answersOf, pullsOut, pullsIn, recvData, srcEnded, srcGreeted]

/-- a requested datum arrives and its image is delivered -/
theorem T.dataSome {tr : List (Ev α β)} (h : T tr) (hlt : answersOf 0 tr < pullsOut 0 tr) (he : srcEnded 0 tr = false)
    (a : α) (b : β) : T (.out (.down 0 (.data b)) :: .inp (.srcDown 0 (.data a)) :: tr) := by
  obtain ⟨h1, h2, h3, h4⟩ := h
  have := h3 he
  constructor
  · simp [answersOf, pullsOut]; omega
  · simp [pullsIn, recvData]; omega
  · simp [srcEnded, answersOf, pullsOut, pullsIn, recvData]; omega
  · simpa [srcGreeted, pullsIn]

/-- a requested datum arrives and is dropped: the operator asks for the next one -/
theorem T.dataNone {tr : List (Ev α β)} (h : T tr) (_hlt : answersOf 0 tr < pullsOut 0 tr) (he : srcEnded 0 tr = false)
    (a : α) : T (.out (.srcUp 0 .pull) :: .inp (.srcDown 0 (.data a)) :: tr) := by
  obtain ⟨h1, h2, h3, h4⟩ := h
  have := h3 he
  constructor
  · simp [answersOf, pullsOut]; omega
  · simpa [pullsIn, recvData]
  · simp [srcEnded, answersOf, pullsOut, pullsIn, recvData]; omega
  · simpa [srcGreeted, pullsIn]

/-- upstream ends (its answer to a Pull) and the terminal is forwarded -/
theorem T.fin {tr : List (Ev α β)} (h : T tr) (hlt : answersOf 0 tr < pullsOut 0 tr) (d : Down α) (d' : Down β)
    (hd : d = .term ∨ ∃ e, d = .err e) (hd' : d' = .term ∨ ∃ e, d' = .err e) :
    T (.out (.down 0 d') :: .inp (.srcDown 0 d) :: tr) := by
  obtain ⟨h1, h2, h3, h4⟩ := h
  rcases hd with rfl | ⟨e, rfl⟩ <;> rcases hd' with rfl | ⟨e', rfl⟩ <;>
  · constructor
    · simp [answersOf, pullsOut]; omega
    · simpa [pullsIn, recvData]
    · simp [srcEnded]
    · simpa [srcGreeted, pullsIn]

/-- a return of the environment followed by the return of the finished handler -/
theorem T.ret {tr : List (Ev α β)} (h : T tr) : T (.retO :: .retE :: tr) := by
  obtain ⟨h1, h2, h3, h4⟩ := h
  constructor <;> simpa [answersOf, pullsOut, pullsIn, recvData, srcEnded, srcGreeted]

/-! ## combining with the basic invariant -/

theorem reach_advance {St Loc : Type} {M : Machine St Loc α β} {R : Restr St Loc α β} (n : Nat) (s : Sys St Loc α β)
    (h : SReachR M R s) : SReachR M R (advance M n s) := by
  induction n generalizing s with
  | zero => exact h
  | succ n ih =>
    simp only [advance]
    cases ho : opStep M s with
    | none => exact h
    | some s' => exact ih s' (.step h (.op ho))

def FInv (k : Kind σ α β) (s : Sys (St σ) (Loc α β) α β) : Prop :=
  SReachR (machine k) pullable s ∧ Relay.Inv k s ∧ T s.tr ∧ (s.g.ph.srcPh 0 ≠ .idle → 0 ∈ subscriptions s.tr)

theorem finv_of (k : Kind σ α β) {s' : Sys (St σ) (Loc α β) α β} (hr : SReachR (machine k) pullable s')
    (hb : ∃ n, Relay.Inv k (advance (machine k) n s')) (n2 : Nat)
    (ht : EnvTurn (advance (machine k) n2 s'))
    (hT : T (advance (machine k) n2 s').tr)
    (hsub : 0 ∈ subscriptions (advance (machine k) n2 s').tr) :
    ∃ n, FInv k (advance (machine k) n s') := by
  obtain ⟨n1, h1⟩ := hb
  have e1 := (Relay.inv_turn k _ h1).1
  have heq : advance (machine k) n1 s' = advance (machine k) n2 s' := by
    have a := advance_add (machine k) n1 n2 s'
    have b := advance_add (machine k) n2 n1 s'
    rw [advance_of_envTurn e1] at a
    rw [advance_of_envTurn ht, Nat.add_comm] at b
    exact a.symm.trans b
  refine ⟨n2, reach_advance n2 s' hr, ?_, hT, fun _ => hsub⟩
  rw [← heq]; exact h1

theorem finv_init (k : Kind σ α β) : FInv k (Sys.init (machine k)) :=
  ⟨.init, Relay.inv_init k, by simpa [Sys.init] using T.init, by simp [Sys.init]⟩

macro "run" : tactic =>
  `(tactic| simp [advance, opStep, machine, enter, step, EnvTurn, ctxOf, subscriptions, *])

theorem finv_step (k : Kind σ α β) (hk : k.slotted = false → ∀ s a, (k.xfer s a).2 ≠ none)
    (s s' : Sys (St σ) (Loc α β) α β) (m : Move α) (h : FInv k s) (hs : EnvStep (machine k) m s s')
    (hR : pullable s m) : ∃ n, FInv k (advance (machine k) n s') := by
  obtain ⟨hreach, hinv, hT, hsub⟩ := h
  have hb := Relay.inv_step k hk s s' m hinv hs
  have hr' : SReachR (machine k) pullable s' := .step hreach (.env hs hR)
  have hgr := srcGreeted_iff hreach 0
  have hend := srcEnded_iff hreach 0
  obtain ⟨hp, hbs, hoth, hoths, hm⟩ := hinv
  cases hs with
  | @call st stk g tr c i hc hl =>
    simp only at hp hbs hoth hoths hm hT hsub hgr hend
    cases i with
    | subscribe j =>
      have := hT.subscribe j
      exact finv_of k hr' hb 1 (by run) (by run) (by run)
    | sinkUp j u =>
      simp only [legalIn, Bool.and_eq_true, beq_iff_eq, Bool.or_eq_true] at hl
      obtain ⟨hlive, hctx⟩ := hl
      have hj : j = 0 := by
        by_cases hj : j = 0
        · exact hj
        · rw [hoths j hj] at hlive; cases hlive
      subst hj
      have hsl : g.ph.srcPh 0 = .live := by cases hm <;> simp_all
      have hslot : (k.slotted && !st.slot) = false := by
        cases hm with
        | m3 h1 h2 h3 h6 =>
          cases hks : k.slotted with
          | false => simp
          | true => simp [h3 hks]
        | _ => simp_all
      have hs0 := hsub (by simp [hsl])
      have := hT.sinkUp (hgr.2 (.inl hsl)) u
      exact finv_of k hr' hb 1 (by run) (by run) (by run)
    | srcGreet i =>
      simp only [legalIn, Bool.and_eq_true, beq_iff_eq] at hl
      have hi : i = 0 := by
        by_cases hi : i = 0
        · exact hi
        · rw [hoth i hi] at hl; simp at hl
      subst hi
      have hs0 := hsub (by simp [hl.1])
      have := hT.greet 0
      cases hks : k.slotted with
      | false => exact finv_of k hr' hb 2 (by run) (by run) (by run)
      | true => exact finv_of k hr' hb 2 (by run) (by run) (by run)
    | srcDown i d =>
      simp only [legalIn, Bool.and_eq_true, beq_iff_eq, Bool.or_eq_true] at hl
      obtain ⟨hlive, hctx⟩ := hl
      have hi : i = 0 := by
        by_cases hi : i = 0
        · exact hi
        · rw [hoth i hi] at hlive; cases hlive
      subst hi
      have hlt : answersOf 0 tr < pullsOut 0 tr := by
        simpa [pullable, pullableB] using hR
      have he : srcEnded 0 tr = false := by
        cases hh : srcEnded 0 tr with
        | false => rfl
        | true => rw [hend.1 hh] at hlive; cases hlive
      have hs0 := hsub (by simp [hlive])
      cases d with
      | data a =>
        cases hx : (k.xfer st.priv a).2 with
        | some b =>
          have := hT.dataSome hlt he a b
          exact finv_of k hr' hb 2 (by run) (by run) (by run)
        | none =>
          have hsl : st.slot = true := by
            cases hm with
            | m3 h1 h2 h3 h6 =>
              apply h3
              cases hks : k.slotted with
              | true => rfl
              | false => exact absurd hx (hk hks _ _)
            | _ => simp_all
          have := hT.dataNone hlt he a
          exact finv_of k hr' hb 2 (by run) (by run) (by run)
      | term =>
        have := hT.fin hlt .term (.term : Down β) (.inl rfl) (.inl rfl)
        exact finv_of k hr' hb 1 (by run) (by run) (by run)
      | err e =>
        have := hT.fin hlt (.err e) (.err e : Down β) (.inr ⟨e, rfl⟩) (.inr ⟨e, rfl⟩)
        exact finv_of k hr' hb 1 (by run) (by run) (by run)
  | @ret st stk g tr o l hl =>
    simp only at hp hbs hoth hoths hm hT hsub
    have hl_done : ∀ (_ : ∀ f ∈ Frame.wait o l :: stk, Benign f), l = .done ∧ ∀ f ∈ stk, Benign f := by
      intro h6
      have hben := h6 _ (List.mem_cons_self)
      refine ⟨?_, (List.forall_mem_cons.1 h6).2⟩
      cases l <;> simp_all [Benign]
    have hni : g.ph.srcPh 0 ≠ .idle := by
      cases hm with
      | m1 _ _ h => simp at h
      | _ => simp_all
    have hdone : l = .done ∧ ∀ f ∈ stk, Benign f := by
      cases hm with
      | m1 _ _ h => simp at h
      | m2 h1 h2 h5 =>
        simp at h5; obtain ⟨⟨rfl, rfl⟩, rfl⟩ := h5
        simp [legalRet, h2, machine] at hl
      | m3 h1 h2 h3 h6 => exact hl_done h6
      | m4 h1 h2 h6 => exact hl_done h6
      | m5 h1 h2 h6 => exact hl_done h6
    obtain ⟨rfl, hrest⟩ := hdone
    have hctx := ctx_isSome_of_benign hrest
    have hs0 := hsub hni
    have := hT.ret
    exact finv_of k hr' hb 1 (by simp [advance, opStep, machine, step, EnvTurn, hctx]) (by run) (by run)

/-- the strengthened invariant holds at every environment turn that is reachable under the pullable discipline -/
theorem finv_of_reach (k : Kind σ α β) (hk : k.slotted = false → ∀ s a, (k.xfer s a).2 ≠ none) :
    ∀ s, SReachR (machine k) pullable s → EnvTurn s → FInv k s := by
  intro s hs ht
  obtain ⟨n, hn⟩ := reach_runs_into_inv (machine k) pullable (FInv k) (finv_init k)
    (fun s h => (Relay.inv_turn k s h.2.1).1) (fun s s' m hi he hR => finv_step k hk s s' m hi he hR) s hs
  rwa [advance_of_envTurn ht] at hn

/-! ## the theorems -/

/-- C14 for the generic relay -/
theorem relay_demand {σ α β : Type} (k : Relay.Kind σ α β) (hk : k.slotted = false → ∀ s a, (k.xfer s a).2 ≠ none) :
    ∀ s, SReachR (Relay.machine k) pullable s → EnvTurn s → demandOk s.tr = true := by
  intro s hs ht
  obtain ⟨_, hinv, hT, hsub⟩ := finv_of_reach k hk s hs ht
  obtain ⟨hp, hv, hoth, hoths, hm⟩ := hinv
  have hfin := finalsTo_iff hs hv 0
  have hup := upFinals_iff hs hv 0
  have hdisp := sinkDisposed_iff hs 0
  have hgr := srcGreeted_iff hs 0
  have hend := srcEnded_iff hs 0
  simp only [demandOk, Bool.and_eq_true, decide_eq_true_eq]
  refine ⟨hT.dp, ?_⟩
  split
  · rename_i hc
    simp only [beq_iff_eq] at hc
    obtain ⟨hlt, hf0⟩ := hc
    have hng : (s.g.ph.srcPh 0 = .idle ∨ s.g.ph.srcPh 0 = .subscribed) → False := by
      intro hph
      have : srcGreeted 0 s.tr = false := by
        cases hh : srcGreeted 0 s.tr with
        | false => rfl
        | true => have := hgr.1 hh; rcases hph with h | h <;> simp [h] at this
      have := hT.p0 this
      omega
    cases hm with
    | m1 h1 h2 _ => exact (hng (.inl h2)).elim
    | m2 h1 h2 _ => exact (hng (.inr h2)).elim
    | m3 h1 h2 _ _ =>
      have he : srcEnded 0 s.tr = false := by
        cases hh : srcEnded 0 s.tr with
        | false => rfl
        | true => have := hend.1 hh; simp [h2] at this
      have hbal := hT.bal he
      have hau : answersOf 0 s.tr < pullsOut 0 s.tr := by omega
      have hu0 : upFinals 0 s.tr = 0 := by
        have h1' : upFinals 0 s.tr ≠ 1 := fun h => by have := hup.1.1 h; simp [h2] at this
        have := hup.2; omega
      have hmem := hsub (by simp [h2])
      simp only [Bool.or_eq_true]
      refine .inr (List.any_eq_true.2 ⟨0, hmem, ?_⟩)
      simp [liveTr, hgr.2 (.inl h2), he, hu0, hau]
    | m4 h1 h2 _ => simp [hdisp.2 h1]
    | m5 h1 h2 _ => have := hfin.1.2 h1; omega
  · rfl

theorem map_demand {α β : Type} (f : α → β) :
    ∀ s, SReachR (Relay.machine (Relay.map f)) pullable s → EnvTurn s → demandOk s.tr = true :=
  relay_demand (Relay.map f) (fun _ _ _ => by simp [Relay.map])

theorem filter_demand {α : Type} (p : α → Bool) :
    ∀ s, SReachR (Relay.machine (Relay.filter p)) pullable s → EnvTurn s → demandOk s.tr = true :=
  relay_demand (Relay.filter p) (fun h => by simp [Relay.filter] at h)

theorem scan_demand {α β : Type} (r : β → α → β) (seed : β) :
    ∀ s, SReachR (Relay.machine (Relay.scan r seed)) pullable s → EnvTurn s → demandOk s.tr = true :=
  relay_demand (Relay.scan r seed) (fun _ _ _ => by simp [Relay.scan])

theorem skip_demand {α : Type} (n : Nat) :
    ∀ s, SReachR (Relay.machine (Relay.skip (α := α) n)) pullable s → EnvTurn s → demandOk s.tr = true :=
  relay_demand (Relay.skip n) (fun h => by simp [Relay.skip] at h)

end Cb.RelayDemand

#print axioms Cb.RelayDemand.relay_demand
#print axioms Cb.RelayDemand.map_demand
#print axioms Cb.RelayDemand.filter_demand
#print axioms Cb.RelayDemand.scan_demand
#print axioms Cb.RelayDemand.skip_demand
