import CallbagModel.Inv.Flatten
import CallbagModel.Inv.TraceGhost
import CallbagModel.Spec
/-!
# flatten: the functional specification `flattenOk` (C11) holds on every trace of the model

`FInv s := SReach s ∧ Flatten.Inv s ∧ T s.tr s.st.nextId`: the phase-level invariant of `Inv/Flatten.lean` is reused as a black box
(determinism: environment turns are fixpoints of `advance`), `T` is what is needed about the trace.

Every macro-step conses exactly two events on the trace: `inp i` (or `retE`) and the first thing the handler (the
continuation) does, `respC st i` (`respR st l`): a call or a return.  All adjacency clauses of `flattenOk` therefore only
have to be checked for the pair (`inp i`, `respC st i`) with the trace of the environment turn as the past — where the
trace-level notions `activeInner`, `outerAlive` are linked to `st.inner`, `st.outer` through the mode `live` of the basic
invariant (`link`) — and are vacuous for the pairs (head of the old trace, `inp i`/`retE`) and (`retE`, `respR st l`).
-/
namespace Cb.FlattenFun
open Cb Cb.Flatten

variable {α : Type}

set_option linter.unusedSimpArgs false

abbrev Cfg (α : Type) := Sys St (Loc α) α α

/-! ## determinism glue -/

theorem advance_fix {St Loc α β : Type} (M : Machine St Loc α β) (s : Sys St Loc α β) (h : opStep M s = none) (n : Nat) :
    advance M n s = s := by
  cases n with
  | zero => rfl
  | succ n => simp [advance, h]

theorem advance_add {St Loc α β : Type} (M : Machine St Loc α β) (a b : Nat) (s : Sys St Loc α β) :
    advance M (a + b) s = advance M b (advance M a s) := by
  induction a generalizing s with
  | zero => simp [advance]
  | succ a ih =>
    rw [Nat.add_right_comm]
    simp only [advance]
    cases h : opStep M s with
    | none => simp [advance_fix M s h]
    | some s' => simp [ih]

theorem reach_advance {St Loc α β : Type} {M : Machine St Loc α β} {R : Restr St Loc α β} (n : Nat) {s : Sys St Loc α β}
    (h : SReachR M R s) : SReachR M R (advance M n s) := by
  induction n generalizing s with
  | zero => exact h
  | succ n ih =>
    simp only [advance]
    cases ho : opStep M s with
    | none => exact h
    | some s' => exact ih (.step h (.op ho))

/-- the configuration the basic invariant speaks about and the one computed explicitly coincide -/
theorem glue {s' : Cfg α} {P : Cfg α → Prop} (hb : ∃ n, Flatten.Inv (advance (machine α) n s'))
    (hr : ∃ n, EnvTurn (advance (machine α) n s') ∧ P (advance (machine α) n s')) :
    ∃ n, Flatten.Inv (advance (machine α) n s') ∧ P (advance (machine α) n s') := by
  obtain ⟨n1, h1⟩ := hb
  obtain ⟨n2, e2, h2⟩ := hr
  have e1 : EnvTurn (advance (machine α) n1 s') := (Flatten.inv_turn _ h1).1
  have heq : advance (machine α) n1 s' = advance (machine α) n2 s' := by
    have a := advance_add (machine α) n1 n2 s'
    have b := advance_add (machine α) n2 n1 s'
    rw [advance_of_envTurn e1] at a
    rw [advance_of_envTurn e2, Nat.add_comm] at b
    exact a.symm.trans b
  exact ⟨n2, heq ▸ h1, h2⟩

/-! ## what a handler does first -/

/-- the event that follows `inp i` -/
def respC (st : St) : In α → Ev α α
  | .subscribe _ => .out (.subSrc 0)
  | .sinkUp _ .pull => match st.inner with
    | some k => .out (.srcUp k .pull)
    | none => if st.outer then .out (.srcUp 0 .pull) else .retO
  | .sinkUp _ _ => match st.inner with
    | some k => .out (.srcUp k .term)
    | none => if st.outer then .out (.srcUp 0 .term) else .retO
  | .srcGreet 0 => .out (.greet 0)
  | .srcGreet (j+1) => .out (.srcUp (j+1) .pull)
  | .srcDown 0 (.data _) => match st.inner with
    | some k => .out (.srcUp k .term)
    | none => .out (.subSrc st.nextId)
  | .srcDown 0 (.err e) => match st.inner with
    | some k => .out (.srcUp k .term)
    | none => .out (.down 0 (.err e))
  | .srcDown 0 .term => if st.inner.isNone then .out (.down 0 .term) else .retO
  | .srcDown (_+1) (.data a) => .out (.down 0 (.data a))
  | .srcDown (_+1) (.err e) => if st.outer then .out (.srcUp 0 .term) else .out (.down 0 (.err e))
  | .srcDown (_+1) .term => if st.outer then .out (.srcUp 0 .pull) else .out (.down 0 .term)

/-- the counter after the first segment of the handler -/
def nextC (st : St) : In α → Nat
  | .srcDown 0 (.data _) => if st.inner.isNone then st.nextId + 1 else st.nextId
  | _ => st.nextId

@[simp] theorem ctxOf_wait {Loc β : Type} (o : Out β) (l : Loc) (r : List (Frame Loc β)) :
    ctxOf (.wait o l :: r) = some (.inCall o) := rfl

theorem run_call (st : St) (stk : List (Frame (Loc α) α)) (g : G) (tr : List (Ev α α)) (i : In α)
    (hc : (ctxOf stk).isSome) :
    ∃ n, EnvTurn (advance (machine α) n ⟨st, .run ((machine α).enter i) :: stk, g, tr, none⟩) ∧
      (advance (machine α) n ⟨st, .run ((machine α).enter i) :: stk, g, tr, none⟩).st.nextId = nextC st i ∧
      (advance (machine α) n ⟨st, .run ((machine α).enter i) :: stk, g, tr, none⟩).tr = respC st i :: tr := by
  cases i with
  | subscribe k => exact ⟨1, by simp [advance, opStep, machine, enter, step, EnvTurn, ctxOf_wait, respC, nextC]⟩
  | sinkUp k u =>
    cases u with
    | pull =>
      cases hin : st.inner with
      | some j => exact ⟨1, by simp [advance, opStep, machine, enter, step, EnvTurn, ctxOf_wait, respC, nextC, hin]⟩
      | none =>
        cases hout : st.outer with
        | true => exact ⟨2, by simp [advance, opStep, machine, enter, step, EnvTurn, ctxOf_wait, respC, nextC, hin, hout]⟩
        | false => exact ⟨2, by simp [advance, opStep, machine, enter, step, EnvTurn, ctxOf_wait, respC, nextC, hin, hout, hc]⟩
    | term | err _ =>
      cases hin : st.inner with
      | some j => exact ⟨1, by simp [advance, opStep, machine, enter, step, EnvTurn, ctxOf_wait, respC, nextC, hin]⟩
      | none =>
        cases hout : st.outer with
        | true => exact ⟨2, by simp [advance, opStep, machine, enter, step, EnvTurn, ctxOf_wait, respC, nextC, hin, hout]⟩
        | false => exact ⟨2, by simp [advance, opStep, machine, enter, step, EnvTurn, ctxOf_wait, respC, nextC, hin, hout, hc]⟩
  | srcGreet j =>
    cases j with
    | zero => exact ⟨2, by simp [advance, opStep, machine, enter, step, EnvTurn, ctxOf_wait, respC, nextC]⟩
    | succ j => exact ⟨2, by simp [advance, opStep, machine, enter, step, EnvTurn, ctxOf_wait, respC, nextC]⟩
  | srcDown j d =>
    cases j with
    | zero =>
      cases d with
      | data a =>
        cases hin : st.inner with
        | some k => exact ⟨1, by simp [advance, opStep, machine, enter, step, EnvTurn, ctxOf_wait, respC, nextC, hin]⟩
        | none => exact ⟨2, by simp [advance, opStep, machine, enter, step, EnvTurn, ctxOf_wait, respC, nextC, hin]⟩
      | term =>
        cases hin : st.inner with
        | some k => exact ⟨2, by simp [advance, opStep, machine, enter, step, EnvTurn, ctxOf_wait, respC, nextC, hin, hc]⟩
        | none => exact ⟨1, by simp [advance, opStep, machine, enter, step, EnvTurn, ctxOf_wait, respC, nextC, hin]⟩
      | err e =>
        cases hin : st.inner with
        | some k => exact ⟨1, by simp [advance, opStep, machine, enter, step, EnvTurn, ctxOf_wait, respC, nextC, hin]⟩
        | none => exact ⟨2, by simp [advance, opStep, machine, enter, step, EnvTurn, ctxOf_wait, respC, nextC, hin]⟩
    | succ j =>
      cases d with
      | data a => exact ⟨1, by simp [advance, opStep, machine, enter, step, EnvTurn, ctxOf_wait, respC, nextC]⟩
      | term =>
        cases hout : st.outer with
        | true => exact ⟨3, by simp [advance, opStep, machine, enter, step, EnvTurn, ctxOf_wait, respC, nextC, hout]⟩
        | false => exact ⟨1, by simp [advance, opStep, machine, enter, step, EnvTurn, ctxOf_wait, respC, nextC, hout]⟩
      | err e =>
        cases hout : st.outer with
        | true => exact ⟨1, by simp [advance, opStep, machine, enter, step, EnvTurn, ctxOf_wait, respC, nextC, hout]⟩
        | false => exact ⟨2, by simp [advance, opStep, machine, enter, step, EnvTurn, ctxOf_wait, respC, nextC, hout]⟩


/-- the event that follows `retE` when the continuation `l` resumes -/
def respR (st : St) : Loc α → Ev α α
  | .od1 => .out (.subSrc st.nextId)
  | .oe1 e => .out (.down 0 (.err e))
  | .ie1 e => .out (.down 0 (.err e))
  | .x1 => if st.outer then .out (.srcUp 0 .term) else .retO
  | _ => .retO

def nextR (st : St) : Loc α → Nat
  | .od1 => st.nextId + 1
  | _ => st.nextId

/-- the continuations that exist (`Benign` frames and the four named modes) -/
def Cont (l : Loc α) : Prop := l = .done ∨ l = .od1 ∨ (∃ e, l = .oe1 e) ∨ (∃ e, l = .ie1 e) ∨ l = .x1

theorem run_ret (st : St) (stk : List (Frame (Loc α) α)) (g : G) (tr : List (Ev α α)) (l : Loc α) (hl : Cont l)
    (hc : (ctxOf stk).isSome) :
    ∃ n, EnvTurn (advance (machine α) n ⟨st, .run l :: stk, g, tr, none⟩) ∧
      (advance (machine α) n ⟨st, .run l :: stk, g, tr, none⟩).st.nextId = nextR st l ∧
      (advance (machine α) n ⟨st, .run l :: stk, g, tr, none⟩).tr = respR st l :: tr := by
  rcases hl with rfl | rfl | ⟨e, rfl⟩ | ⟨e, rfl⟩ | rfl
  · exact ⟨1, by simp [advance, opStep, machine, step, EnvTurn, respR, nextR, hc]⟩
  · exact ⟨1, by simp [advance, opStep, machine, step, EnvTurn, respR, nextR]⟩
  · exact ⟨1, by simp [advance, opStep, machine, step, EnvTurn, respR, nextR]⟩
  · exact ⟨1, by simp [advance, opStep, machine, step, EnvTurn, respR, nextR]⟩
  · cases hout : st.outer with
    | true => exact ⟨1, by simp [advance, opStep, machine, step, EnvTurn, respR, nextR, hout]⟩
    | false => exact ⟨1, by simp [advance, opStep, machine, step, EnvTurn, respR, nextR, hout, hc]⟩

/-! ## the clauses of `flattenOk`, named -/

def chk1 (past : List (Ev α α)) (e1 e2 : Ev α α) : Bool :=
  match e1 with
  | .inp (.srcDown 0 (.data _)) =>
      (match activeInner past with
       | some k => (match e2 with | .out (.srcUp k' .term) => k' == k | _ => false)
       | none => (match e2 with | .out (.subSrc j) => j == ((subscriptions past).filter (· ≠ 0)).length + 1 | _ => false))
  | _ => true

def chk2 (_ : List (Ev α α)) (e1 e2 : Ev α α) : Bool :=
  match e1 with
  | .inp (.srcGreet (j+1)) => (match e2 with | .out (.srcUp j' .pull) => j' == j + 1 | _ => false)
  | _ => true

def chk3 (past : List (Ev α α)) (e1 e2 : Ev α α) : Bool :=
  if isDataOut 0 e2 then
    (match e1 with | .inp (.srcDown j (.data _)) => some j == activeInner past && j != 0 | _ => false) else true

def chk5 (past : List (Ev α α)) (e1 e2 : Ev α α) : Bool :=
  if isTermOut 0 e2 then
    (match e1 with
     | .inp (.srcDown 0 .term) => (activeInner past).isNone
     | .inp (.srcDown (j+1) .term) => some (j+1) == activeInner past && !outerAlive past
     | _ => false) else true

def chk6 (past : List (Ev α α)) (e1 e2 : Ev α α) : Bool :=
  match e1 with
  | .inp (.sinkUp 0 .pull) =>
      (match activeInner past with
       | some k => (match e2 with | .out (.srcUp k' .pull) => k' == k | _ => false)
       | none => if outerAlive past then (match e2 with | .out (.srcUp 0 .pull) => true | _ => false)
                 else (match e2 with | .retO => true | _ => false))
  | _ => true

def ChkAll (past : List (Ev α α)) (e1 e2 : Ev α α) : Prop :=
  chk1 past e1 e2 = true ∧ chk2 past e1 e2 = true ∧ chk3 past e1 e2 = true ∧ chk5 past e1 e2 = true ∧ chk6 past e1 e2 = true

def Adj (tr : List (Ev α α)) : Prop :=
  eachAtNext chk1 tr = true ∧ eachAtNext chk2 tr = true ∧ eachAtNext chk3 tr = true ∧ eachAtNext chk5 tr = true ∧
    eachAtNext chk6 tr = true

def DataOk (tr : List (Ev α α)) : Prop := recvData 0 tr = ((arrivals tr).filter (·.1 ≠ 0)).map (·.2)

/-- the newest event at an environment turn is never an `inp` -/
def HeadOk : List (Ev α α) → Prop
  | .inp _ :: _ => False
  | _ => True

/-- the inner sources subscribed so far are `1 … n-1`, in this order -/
def SubsOk (tr : List (Ev α α)) (n : Nat) : Prop := (subscriptions tr).filter (· ≠ 0) = List.range' 1 (n - 1)

/-- upstream `k` is over, as seen on the trace -/
def DeadTr (k : Nat) (tr : List (Ev α α)) : Prop := srcEnded k tr = true ∨ 0 < upFinals k tr

/-- every inner source but the newest is over -/
def OldDead (tr : List (Ev α α)) (n : Nat) : Prop := ∀ k, 0 < k → k + 1 < n → DeadTr k tr

structure T (tr : List (Ev α α)) (n : Nat) : Prop where
  head : HeadOk tr
  adj : Adj tr
  data : DataOk tr
  subs : SubsOk tr n
  old : OldDead tr n

/-! ## generic step lemmas -/

theorem eachAtNext_step (chk : List (Ev α α) → Ev α α → Ev α α → Bool) (tr : List (Ev α α)) (a b : Ev α α)
    (h : eachAtNext chk tr = true) (h0 : ∀ e0 t, tr = e0 :: t → chk t e0 a = true) (h1 : chk tr a b = true) :
    eachAtNext chk (b :: a :: tr) = true := by
  cases tr with
  | nil => simp [eachAtNext, h1]
  | cons e0 t =>
    rw [eachAtNext, eachAtNext, h1, h0 e0 t rfl, h]; rfl

/-- the pairs (newest event of an environment turn, `inp i` / `retE`) are vacuous -/
theorem chk_head {e0 a : Ev α α} (t : List (Ev α α)) (hh : HeadOk (e0 :: t)) (ha : a = .retE ∨ ∃ i, a = .inp i) :
    ChkAll t e0 a := by
  rcases ha with rfl | ⟨i, rfl⟩ <;> cases e0 <;>
    simp [HeadOk, ChkAll, chk1, chk2, chk3, chk5, chk6, isDataOut, isTermOut] at hh ⊢

theorem Adj.step {tr : List (Ev α α)} {a b : Ev α α} (h : Adj tr) (hh : HeadOk tr) (ha : a = .retE ∨ ∃ i, a = .inp i)
    (hc : ChkAll tr a b) : Adj (b :: a :: tr) := by
  obtain ⟨h1, h2, h3, h5, h6⟩ := h
  obtain ⟨c1, c2, c3, c5, c6⟩ := hc
  have hd : ∀ e0 t, tr = e0 :: t → ChkAll t e0 a := fun e0 t e => chk_head t (e ▸ hh) ha
  exact ⟨eachAtNext_step _ _ _ _ h1 (fun e0 t e => (hd e0 t e).1) c1,
    eachAtNext_step _ _ _ _ h2 (fun e0 t e => (hd e0 t e).2.1) c2,
    eachAtNext_step _ _ _ _ h3 (fun e0 t e => (hd e0 t e).2.2.1) c3,
    eachAtNext_step _ _ _ _ h5 (fun e0 t e => (hd e0 t e).2.2.2.1) c5,
    eachAtNext_step _ _ _ _ h6 (fun e0 t e => (hd e0 t e).2.2.2.2) c6⟩

theorem srcEnded_mono (k : Nat) (e : Ev α α) (tr : List (Ev α α)) (h : srcEnded k tr = true) : srcEnded k (e :: tr) = true := by
  cases e with
  | inp i =>
    cases i with
    | srcDown j d => cases d <;> simp [srcEnded, h]
    | _ => simpa [srcEnded] using h
  | _ => simpa [srcEnded] using h

theorem upFinals_mono (k : Nat) (e : Ev α α) (tr : List (Ev α α)) : upFinals k tr ≤ upFinals k (e :: tr) := by
  cases e with
  | out o =>
    cases o with
    | srcUp j u => cases u <;> simp [upFinals]
    | _ => simp [upFinals]
  | _ => simp [upFinals]

theorem DeadTr.cons {k : Nat} {tr : List (Ev α α)} (h : DeadTr k tr) (e : Ev α α) : DeadTr k (e :: tr) := by
  rcases h with h | h
  · exact Or.inl (srcEnded_mono k e tr h)
  · exact Or.inr (Nat.lt_of_lt_of_le h (upFinals_mono k e tr))

theorem OldDead.step {tr : List (Ev α α)} {n n' : Nat} (h : OldDead tr n) (a b : Ev α α)
    (hn : n' = n ∨ (n' = n + 1 ∧ (1 < n → DeadTr (n - 1) tr))) : OldDead (b :: a :: tr) n' := by
  intro k hk hlt
  rcases hn with rfl | ⟨rfl, hd⟩
  · exact ((h k hk hlt).cons a).cons b
  · by_cases hk' : k + 1 < n
    · exact ((h k hk hk').cons a).cons b
    · have : k = n - 1 := by omega
      subst this
      exact ((hd (by omega)).cons a).cons b


/-! ## the two events of a macro-step -/

def isLinkCall : In α → Bool
  | .sinkUp _ _ => true
  | .srcDown _ _ => true
  | _ => false

/-- the trace-level notions agree with the operator state (holds in mode `live`) -/
def Linked (st : St) (tr : List (Ev α α)) (i : In α) : Prop :=
  activeInner tr = st.inner ∧ outerAlive tr = st.outer ∧ ∀ j d, i = .srcDown (j+1) d → st.inner = some (j+1)

theorem chk_call (st : St) (tr : List (Ev α α)) (i : In α) (hL : isLinkCall i = true → Linked st tr i)
    (hS : ((subscriptions tr).filter (· ≠ 0)).length + 1 = st.nextId) : ChkAll tr (.inp i) (respC st i) := by
  cases i with
  | subscribe k => simp [ChkAll, chk1, chk2, chk3, chk5, chk6, respC, isDataOut, isTermOut]
  | srcGreet j => cases j <;> simp [ChkAll, chk1, chk2, chk3, chk5, chk6, respC, isDataOut, isTermOut]
  | sinkUp k u =>
    obtain ⟨hA, hO, _⟩ := hL rfl
    cases u <;> cases hin : st.inner <;> cases hout : st.outer <;> cases k <;>
      simp [ChkAll, chk1, chk2, chk3, chk5, chk6, respC, isDataOut, isTermOut, hA, hO, hin, hout]
  | srcDown j d =>
    obtain ⟨hA, hO, hcur⟩ := hL rfl
    cases j with
    | zero =>
      have hS' : st.nextId = ((subscriptions tr).filter (fun x => !decide (x = 0))).length + 1 := by simpa using hS.symm
      cases d <;> cases hin : st.inner <;> cases hout : st.outer <;>
        simp [ChkAll, chk1, chk2, chk3, chk5, chk6, respC, isDataOut, isTermOut, hA, hO, hin, hout, ← hS']
    | succ j =>
      have hin := hcur j d rfl
      cases d <;> cases hout : st.outer <;>
        simp [ChkAll, chk1, chk2, chk3, chk5, chk6, respC, isDataOut, isTermOut, hA, hO, hin, hout]

theorem chk_ret (st : St) (tr : List (Ev α α)) (l : Loc α) : ChkAll tr .retE (respR st l) := by
  cases l <;> (try cases hout : st.outer) <;>
    simp [ChkAll, chk1, chk2, chk3, chk5, chk6, respR, isDataOut, isTermOut, *]

theorem data_call (st : St) (tr : List (Ev α α)) (i : In α) (h : DataOk tr) : DataOk (respC st i :: .inp i :: tr) := by
  unfold DataOk at h ⊢
  cases i with
  | subscribe k => simpa [respC, recvData, arrivals] using h
  | srcGreet j => cases j <;> simpa [respC, recvData, arrivals] using h
  | sinkUp k u =>
    cases u <;> cases hin : st.inner <;> cases hout : st.outer <;> simpa [respC, recvData, arrivals, hin, hout] using h
  | srcDown j d =>
    cases j with
    | zero =>
      cases d <;> cases hin : st.inner <;> simpa [respC, recvData, arrivals, hin] using h
    | succ j =>
      cases d <;> cases hout : st.outer <;> simp [respC, recvData, arrivals, hout, h]

theorem data_ret (st : St) (tr : List (Ev α α)) (l : Loc α) (h : DataOk tr) : DataOk (respR st l :: .retE :: tr) := by
  unfold DataOk at h ⊢
  cases l <;> (try cases hout : st.outer) <;> simp [respR, recvData, arrivals, *]

theorem subsOk_bump {tr : List (Ev α α)} {n : Nat} (a : Ev α α) (ha : a = .retE ∨ ∃ i, a = .inp i) (hn : 0 < n)
    (h : SubsOk tr n) : SubsOk (.out (.subSrc n) :: a :: tr) (n + 1) := by
  unfold SubsOk at h ⊢
  obtain ⟨m, rfl⟩ : ∃ m, n = m + 1 := ⟨n - 1, by omega⟩
  have : subscriptions (a :: tr) = subscriptions tr := by rcases ha with rfl | ⟨i, rfl⟩ <;> simp [subscriptions]
  simp only [subscriptions, this, List.filter_append, h]
  simp [List.range'_concat, Nat.add_comm]

theorem subs_call (st : St) (tr : List (Ev α α)) (i : In α) (hn : 0 < st.nextId) (h : SubsOk tr st.nextId) :
    SubsOk (respC st i :: .inp i :: tr) (nextC st i) := by
  cases i with
  | subscribe k => simpa [SubsOk, respC, nextC, subscriptions] using h
  | srcGreet j => cases j <;> simpa [SubsOk, respC, nextC, subscriptions] using h
  | sinkUp k u =>
    cases u <;> cases hin : st.inner <;> cases hout : st.outer <;> simpa [SubsOk, respC, nextC, subscriptions, hin, hout] using h
  | srcDown j d =>
    cases j with
    | zero =>
      cases d with
      | data a =>
        cases hin : st.inner with
        | some k => simpa [SubsOk, respC, nextC, subscriptions, hin] using h
        | none => simpa [respC, nextC, hin] using subsOk_bump (.inp (.srcDown 0 (.data a))) (.inr ⟨_, rfl⟩) hn h
      | term => cases hin : st.inner <;> simpa [SubsOk, respC, nextC, subscriptions, hin] using h
      | err e => cases hin : st.inner <;> simpa [SubsOk, respC, nextC, subscriptions, hin] using h
    | succ j =>
      cases d <;> cases hout : st.outer <;> simpa [SubsOk, respC, nextC, subscriptions, hout] using h

theorem subs_ret (st : St) (tr : List (Ev α α)) (l : Loc α) (hn : 0 < st.nextId) (h : SubsOk tr st.nextId) :
    SubsOk (respR st l :: .retE :: tr) (nextR st l) := by
  cases l with
  | od1 => simpa [respR, nextR] using subsOk_bump .retE (.inl rfl) hn h
  | x1 => cases hout : st.outer <;> simpa [SubsOk, respR, nextR, subscriptions, hout] using h
  | _ => simpa [SubsOk, respR, nextR, subscriptions] using h

theorem respC_notInp (st : St) (i : In α) (tr : List (Ev α α)) : HeadOk (respC st i :: tr) := by
  cases i with
  | subscribe k => simp [HeadOk, respC]
  | srcGreet j => cases j <;> simp [HeadOk, respC]
  | sinkUp k u => cases u <;> cases hin : st.inner <;> cases hout : st.outer <;> simp [HeadOk, respC, hin, hout]
  | srcDown j d =>
    cases j <;> cases d <;> cases hin : st.inner <;> cases hout : st.outer <;> simp [HeadOk, respC, hin, hout]

theorem respR_notInp (st : St) (l : Loc α) (tr : List (Ev α α)) : HeadOk (respR st l :: tr) := by
  cases l <;> (try cases hout : st.outer) <;> simp [HeadOk, respR, *]

/-! ## linking the trace to the operator state -/

theorem alive_iff {ph : Ph} {tr : List (Ev α α)} (hG : TGp ph tr) (hv : ph.viols = []) (j : Nat) :
    (srcGreeted j tr && !srcEnded j tr && upFinals j tr == 0) = true ↔ ph.srcPh j = .live := by
  have h1 := hG.greeted j
  have h2 := hG.ended j
  have h3 := hG.up hv j
  cases h : ph.srcPh j <;> simp_all

theorem deadTr_of_dead {ph : Ph} {tr : List (Ev α α)} (hG : TGp ph tr) (hv : ph.viols = []) {j : Nat} (h : Dead ph j) :
    DeadTr j tr := by
  rcases h with h | h
  · exact Or.inl ((hG.ended j).2 h)
  · right; rw [hG.up hv j, h]; simp

theorem not_live_of_deadTr {ph : Ph} {tr : List (Ev α α)} (hG : TGp ph tr) (hv : ph.viols = []) {j : Nat} (h : DeadTr j tr) :
    ph.srcPh j ≠ .live := by
  intro hl
  rcases h with h | h
  · have := (hG.ended j).1 h; rw [hl] at this; cases this
  · rw [hG.up hv j, hl] at h; simp at h

theorem link {st : St} {ph : Ph} {tr : List (Ev α α)} (hG : TGp ph tr) (hv : ph.viols = [])
    (h2 : OuterOk st.outer ph) (h3 : ∀ k, st.inner = some k → 0 < k ∧ k < st.nextId ∧ ph.srcPh k = .live)
    (h4 : ∀ i, 0 < i → i < st.nextId → st.inner ≠ some i → Dead ph i)
    (hS : SubsOk tr st.nextId) (hO : OldDead tr st.nextId) : activeInner tr = st.inner ∧ outerAlive tr = st.outer := by
  constructor
  · unfold activeInner
    rw [hS, List.getLast?_range']
    cases hin : st.inner with
    | none =>
      by_cases hn : st.nextId - 1 = 0
      · simp [hn]
      · have hd := h4 (st.nextId - 1) (by omega) (by omega) (by simp [hin])
        have hnl : ph.srcPh (1 + (st.nextId - 1) - 1) ≠ .live := by
          rw [show 1 + (st.nextId - 1) - 1 = st.nextId - 1 by omega]
          rcases hd with hd | hd <;> simp [hd]
        have := mt (alive_iff hG hv (1 + (st.nextId - 1) - 1)).1 hnl
        simp only [hn, ↓reduceIte]
        rw [if_neg this]
    | some k =>
      obtain ⟨hk0, hkn, hkl⟩ := h3 k hin
      have hk : k + 1 = st.nextId := by
        apply Classical.byContradiction
        intro hne
        exact not_live_of_deadTr hG hv (hO k hk0 (by omega)) hkl
      have hn : ¬ st.nextId - 1 = 0 := by omega
      have he : 1 + (st.nextId - 1) - 1 = k := by omega
      simp only [hn, ↓reduceIte, he]
      rw [if_pos ((alive_iff hG hv k).2 hkl)]
  · unfold outerAlive
    cases hout : st.outer with
    | true => exact (alive_iff hG hv 0).2 (h2.1 hout)
    | false =>
      have hnl : ph.srcPh 0 ≠ .live := by rcases h2.2 hout with hd | hd <;> simp [hd]
      exact Bool.eq_false_iff.2 (mt (alive_iff hG hv 0).1 hnl)

/-- sinks and live upstreams can only call in mode `live` -/
theorem live_of_legal {st : St} {stk : List (Frame (Loc α) α)} {g : G} {tr : List (Ev α α)} {c : Ctx α} {i : In α}
    (hI : Flatten.Inv (⟨st, stk, g, tr, none⟩ : Cfg α)) (hc : ctxOf stk = some c)
    (hl : legalIn (machine α).shape g.ph c i = true) (hi : isLinkCall i = true) :
    OuterOk st.outer g.ph ∧ (∀ k, st.inner = some k → 0 < k ∧ k < st.nextId ∧ g.ph.srcPh k = .live) ∧
      (∀ i, 0 < i → i < st.nextId → st.inner ≠ some i → Dead g.ph i) ∧
      (∀ j d, i = .srcDown (j+1) d → st.inner = some (j+1)) := by
  obtain ⟨hp, hb, hpos, hidle, hoths, hm⟩ := hI
  simp only at hp hb hpos hidle hoths hm
  cases i with
  | subscribe k => simp [isLinkCall] at hi
  | srcGreet j => simp [isLinkCall] at hi
  | sinkUp k u =>
    simp only [legalIn, Bool.and_eq_true, beq_iff_eq, Bool.or_eq_true] at hl
    obtain ⟨hlive, hctx⟩ := hl
    have hk : k = 0 := by
      by_cases hk : k = 0
      · exact hk
      · rw [hoths k hk] at hlive; cases hlive
    subst hk
    cases hm with
    | live h1 h2 h3 h4 h5 => exact ⟨h2, h3, h4, fun j d h => by cases h⟩
    | wgreet j _ _ _ _ _ _ h => noctx h
    | od1 k _ _ _ h => noctx h
    | oe1 k e _ _ h => noctx h
    | ie1 e _ _ h => noctx h
    | _ => simp_all
  | srcDown i d =>
    simp only [legalIn, Bool.and_eq_true, beq_iff_eq, Bool.or_eq_true] at hl
    obtain ⟨hlive, hctx⟩ := hl
    cases hm with
    | init h1 h2 h3 h4 h5 h6 =>
      by_cases hi : i = 0
      · subst hi; simp [h2] at hlive
      · simp [hidle i (by omega)] at hlive
    | sub h1 h2 h3 h4 h5 h6 =>
      by_cases hi : i = 0
      · subst hi; simp [h2] at hlive
      · simp [hidle i (by omega)] at hlive
    | live h1 h2 h3 h4 h5 =>
      refine ⟨h2, h3, h4, fun j d' h => ?_⟩
      cases h
      by_cases hcur : st.inner = some (j+1)
      · exact hcur
      · exact absurd hlive (off_inner hidle h4 (j+1) (by omega) hcur).1
    | wgreet j h1 h2 h3 h4 h5 h6 h7 =>
      obtain ⟨rest, rfl, hrest⟩ := h7
      simp [ctxOf] at hc; subst hc; simp [isTop, inSub, inPull] at hctx; subst hctx
      simp [h5] at hlive
    | od1 k _ _ _ h => noctx h
    | oe1 k e _ _ h => noctx h
    | ie1 e _ _ h => noctx h
    | x1 k _ _ _ h => noctx h
    | fin _ h _ => exact absurd hlive (h i).1

/-- the continuation on top of the stack is one of those that exist -/
theorem cont_of_inv {st : St} {stk : List (Frame (Loc α) α)} {g : G} {tr : List (Ev α α)} {o : Out α} {l : Loc α}
    (hI : Flatten.Inv (⟨st, .wait o l :: stk, g, tr, none⟩ : Cfg α)) : Cont l ∧ (ctxOf stk).isSome := by
  obtain ⟨_, _, _, _, _, hm⟩ := hI
  simp only at hm
  have hb : ∀ {f : Frame (Loc α) α} {r}, (∀ f' ∈ f :: r, Benign f') → (ctxOf r).isSome :=
    fun h => ctx_isSome_of_benign (List.forall_mem_cons.1 h).2
  have hben : (∀ f ∈ (Frame.wait o l :: stk), Benign f) → Cont l := by
    intro h
    have := h _ List.mem_cons_self
    cases l <;> simp [Benign] at this
    exact Or.inl rfl
  cases hm with
  | init _ _ h => simp at h
  | sub _ _ h => simp at h; obtain ⟨⟨rfl, rfl⟩, rfl⟩ := h; exact ⟨Or.inl rfl, by simp [ctxOf]⟩
  | live _ _ _ _ h => exact ⟨hben h, hb h⟩
  | wgreet j _ _ _ _ _ _ h =>
    obtain ⟨rest, he, hrest⟩ := h; simp at he; obtain ⟨⟨rfl, rfl⟩, rfl⟩ := he
    exact ⟨Or.inl rfl, ctx_isSome_of_benign hrest⟩
  | od1 k _ _ _ h =>
    obtain ⟨rest, he, hrest⟩ := h; simp at he; obtain ⟨⟨rfl, rfl⟩, rfl⟩ := he
    exact ⟨Or.inr (Or.inl rfl), ctx_isSome_of_benign hrest⟩
  | oe1 k e _ _ h =>
    obtain ⟨rest, he, hrest⟩ := h; simp at he; obtain ⟨⟨rfl, rfl⟩, rfl⟩ := he
    exact ⟨Or.inr (Or.inr (Or.inl ⟨_, rfl⟩)), ctx_isSome_of_benign hrest⟩
  | ie1 e _ _ h =>
    obtain ⟨rest, he, hrest⟩ := h; simp at he; obtain ⟨⟨rfl, rfl⟩, rfl⟩ := he
    exact ⟨Or.inr (Or.inr (Or.inr (Or.inl ⟨_, rfl⟩))), ctx_isSome_of_benign hrest⟩
  | x1 k _ _ _ h =>
    obtain ⟨rest, he, hrest⟩ := h; simp at he; obtain ⟨⟨rfl, rfl⟩, rfl⟩ := he
    exact ⟨Or.inr (Or.inr (Or.inr (Or.inr rfl))), ctx_isSome_of_benign hrest⟩
  | fin _ _ h => exact ⟨hben h, hb h⟩

/-- when the continuation `od1` resumes, every inner source seen so far is over -/
theorem dead_of_od1 {st : St} {stk : List (Frame (Loc α) α)} {g : G} {tr : List (Ev α α)} {o : Out α}
    (hI : Flatten.Inv (⟨st, .wait o .od1 :: stk, g, tr, none⟩ : Cfg α)) : ∀ i, 0 < i → i < st.nextId → Dead g.ph i := by
  obtain ⟨_, _, _, _, _, hm⟩ := hI
  simp only at hm
  have hben : (∀ f ∈ (Frame.wait o (Loc.od1 : Loc α) :: stk), Benign f) → False := by
    intro h
    have := h _ List.mem_cons_self
    simp [Benign] at this
  cases hm with
  | init _ _ h => simp at h
  | sub _ _ h => simp at h
  | live _ _ _ _ h => exact (hben h).elim
  | wgreet j _ _ _ _ _ _ h => obtain ⟨rest, he, hrest⟩ := h; simp at he
  | od1 k _ _ h3 h => exact h3
  | oe1 k e _ _ h => obtain ⟨rest, he, hrest⟩ := h; simp at he
  | ie1 e _ _ h => obtain ⟨rest, he, hrest⟩ := h; simp at he
  | x1 k _ _ _ h => obtain ⟨rest, he, hrest⟩ := h; simp at he
  | fin _ _ h => exact (hben h).elim

theorem flattenOk_of {α : Type} [DecidableEq α] {tr : List (Ev α α)} (h : Adj tr) (hd : DataOk tr) : flattenOk tr = true := by
  obtain ⟨h1, h2, h3, h5, h6⟩ := h
  have hd' : (recvData 0 tr == ((arrivals tr).filter (·.1 ≠ 0)).map (·.2)) = true := by rw [beq_iff_eq]; exact hd
  unfold flattenOk
  simp only [Bool.and_eq_true]
  exact ⟨⟨⟨⟨⟨h1, h2⟩, h3⟩, hd'⟩, h5⟩, h6⟩


/-! ## the invariant -/

def FInv (s : Cfg α) : Prop := SReach (machine α) s ∧ Flatten.Inv s ∧ T s.tr s.st.nextId

theorem finv_init : FInv (Sys.init (machine α) : Cfg α) := by
  refine ⟨.init, inv_init, ⟨trivial, ⟨rfl, rfl, rfl, rfl, rfl⟩, rfl, ?_, ?_⟩⟩
  · simp [SubsOk, Sys.init, machine, subscriptions]
  · intro k hk hlt; simp [Sys.init, machine] at hlt

theorem nextC_cases (st : St) (i : In α) :
    nextC st i = st.nextId ∨ (nextC st i = st.nextId + 1 ∧ st.inner = none ∧ ∃ a, i = .srcDown 0 (.data a)) := by
  cases i with
  | srcDown j d =>
    cases j with
    | zero =>
      cases d with
      | data a =>
        cases hin : st.inner with
        | none => exact Or.inr ⟨by simp [nextC, hin], rfl, a, rfl⟩
        | some k => exact Or.inl (by simp [nextC, hin])
      | _ => exact Or.inl rfl
    | succ j => cases d <;> exact Or.inl rfl
  | sinkUp k u => cases u <;> exact Or.inl rfl
  | _ => exact Or.inl rfl

theorem finv_step (s s' : Cfg α) (m : Move α) (h : FInv s) (hs : EnvStep (machine α) m s s') :
    ∃ n, FInv (advance (machine α) n s') := by
  obtain ⟨hR, hI, hT⟩ := h
  have hb := Flatten.inv_step s s' m hI hs
  have hR' : SReach (machine α) s' := .step hR (.env hs trivial)
  have hG := (TG.of_reach hR).ph
  have hv := hI.2.1
  have hpos := hI.2.2.1
  cases hs with
  | @call st stk g tr c i hc hl =>
    simp only at hT hG hv hpos
    obtain ⟨n, hI', hn, htr⟩ := glue (P := fun s2 => s2.st.nextId = nextC st i ∧ s2.tr = respC st i :: .inp i :: tr) hb
      (run_call st stk _ (.inp i :: tr) i (by simp [hc]))
    refine ⟨n, reach_advance n hR', hI', ?_⟩
    rw [hn, htr]
    have hL : isLinkCall i = true → Linked st tr i := by
      intro hi
      obtain ⟨h2, h3, h4, hcur⟩ := live_of_legal hI hc hl hi
      obtain ⟨hA, hO⟩ := link hG hv h2 h3 h4 hT.subs hT.old
      exact ⟨hA, hO, hcur⟩
    have hlen : ((subscriptions tr).filter (· ≠ 0)).length + 1 = st.nextId := by
      rw [hT.subs, List.length_range']; omega
    refine ⟨respC_notInp st i _, hT.adj.step hT.head (.inr ⟨i, rfl⟩) (chk_call st tr i hL hlen), data_call st tr i hT.data,
      subs_call st tr i hpos hT.subs, hT.old.step _ _ ?_⟩
    rcases nextC_cases st i with h | ⟨h, hin, a, rfl⟩
    · exact Or.inl h
    · refine Or.inr ⟨h, fun h1 => ?_⟩
      obtain ⟨h2, h3, h4, hcur⟩ := live_of_legal hI hc hl rfl
      exact deadTr_of_dead hG hv (h4 (st.nextId - 1) (by omega) (by omega) (by simp [hin]))
  | @ret st stk g tr o l hl =>
    simp only at hT hG hv hpos
    obtain ⟨hcont, hctx⟩ := cont_of_inv hI
    obtain ⟨n, hI', hn, htr⟩ := glue (P := fun s2 => s2.st.nextId = nextR st l ∧ s2.tr = respR st l :: .retE :: tr) hb
      (run_ret st stk _ (.retE :: tr) l hcont hctx)
    refine ⟨n, reach_advance n hR', hI', ?_⟩
    rw [hn, htr]
    refine ⟨respR_notInp st l _, hT.adj.step hT.head (.inl rfl) (chk_ret st tr l), data_ret st tr l hT.data,
      subs_ret st tr l hpos hT.subs, hT.old.step _ _ ?_⟩
    rcases hcont with rfl | rfl | ⟨e, rfl⟩ | ⟨e, rfl⟩ | rfl
    · exact Or.inl rfl
    · exact Or.inr ⟨rfl, fun h1 => deadTr_of_dead hG hv (dead_of_od1 hI (st.nextId - 1) (by omega) (by omega))⟩
    · exact Or.inl rfl
    · exact Or.inl rfl
    · exact Or.inl rfl

/-- C11: at every reachable configuration where the environment has control, the trace satisfies `flattenOk` -/
theorem flatten_spec {α : Type} [DecidableEq α] :
    ∀ s, SReach (Flatten.machine α) s → EnvTurn s → flattenOk s.tr = true := by
  intro s hs ht
  obtain ⟨n, hn⟩ := reach_runs_into_inv (machine α) anyEnv FInv finv_init (fun s h => (Flatten.inv_turn s h.2.1).1)
    (fun s s' m hi he _ => finv_step s s' m hi he) s hs
  rw [advance_of_envTurn ht] at hn
  exact flattenOk_of hn.2.2.adj hn.2.2.data

end Cb.FlattenFun

#print axioms Cb.FlattenFun.flatten_spec
