import CallbagModel.Fun.Flatten
import CallbagModel.Spec14
/-!
# flatten: demand conservation (C14) — `demandOk` holds at every environment turn under the `pullable` discipline

`FInv s := SReachR pullable s ∧ FlattenFun.FInv s ∧ T14 s`: the C11 invariant of `Fun/Flatten.lean` (which contains the
phase-level invariant of `Inv/Flatten.lean`) is reused as a black box through determinism of `advance`; `T14` is the counting.

With `P = pullsIn 0 tr`, `D = |recvData 0 tr|`: the sink sends at most one Pull per message (`P ≤ D + 1`), so at most one Pull
is owed at any time, and it is held by exactly one level: the active inner `k` (`pullsOut k + D = answersOf k + P`, and the
outer owes nothing), else the outer (`pullsOut 0 + D = answersOf 0 + P`), or by the greeting of the inner just subscribed
(`P = D + 1`, the outer owes nothing).  As a consequence, under `pullable` the outer can neither deliver a new inner nor end
while an inner is active (it owes nothing then): the continuations `od1`/`oe1 e` with a live inner never run.
-/
namespace Cb.FlattenDemand
open Cb Cb.Flatten Cb.FlattenFun

variable {α : Type}

set_option linter.unusedSimpArgs false

/-! ## the configuration at the next environment turn, explicitly -/

/-- operator state after the first segment of the handler -/
def stC (st : St) : In α → St
  | .srcGreet 0 => { st with outer := true }
  | .srcGreet (j+1) => { st with inner := some (j+1) }
  | .srcDown 0 (.data _) => match st.inner with
    | some _ => st
    | none => { st with nextId := st.nextId + 1 }
  | .srcDown 0 .term => match st.inner with
    | some _ => { st with outer := false }
    | none => st
  | .srcDown (_+1) .term => if st.outer then { st with inner := none } else st
  | _ => st

/-- the continuation left on the stack by the first call of the handler -/
def contC (st : St) : In α → Loc α
  | .sinkUp _ .pull => .done
  | .sinkUp _ _ => match st.inner with
    | some _ => .x1
    | none => .done
  | .srcDown 0 (.data _) => match st.inner with
    | some _ => .od1
    | none => .done
  | .srcDown 0 (.err e) => match st.inner with
    | some _ => .oe1 e
    | none => .done
  | .srcDown (_+1) (.err e) => if st.outer then .ie1 e else .done
  | _ => .done

def stkC (st : St) (i : In α) (stk : List (Frame (Loc α) α)) : List (Frame (Loc α) α) :=
  match respC st i with
  | .out o => .wait o (contC st i) :: stk
  | _ => stk

theorem run_call2 (st : St) (stk : List (Frame (Loc α) α)) (g : G) (tr : List (Ev α α)) (i : In α)
    (hc : (ctxOf stk).isSome) :
    ∃ n, EnvTurn (advance (machine α) n ⟨st, .run ((machine α).enter i) :: stk, g, tr, none⟩) ∧
      (advance (machine α) n ⟨st, .run ((machine α).enter i) :: stk, g, tr, none⟩).st = stC st i ∧
      (advance (machine α) n ⟨st, .run ((machine α).enter i) :: stk, g, tr, none⟩).stack = stkC st i stk ∧
      (advance (machine α) n ⟨st, .run ((machine α).enter i) :: stk, g, tr, none⟩).tr = respC st i :: tr := by
  cases i with
  | subscribe k => exact ⟨1, by simp [advance, opStep, machine, enter, step, EnvTurn, ctxOf_wait, respC, stC, contC, stkC]⟩
  | sinkUp k u =>
    cases u with
    | pull =>
      cases hin : st.inner with
      | some j => exact ⟨1, by simp [advance, opStep, machine, enter, step, EnvTurn, ctxOf_wait, respC, stC, contC, stkC, hin]⟩
      | none =>
        cases hout : st.outer with
        | true => exact ⟨2, by simp [advance, opStep, machine, enter, step, EnvTurn, ctxOf_wait, respC, stC, contC, stkC, hin, hout]⟩
        | false => exact ⟨2, by simp [advance, opStep, machine, enter, step, EnvTurn, ctxOf_wait, respC, stC, contC, stkC, hin, hout, hc]⟩
    | term | err _ =>
      cases hin : st.inner with
      | some j => exact ⟨1, by simp [advance, opStep, machine, enter, step, EnvTurn, ctxOf_wait, respC, stC, contC, stkC, hin]⟩
      | none =>
        cases hout : st.outer with
        | true => exact ⟨2, by simp [advance, opStep, machine, enter, step, EnvTurn, ctxOf_wait, respC, stC, contC, stkC, hin, hout]⟩
        | false => exact ⟨2, by simp [advance, opStep, machine, enter, step, EnvTurn, ctxOf_wait, respC, stC, contC, stkC, hin, hout, hc]⟩
  | srcGreet j =>
    cases j with
    | zero => exact ⟨2, by simp [advance, opStep, machine, enter, step, EnvTurn, ctxOf_wait, respC, stC, contC, stkC]⟩
    | succ j => exact ⟨2, by simp [advance, opStep, machine, enter, step, EnvTurn, ctxOf_wait, respC, stC, contC, stkC]⟩
  | srcDown j d =>
    cases j with
    | zero =>
      cases d with
      | data a =>
        cases hin : st.inner with
        | some k => exact ⟨1, by simp [advance, opStep, machine, enter, step, EnvTurn, ctxOf_wait, respC, stC, contC, stkC, hin]⟩
        | none => exact ⟨2, by simp [advance, opStep, machine, enter, step, EnvTurn, ctxOf_wait, respC, stC, contC, stkC, hin]⟩
      | term =>
        cases hin : st.inner with
        | some k => exact ⟨2, by simp [advance, opStep, machine, enter, step, EnvTurn, ctxOf_wait, respC, stC, contC, stkC, hin, hc]⟩
        | none => exact ⟨1, by simp [advance, opStep, machine, enter, step, EnvTurn, ctxOf_wait, respC, stC, contC, stkC, hin]⟩
      | err e =>
        cases hin : st.inner with
        | some k => exact ⟨1, by simp [advance, opStep, machine, enter, step, EnvTurn, ctxOf_wait, respC, stC, contC, stkC, hin]⟩
        | none => exact ⟨2, by simp [advance, opStep, machine, enter, step, EnvTurn, ctxOf_wait, respC, stC, contC, stkC, hin]⟩
    | succ j =>
      cases d with
      | data a => exact ⟨1, by simp [advance, opStep, machine, enter, step, EnvTurn, ctxOf_wait, respC, stC, contC, stkC]⟩
      | term =>
        cases hout : st.outer with
        | true => exact ⟨3, by simp [advance, opStep, machine, enter, step, EnvTurn, ctxOf_wait, respC, stC, contC, stkC, hout]⟩
        | false => exact ⟨1, by simp [advance, opStep, machine, enter, step, EnvTurn, ctxOf_wait, respC, stC, contC, stkC, hout]⟩
      | err e =>
        cases hout : st.outer with
        | true => exact ⟨1, by simp [advance, opStep, machine, enter, step, EnvTurn, ctxOf_wait, respC, stC, contC, stkC, hout]⟩
        | false => exact ⟨2, by simp [advance, opStep, machine, enter, step, EnvTurn, ctxOf_wait, respC, stC, contC, stkC, hout]⟩

def stR (st : St) : Loc α → St
  | .od1 => { st with nextId := st.nextId + 1 }
  | _ => st

def stkR (st : St) (l : Loc α) (stk : List (Frame (Loc α) α)) : List (Frame (Loc α) α) :=
  match respR st l with
  | .out o => .wait o .done :: stk
  | _ => stk

theorem run_ret2 (st : St) (stk : List (Frame (Loc α) α)) (g : G) (tr : List (Ev α α)) (l : Loc α) (hl : Cont l)
    (hc : (ctxOf stk).isSome) :
    ∃ n, EnvTurn (advance (machine α) n ⟨st, .run l :: stk, g, tr, none⟩) ∧
      (advance (machine α) n ⟨st, .run l :: stk, g, tr, none⟩).st = stR st l ∧
      (advance (machine α) n ⟨st, .run l :: stk, g, tr, none⟩).stack = stkR st l stk ∧
      (advance (machine α) n ⟨st, .run l :: stk, g, tr, none⟩).tr = respR st l :: tr := by
  rcases hl with rfl | rfl | ⟨e, rfl⟩ | ⟨e, rfl⟩ | rfl
  · exact ⟨1, by simp [advance, opStep, machine, step, EnvTurn, respR, stR, stkR, hc]⟩
  · exact ⟨1, by simp [advance, opStep, machine, step, EnvTurn, respR, stR, stkR]⟩
  · exact ⟨1, by simp [advance, opStep, machine, step, EnvTurn, respR, stR, stkR]⟩
  · exact ⟨1, by simp [advance, opStep, machine, step, EnvTurn, respR, stR, stkR]⟩
  · cases hout : st.outer with
    | true => exact ⟨1, by simp [advance, opStep, machine, step, EnvTurn, respR, stR, stkR, hout]⟩
    | false => exact ⟨1, by simp [advance, opStep, machine, step, EnvTurn, respR, stR, stkR, hout, hc]⟩

/-! ## the counting invariant -/

/-- the output is open and the outer source has greeted -/
def G3 (tr : List (Ev α α)) : Prop := finalsTo 0 tr = 0 ∧ sinkDisposed 0 tr = false ∧ srcGreeted 0 tr = true

/-- the demand is held by the active inner source, else by the outer one -/
def LiveC (st : St) (tr : List (Ev α α)) : Prop :=
  match st.inner with
  | some k => pullsOut k tr + (recvData 0 tr).length = answersOf k tr + pullsIn 0 tr ∧ answersOf 0 tr = pullsOut 0 tr
  | none => pullsOut 0 tr + (recvData 0 tr).length = answersOf 0 tr + pullsIn 0 tr

/-- the demand is held by the greeting of the inner source just subscribed -/
def WG (tr : List (Ev α α)) : Prop :=
  pullsIn 0 tr = (recvData 0 tr).length + 1 ∧ answersOf 0 tr = pullsOut 0 tr

def Cnt (st : St) (tr : List (Ev α α)) : Prop :=
  if 1 < st.nextId ∧ srcGreeted (st.nextId - 1) tr = false then WG tr else LiveC st tr

/-- the continuations that switch away from a live inner source never run under `pullable` -/
def NoSw : List (Frame (Loc α) α) → Prop
  | .wait _ .od1 :: _ => False
  | .wait _ (.oe1 _) :: _ => False
  | _ => True

structure TC (st : St) (stk : List (Frame (Loc α) α)) (tr : List (Ev α α)) : Prop where
  noSw : NoSw stk
  ansLe : ∀ i, answersOf i tr ≤ pullsOut i tr
  pLeQ : pullsIn 0 tr ≤ promptsTo 0 tr
  qOk : promptsTo 0 tr = (recvData 0 tr).length + (if srcGreeted 0 tr = true then 1 else 0)
  dLeP : (recvData 0 tr).length ≤ pullsIn 0 tr
  fresh : ∀ i, srcGreeted i tr = false → pullsOut i tr = 0
  outerT : G3 tr → st.outer = true
  cnt : G3 tr → upFinals 0 tr = 0 → Cnt st tr

/-! ### monotone projections -/

theorem finalsTo_mono (k : Nat) (e : Ev α α) (tr : List (Ev α α)) : finalsTo k tr ≤ finalsTo k (e :: tr) := by
  cases e with
  | out o =>
    cases o with
    | down j d => cases d <;> simp [finalsTo]
    | _ => simp [finalsTo]
  | _ => simp [finalsTo]

theorem sinkDisposed_mono (k : Nat) (e : Ev α α) (tr : List (Ev α α)) (h : sinkDisposed k tr = true) :
    sinkDisposed k (e :: tr) = true := by
  cases e with
  | inp i =>
    cases i with
    | sinkUp j u => cases u <;> simp [sinkDisposed, h]
    | _ => simpa [sinkDisposed] using h
  | _ => simpa [sinkDisposed] using h

theorem srcGreeted_mono (k : Nat) (e : Ev α α) (tr : List (Ev α α)) (h : srcGreeted k tr = true) :
    srcGreeted k (e :: tr) = true := by
  cases e with
  | inp i =>
    cases i with
    | srcGreet j => simp [srcGreeted, h]
    | _ => simpa [srcGreeted] using h
  | _ => simpa [srcGreeted] using h

theorem pullsOut_mono (k : Nat) (e : Ev α α) (tr : List (Ev α α)) : pullsOut k tr ≤ pullsOut k (e :: tr) := by
  cases e with
  | out o =>
    cases o with
    | srcUp j u => cases u <;> simp [pullsOut]
    | _ => simp [pullsOut]
  | _ => simp [pullsOut]

theorem promptsTo_mono (k : Nat) (e : Ev α α) (tr : List (Ev α α)) : promptsTo k tr ≤ promptsTo k (e :: tr) := by
  cases e with
  | out o =>
    cases o with
    | down j d => cases d <;> simp [promptsTo]
    | _ => simp [promptsTo]
  | _ => simp [promptsTo]

/-! ### events that are not calls of the environment are invisible to the environment-side counters -/

theorem answersOf_skip {e : Ev α α} {t : List (Ev α α)} (h : HeadOk (e :: t)) (j : Nat) :
    answersOf j (e :: t) = answersOf j t := by
  cases e <;> simp [HeadOk, answersOf] at h ⊢

theorem pullsIn_skip {e : Ev α α} {t : List (Ev α α)} (h : HeadOk (e :: t)) (j : Nat) :
    pullsIn j (e :: t) = pullsIn j t := by
  cases e <;> simp [HeadOk, pullsIn] at h ⊢

theorem srcGreeted_skip {e : Ev α α} {t : List (Ev α α)} (h : HeadOk (e :: t)) (j : Nat) :
    srcGreeted j (e :: t) = srcGreeted j t := by
  cases e <;> simp [HeadOk, srcGreeted] at h ⊢

theorem sinkDisposed_skip {e : Ev α α} {t : List (Ev α α)} (h : HeadOk (e :: t)) (j : Nat) :
    sinkDisposed j (e :: t) = sinkDisposed j t := by
  cases e <;> simp [HeadOk, sinkDisposed] at h ⊢

theorem pullsOut_inp (i : In α) (t : List (Ev α α)) (j : Nat) : pullsOut j (.inp i :: t) = pullsOut j t := by
  simp [pullsOut]

theorem recvData_inp (i : In α) (t : List (Ev α α)) (j : Nat) : recvData j (.inp i :: t) = recvData j t := by
  simp [recvData]

theorem promptsTo_inp (i : In α) (t : List (Ev α α)) (j : Nat) : promptsTo j (.inp i :: t) = promptsTo j t := by
  simp [promptsTo]

theorem finalsTo_inp (i : In α) (t : List (Ev α α)) (j : Nat) : finalsTo j (.inp i :: t) = finalsTo j t := by
  simp [finalsTo]

theorem upFinals_inp (i : In α) (t : List (Ev α α)) (j : Nat) : upFinals j (.inp i :: t) = upFinals j t := by
  simp [upFinals]

/-! ### the clauses, one macro-step of a call -/

theorem ansLe_call (st : St) (tr : List (Ev α α)) (i : In α) (h : ∀ j, answersOf j tr ≤ pullsOut j tr)
    (hP : pullableB tr (.call i) = true) (j : Nat) :
    answersOf j (respC st i :: .inp i :: tr) ≤ pullsOut j (respC st i :: .inp i :: tr) := by
  rw [answersOf_skip (respC_notInp st i _)]
  have h1 := pullsOut_mono j (respC st i) (.inp i :: tr)
  rw [pullsOut_inp] at h1
  have h2 := h j
  cases i with
  | srcDown j' d =>
    simp only [pullableB, decide_eq_true_eq] at hP
    simp only [answersOf]
    split
    · subst_vars; omega
    · omega
  | _ => simp only [answersOf]; omega

theorem pLeQ_call (st : St) (tr : List (Ev α α)) (i : In α) (h : pullsIn 0 tr ≤ promptsTo 0 tr)
    (hP : pullableB tr (.call i) = true) :
    pullsIn 0 (respC st i :: .inp i :: tr) ≤ promptsTo 0 (respC st i :: .inp i :: tr) := by
  rw [pullsIn_skip (respC_notInp st i _)]
  have h1 := promptsTo_mono 0 (respC st i) (.inp i :: tr)
  rw [promptsTo_inp] at h1
  cases i with
  | sinkUp k u =>
    cases u with
    | pull =>
      simp only [pullableB, decide_eq_true_eq] at hP
      simp only [pullsIn]
      split
      · subst_vars; omega
      · omega
    | _ => simp only [pullsIn]; omega
  | _ => simp only [pullsIn]; omega

theorem qOk_call (st : St) (tr : List (Ev α α)) (i : In α)
    (h : promptsTo 0 tr = (recvData 0 tr).length + (if srcGreeted 0 tr = true then 1 else 0))
    (hg0 : i = .srcGreet 0 → srcGreeted 0 tr = false) :
    promptsTo 0 (respC st i :: .inp i :: tr) = (recvData 0 (respC st i :: .inp i :: tr)).length +
      (if srcGreeted 0 (respC st i :: .inp i :: tr) = true then 1 else 0) := by
  cases i with
  | subscribe k => simpa [respC, promptsTo, recvData, srcGreeted] using h
  | srcGreet j =>
    cases j with
    | zero =>
      have := hg0 rfl
      simp [respC, promptsTo, recvData, srcGreeted, this] at h ⊢
      omega
    | succ j => simpa [respC, promptsTo, recvData, srcGreeted] using h
  | sinkUp k u =>
    cases u <;> cases hin : st.inner <;> cases hout : st.outer <;>
      simpa [respC, promptsTo, recvData, srcGreeted, hin, hout] using h
  | srcDown j d =>
    cases j with
    | zero => cases d <;> cases hin : st.inner <;> simpa [respC, promptsTo, recvData, srcGreeted, hin] using h
    | succ j =>
      cases d <;> cases hout : st.outer <;> simp [respC, promptsTo, recvData, srcGreeted, hout, h] <;> omega

theorem dLeP_call (st : St) (tr : List (Ev α α)) (i : In α) (h : (recvData 0 tr).length ≤ pullsIn 0 tr)
    (hd : ∀ j a, i = .srcDown (j+1) (.data a) → (recvData 0 tr).length < pullsIn 0 tr) :
    (recvData 0 (respC st i :: .inp i :: tr)).length ≤ pullsIn 0 (respC st i :: .inp i :: tr) := by
  cases i with
  | subscribe k => simpa [respC, pullsIn, recvData] using h
  | srcGreet j => cases j <;> simpa [respC, pullsIn, recvData] using h
  | sinkUp k u =>
    cases u <;> cases hin : st.inner <;> cases hout : st.outer <;>
      simp [respC, pullsIn, recvData, hin, hout] <;> omega
  | srcDown j d =>
    cases j with
    | zero => cases d <;> cases hin : st.inner <;> simpa [respC, pullsIn, recvData, hin] using h
    | succ j =>
      cases d with
      | data a => have := hd j a rfl; simp [respC, pullsIn, recvData]; omega
      | _ => cases hout : st.outer <;> simpa [respC, pullsIn, recvData, hout] using h

theorem greeted_old {e a : Ev α α} {tr : List (Ev α α)} {j : Nat} (h : srcGreeted j (e :: a :: tr) = false) :
    srcGreeted j tr = false := by
  cases hg : srcGreeted j tr with
  | false => rfl
  | true => rw [srcGreeted_mono j e _ (srcGreeted_mono j a _ hg)] at h; cases h

theorem fresh_call (st : St) (tr : List (Ev α α)) (i : In α) (h : ∀ j, srcGreeted j tr = false → pullsOut j tr = 0)
    (hk : ∀ k, isLinkCall i = true → st.inner = some k → srcGreeted k tr = true)
    (h0 : isLinkCall i = true → st.outer = true → srcGreeted 0 tr = true) (j : Nat)
    (hg : srcGreeted j (respC st i :: .inp i :: tr) = false) : pullsOut j (respC st i :: .inp i :: tr) = 0 := by
  have ho := greeted_old hg
  have hp := h j ho
  cases i with
  | subscribe k => simpa [respC, pullsOut] using hp
  | srcGreet k =>
    cases k with
    | zero => simpa [respC, pullsOut] using hp
    | succ k =>
      simp only [respC, srcGreeted, Bool.or_eq_false_iff, beq_eq_false_iff_ne] at hg
      simp [respC, pullsOut, hp]; exact hg.1
  | sinkUp k u =>
    cases u with
    | pull =>
      cases hin : st.inner with
      | some k' =>
        have := hk k' rfl hin
        have hne : k' ≠ j := by intro e; subst e; rw [ho] at this; cases this
        simp [respC, pullsOut, hin, hp, hne]
      | none =>
        cases hout : st.outer with
        | true =>
          have := h0 rfl hout
          have hne : 0 ≠ j := by intro e; subst e; rw [ho] at this; cases this
          simp [respC, pullsOut, hin, hout, hp, hne]
        | false => simp [respC, pullsOut, hin, hout, hp]
    | _ => cases hin : st.inner <;> cases hout : st.outer <;> simp [respC, pullsOut, hin, hout, hp]
  | srcDown k d =>
    cases k with
    | zero => cases d <;> cases hin : st.inner <;> simp [respC, pullsOut, hin, hp]
    | succ k =>
      cases d with
      | term =>
        cases hout : st.outer with
        | true =>
          have := h0 rfl hout
          have hne : 0 ≠ j := by intro e; subst e; rw [ho] at this; cases this
          simp [respC, pullsOut, hout, hp, hne]
        | false => simp [respC, pullsOut, hout, hp]
      | _ => cases hout : st.outer <;> simp [respC, pullsOut, hout, hp]

theorem G3_old {e a : Ev α α} {tr : List (Ev α α)} (h : G3 (e :: a :: tr)) (he : HeadOk (e :: a :: tr))
    (ha : a ≠ .inp (.srcGreet 0)) : G3 tr := by
  obtain ⟨h1, h2, h3⟩ := h
  refine ⟨?_, ?_, ?_⟩
  · have := finalsTo_mono 0 a tr
    have := finalsTo_mono 0 e (a :: tr)
    omega
  · cases hd : sinkDisposed 0 tr with
    | false => rfl
    | true => rw [sinkDisposed_mono 0 e _ (sinkDisposed_mono 0 a _ hd)] at h2; cases h2
  · rw [srcGreeted_skip he] at h3
    cases a with
    | inp i =>
      cases i with
      | srcGreet j =>
        cases j with
        | zero => exact absurd rfl ha
        | succ j => simpa [srcGreeted] using h3
      | _ => simpa [srcGreeted] using h3
    | _ => simpa [srcGreeted] using h3

theorem outerT_call (st : St) (tr : List (Ev α α)) (i : In α) (h : G3 tr → st.outer = true)
    (hsw : ∀ d k, i = .srcDown 0 d → st.inner = some k → False)
    (hg : G3 (respC st i :: .inp i :: tr)) : (stC st i).outer = true := by
  by_cases hi : i = .srcGreet 0
  · subst hi; rfl
  · have ho := h (G3_old hg (respC_notInp st i _) (by simpa using hi))
    cases i with
    | subscribe k => exact ho
    | srcGreet j => cases j <;> first | exact absurd rfl hi | exact ho
    | sinkUp k u => cases u <;> exact ho
    | srcDown j d =>
      cases j with
      | zero =>
        cases hin : st.inner with
        | some k => exact (hsw d k rfl hin).elim
        | none => cases d <;> simp [stC, hin, ho]
      | succ j => cases d <;> cases hout : st.outer <;> simp_all [stC]

theorem noSw_call (st : St) (stk : List (Frame (Loc α) α)) (i : In α) (h : NoSw stk)
    (hsw : ∀ d k, i = .srcDown 0 d → st.inner = some k → False) : NoSw (stkC st i stk) := by
  cases i with
  | subscribe k => simp [stkC, respC, contC, NoSw]
  | srcGreet j => cases j <;> simp [stkC, respC, contC, NoSw]
  | sinkUp k u =>
    cases u <;> cases hin : st.inner <;> cases hout : st.outer <;> simp only [stkC, respC, contC, hin, hout] <;>
      first | exact h | simp [NoSw]
  | srcDown j d =>
    cases j with
    | zero =>
      cases hin : st.inner with
      | some k => exact (hsw d k rfl hin).elim
      | none => cases d <;> simp only [stkC, respC, contC, hin, Option.isNone_none] <;> first | exact h | simp [NoSw]
    | succ j => cases d <;> cases hout : st.outer <;> simp only [stkC, respC, contC, hout] <;> first | exact h | simp [NoSw]

theorem upFinals_old {e a : Ev α α} {tr : List (Ev α α)} (h : upFinals 0 (e :: a :: tr) = 0) : upFinals 0 tr = 0 := by
  have := upFinals_mono 0 a tr
  have := upFinals_mono 0 e (a :: tr)
  omega

/-- what is known when a sink or a live upstream calls (mode `live`) -/
structure LinkF (st : St) (tr : List (Ev α α)) (i : In α) : Prop where
  g3 : G3 tr
  up0 : upFinals 0 tr = 0
  nwg : ¬ (1 < st.nextId ∧ srcGreeted (st.nextId - 1) tr = false)
  kpos : ∀ k, st.inner = some k → 0 < k
  kgr : ∀ k, st.inner = some k → srcGreeted k tr = true
  cur : ∀ j d, i = .srcDown (j+1) d → st.inner = some (j+1)
  sink0 : ∀ k u, i = .sinkUp k u → k = 0

/-- under `pullable` the outer source cannot move while an inner source is active: it owes nothing -/
theorem no_switch {st : St} {stk : List (Frame (Loc α) α)} {tr : List (Ev α α)} {i : In α} (hT : TC st stk tr)
    (hL : isLinkCall i = true → LinkF st tr i) (hP : pullableB tr (.call i) = true) :
    ∀ d k, i = .srcDown 0 d → st.inner = some k → False := by
  intro d k hi hin
  subst hi
  have hL := hL rfl
  have hc := hT.cnt hL.g3 hL.up0
  rw [Cnt, if_neg hL.nwg] at hc
  simp only [LiveC, hin] at hc
  simp only [pullableB, decide_eq_true_eq] at hP
  omega

theorem cnt_call {st : St} {stk : List (Frame (Loc α) α)} {tr : List (Ev α α)} {i : In α} (hT : TC st stk tr)
    (hL : isLinkCall i = true → LinkF st tr i) (hP : pullableB tr (.call i) = true)
    (hsub0 : i = .srcGreet 0 → srcGreeted 0 tr = false ∧ st.inner = none ∧ st.nextId = 1)
    (hsubj : ∀ j, i = .srcGreet (j+1) → st.nextId = j + 2 ∧ srcGreeted (j+1) tr = false)
    (hnew : srcGreeted st.nextId tr = false) (hpos : 0 < st.nextId)
    (hg : G3 (respC st i :: .inp i :: tr)) (hu : upFinals 0 (respC st i :: .inp i :: tr) = 0) :
    Cnt (stC st i) (respC st i :: .inp i :: tr) := by
  have hU := upFinals_old hu
  have hsw := no_switch hT hL hP
  have hq := hT.qOk
  have hpq := hT.pLeQ
  have hdp := hT.dLeP
  cases i with
  | subscribe k =>
    have hG := G3_old hg (respC_notInp st _ _) (by simp)
    simpa [Cnt, WG, LiveC, stC, respC, pullsOut, pullsIn, answersOf, recvData, srcGreeted] using hT.cnt hG hU
  | srcGreet j =>
    cases j with
    | zero =>
      obtain ⟨h0, hin, hn⟩ := hsub0 rfl
      have hf := hT.fresh 0 h0
      have ha := hT.ansLe 0
      simp [h0] at hq
      simp [Cnt, LiveC, stC, respC, pullsOut, pullsIn, answersOf, recvData, srcGreeted, hin, hn]
      omega
    | succ j =>
      obtain ⟨hn, hgj⟩ := hsubj j rfl
      have hG := G3_old hg (respC_notInp st _ _) (by simp)
      have hc := hT.cnt hG hU
      rw [Cnt, if_pos ⟨by omega, by simpa [hn] using hgj⟩] at hc
      obtain ⟨hc1, hc2⟩ := hc
      have hf := hT.fresh (j+1) hgj
      have ha := hT.ansLe (j+1)
      simp [Cnt, LiveC, stC, respC, pullsOut, pullsIn, answersOf, recvData, srcGreeted, hn]
      omega
  | sinkUp k u =>
    have hL := hL rfl
    have hk := hL.sink0 k u rfl
    subst hk
    cases u with
    | pull =>
      have hc := hT.cnt hL.g3 hL.up0
      have hnwg := hL.nwg
      rw [Cnt, if_neg hnwg] at hc
      have hout := hT.outerT hL.g3
      cases hin : st.inner with
      | some k' =>
        have hk' : k' ≠ 0 := Nat.ne_of_gt (hL.kpos k' hin)
        simp only [LiveC, hin] at hc
        have hnwg' : ¬ (1 < st.nextId ∧ srcGreeted (st.nextId - 1) (respC st (.sinkUp 0 .pull) :: .inp (.sinkUp 0 .pull) :: tr) = false) := by
          simpa [respC, hin, srcGreeted] using hnwg
        rw [Cnt, if_neg (by simpa [stC] using hnwg')]
        simp [LiveC, stC, respC, pullsOut, pullsIn, answersOf, recvData, hin, hk']
        omega
      | none =>
        simp only [LiveC, hin] at hc
        have hnwg' : ¬ (1 < st.nextId ∧ srcGreeted (st.nextId - 1) (respC st (.sinkUp 0 .pull) :: .inp (.sinkUp 0 .pull) :: tr) = false) := by
          simpa [respC, hin, hout, srcGreeted] using hnwg
        rw [Cnt, if_neg (by simpa [stC] using hnwg')]
        simp [LiveC, stC, respC, pullsOut, pullsIn, answersOf, recvData, hin, hout]
        omega
    | term =>
      obtain ⟨_, h2, _⟩ := hg
      cases hin : st.inner <;> cases hout : st.outer <;> simp [respC, sinkDisposed, hin, hout] at h2
    | err e =>
      obtain ⟨_, h2, _⟩ := hg
      cases hin : st.inner <;> cases hout : st.outer <;> simp [respC, sinkDisposed, hin, hout] at h2
  | srcDown j d =>
    have hL := hL rfl
    have hc := hT.cnt hL.g3 hL.up0
    have hnwg := hL.nwg
    rw [Cnt, if_neg hnwg] at hc
    have hout := hT.outerT hL.g3
    simp only [pullableB, decide_eq_true_eq] at hP
    simp only [hL.g3.2.2, ↓reduceIte] at hq
    cases j with
    | zero =>
      cases hin : st.inner with
      | some k => exact (hsw d k rfl hin).elim
      | none =>
        simp only [LiveC, hin] at hc
        cases d with
        | data a =>
          have hd : 1 < st.nextId + 1 ∧
              srcGreeted (st.nextId + 1 - 1) (respC st (.srcDown 0 (.data a)) :: .inp (.srcDown 0 (.data a)) :: tr) = false := by
            refine ⟨by omega, ?_⟩
            simpa [respC, hin, srcGreeted] using hnew
          rw [Cnt, if_pos (by simpa [stC, hin] using hd)]
          simp [WG, respC, pullsOut, pullsIn, answersOf, recvData, hin]
          omega
        | term =>
          obtain ⟨h1, _, _⟩ := hg
          simp [respC, finalsTo, hin] at h1
        | err e =>
          obtain ⟨h1, _, _⟩ := hg
          simp [respC, finalsTo, hin] at h1
    | succ j =>
      have hin := hL.cur j d rfl
      simp only [LiveC, hin] at hc
      cases d with
      | data a =>
        have hnwg' : ¬ (1 < st.nextId ∧ srcGreeted (st.nextId - 1) (respC st (.srcDown (j+1) (.data a)) :: .inp (.srcDown (j+1) (.data a)) :: tr) = false) := by
          simpa [respC, srcGreeted] using hnwg
        rw [Cnt, if_neg (by simpa [stC] using hnwg')]
        simp [LiveC, stC, respC, pullsOut, pullsIn, answersOf, recvData, hin]
        omega
      | term =>
        have hnwg' : ¬ (1 < st.nextId ∧ srcGreeted (st.nextId - 1) (respC st (.srcDown (j+1) .term) :: .inp (.srcDown (j+1) .term) :: tr) = false) := by
          simpa [respC, hout, srcGreeted] using hnwg
        rw [Cnt, if_neg (by simpa [stC, hout] using hnwg')]
        simp [LiveC, stC, respC, pullsOut, pullsIn, answersOf, recvData, hin, hout]
        omega
      | err e =>
        simp [respC, upFinals, hout] at hu

theorem tc_call {st : St} {stk : List (Frame (Loc α) α)} {tr : List (Ev α α)} {i : In α} (hT : TC st stk tr)
    (hL : isLinkCall i = true → LinkF st tr i) (hP : pullableB tr (.call i) = true)
    (hsub0 : i = .srcGreet 0 → srcGreeted 0 tr = false ∧ st.inner = none ∧ st.nextId = 1)
    (hsubj : ∀ j, i = .srcGreet (j+1) → st.nextId = j + 2 ∧ srcGreeted (j+1) tr = false)
    (hnew : srcGreeted st.nextId tr = false) (hpos : 0 < st.nextId) :
    TC (stC st i) (stkC st i stk) (respC st i :: .inp i :: tr) := by
  have hsw := no_switch hT hL hP
  refine ⟨noSw_call st stk i hT.noSw hsw, ansLe_call st tr i hT.ansLe hP, pLeQ_call st tr i hT.pLeQ hP,
    qOk_call st tr i hT.qOk (fun h => (hsub0 h).1), dLeP_call st tr i hT.dLeP ?_,
    fresh_call st tr i hT.fresh (fun k hl => (hL hl).kgr k) (fun hl _ => (hL hl).g3.2.2),
    outerT_call st tr i hT.outerT hsw, cnt_call hT hL hP hsub0 hsubj hnew hpos⟩
  intro j a hi
  subst hi
  have hL := hL rfl
  have hc := hT.cnt hL.g3 hL.up0
  rw [Cnt, if_neg hL.nwg] at hc
  simp only [LiveC, hL.cur j _ rfl] at hc
  simp only [pullableB, decide_eq_true_eq] at hP
  omega

theorem tc_ret {st : St} {stk : List (Frame (Loc α) α)} {tr : List (Ev α α)} {o : Out α} {l : Loc α}
    (hT : TC st (.wait o l :: stk) tr) (hl : Cont l) (hrest : NoSw stk) (hx : l = .x1 → sinkDisposed 0 tr = true) :
    TC (stR st l) (stkR st l stk) (respR st l :: .retE :: tr) := by
  have hold : ∀ e : Ev α α, HeadOk (e :: .retE :: tr) → G3 (e :: .retE :: tr) → G3 tr :=
    fun e he hg => G3_old hg he (by simp)
  rcases hl with rfl | rfl | ⟨e, rfl⟩ | ⟨e, rfl⟩ | rfl
  · -- done
    refine ⟨by simpa [stkR, respR] using hrest, fun i => by simpa [respR, answersOf, pullsOut] using hT.ansLe i,
      by simpa [respR, pullsIn, promptsTo] using hT.pLeQ, by simpa [respR, promptsTo, recvData, srcGreeted] using hT.qOk,
      by simpa [respR, pullsIn, recvData] using hT.dLeP, fun i => by simpa [respR, srcGreeted, pullsOut] using hT.fresh i,
      fun hg => hT.outerT (hold _ (respR_notInp st _ _) hg), fun hg hu => ?_⟩
    have hc := hT.cnt (hold _ (respR_notInp st _ _) hg) (upFinals_old hu)
    simpa [Cnt, WG, LiveC, stR, respR, pullsOut, pullsIn, answersOf, recvData, srcGreeted] using hc
  · exact (hT.noSw).elim
  · exact (hT.noSw).elim
  · -- ie1
    refine ⟨by simp [stkR, respR, NoSw], fun i => by simpa [respR, answersOf, pullsOut] using hT.ansLe i,
      by simpa [respR, pullsIn, promptsTo] using hT.pLeQ, by simpa [respR, promptsTo, recvData, srcGreeted] using hT.qOk,
      by simpa [respR, pullsIn, recvData] using hT.dLeP, fun i => by simpa [respR, srcGreeted, pullsOut] using hT.fresh i,
      fun hg => ?_, fun hg hu => ?_⟩ <;>
    · have := hg.1; simp [respR, finalsTo] at this
  · -- x1
    have hd := hx rfl
    cases hout : st.outer with
    | true =>
      refine ⟨by simp [stkR, respR, NoSw, hout], fun i => by simpa [respR, answersOf, pullsOut, hout] using hT.ansLe i,
        by simpa [respR, pullsIn, promptsTo, hout] using hT.pLeQ,
        by simpa [respR, promptsTo, recvData, srcGreeted, hout] using hT.qOk,
        by simpa [respR, pullsIn, recvData, hout] using hT.dLeP,
        fun i => by simpa [respR, srcGreeted, pullsOut, hout] using hT.fresh i,
        fun hg => ?_, fun hg hu => ?_⟩ <;>
      · have := hg.2.1; rw [sinkDisposed_mono 0 _ _ (sinkDisposed_mono 0 _ _ hd)] at this; cases this
    | false =>
      refine ⟨by simpa [stkR, respR, hout] using hrest, fun i => by simpa [respR, answersOf, pullsOut, hout] using hT.ansLe i,
        by simpa [respR, pullsIn, promptsTo, hout] using hT.pLeQ,
        by simpa [respR, promptsTo, recvData, srcGreeted, hout] using hT.qOk,
        by simpa [respR, pullsIn, recvData, hout] using hT.dLeP,
        fun i => by simpa [respR, srcGreeted, pullsOut, hout] using hT.fresh i,
        fun hg => ?_, fun hg hu => ?_⟩ <;>
      · have := hg.2.1; rw [sinkDisposed_mono 0 _ _ (sinkDisposed_mono 0 _ _ hd)] at this; cases this

/-! ## what the basic invariant says about the configurations in which a move is possible -/

theorem sink_live {st : St} {stk : List (Frame (Loc α) α)} {g : G} {tr : List (Ev α α)} {c : Ctx α} {i : In α}
    (hI : Flatten.Inv (⟨st, stk, g, tr, none⟩ : Cfg α)) (hc : ctxOf stk = some c)
    (hl : legalIn (machine α).shape g.ph c i = true) (hi : isLinkCall i = true) :
    g.ph.sinkPh 0 = .live ∧ ∀ k u, i = .sinkUp k u → k = 0 := by
  obtain ⟨hp, hb, hpos, hidle, hoths, hm⟩ := hI
  simp only at hp hb hpos hidle hoths hm
  cases i with
  | subscribe k => simp [isLinkCall] at hi
  | srcGreet j => simp [isLinkCall] at hi
  | sinkUp k u =>
    simp only [legalIn, Bool.and_eq_true, beq_iff_eq, Bool.or_eq_true] at hl
    obtain ⟨hlive, hctx⟩ := hl
    have hk : k = 0 := by
      by_cases hk : k = 0
      · exact hk
      · rw [hoths k hk] at hlive; cases hlive
    subst hk
    exact ⟨hlive, fun k u h => by cases h; rfl⟩
  | srcDown i d =>
    simp only [legalIn, Bool.and_eq_true, beq_iff_eq, Bool.or_eq_true] at hl
    obtain ⟨hlive, hctx⟩ := hl
    cases hm with
    | init h1 h2 h3 h4 h5 h6 =>
      by_cases hi : i = 0
      · subst hi; simp [h2] at hlive
      · simp [hidle i (by omega)] at hlive
    | sub h1 h2 h3 h4 h5 h6 =>
      by_cases hi : i = 0
      · subst hi; simp [h2] at hlive
      · simp [hidle i (by omega)] at hlive
    | live h1 h2 h3 h4 h5 => exact ⟨h1, fun k u h => by cases h⟩
    | wgreet j h1 h2 h3 h4 h5 h6 h7 =>
      obtain ⟨rest, rfl, hrest⟩ := h7
      simp [ctxOf] at hc; subst hc; simp [isTop, inSub, inPull] at hctx; subst hctx
      simp [h5] at hlive
    | od1 k _ _ _ h => noctx h
    | oe1 k e _ _ h => noctx h
    | ie1 e _ _ h => noctx h
    | x1 k _ _ _ h => noctx h
    | fin _ h _ => exact absurd hlive (h i).1

theorem not_sub_of_outerOk {b : Bool} {ph : Ph} (h : OuterOk b ph) : ph.srcPh 0 ≠ .subscribed := by
  cases b with
  | true => simp [h.1 rfl]
  | false => exact (h.2 rfl).off.2

/-- the outer source greets in mode `sub` only -/
theorem sub_of_sub0 {st : St} {stk : List (Frame (Loc α) α)} {g : G} {tr : List (Ev α α)}
    (hI : Flatten.Inv (⟨st, stk, g, tr, none⟩ : Cfg α)) (h0 : g.ph.srcPh 0 = .subscribed) :
    st.inner = none ∧ st.nextId = 1 := by
  obtain ⟨hp, hb, hpos, hidle, hoths, hm⟩ := hI
  simp only at hp hb hpos hidle hoths hm
  cases hm with
  | init h1 h2 h3 h4 h5 h6 => simp [h2] at h0
  | sub h1 h2 h3 h4 h5 h6 => exact ⟨h5, h6⟩
  | live h1 h2 h3 h4 h5 => exact absurd h0 (not_sub_of_outerOk h2)
  | wgreet j h1 h2 h3 h4 h5 h6 h7 => exact absurd h0 (not_sub_of_outerOk h2)
  | od1 k h1 h2 h3 h4 => exact absurd h0 (not_sub_of_outerOk h2)
  | oe1 k e h1 h2 h3 => exact absurd h0 (h2 0).2
  | ie1 e h1 h2 h3 => exact absurd h0 (h2 0).2
  | x1 k h1 h2 h3 h4 => exact absurd h0 (not_sub_of_outerOk h2)
  | fin h1 h2 h3 => exact absurd h0 (h2 0).2

/-- an inner source greets in mode `wgreet` only, and it is the newest one -/
theorem wg_of_sub {st : St} {stk : List (Frame (Loc α) α)} {g : G} {tr : List (Ev α α)} {j : Nat}
    (hI : Flatten.Inv (⟨st, stk, g, tr, none⟩ : Cfg α)) (hj : g.ph.srcPh (j+1) = .subscribed) :
    st.nextId = j + 2 := by
  obtain ⟨hp, hb, hpos, hidle, hoths, hm⟩ := hI
  simp only at hp hb hpos hidle hoths hm
  have hlt : j + 1 < st.nextId := by
    apply Classical.byContradiction
    intro h
    rw [hidle (j+1) (by omega)] at hj; cases hj
  cases hm with
  | init h1 h2 h3 h4 h5 h6 => omega
  | sub h1 h2 h3 h4 h5 h6 => omega
  | live h1 h2 h3 h4 h5 => exact absurd hj (live_not_subscribed h2 hidle h3 h4 (j+1))
  | wgreet j' h1 h2 h3 h4 h5 h6 h7 =>
    by_cases hlt' : j + 1 < j'
    · exact absurd hj (h6 (j+1) (by omega) hlt').off.2
    · omega
  | od1 k h1 h2 h3 h4 => exact absurd hj (h3 (j+1) (by omega) hlt).off.2
  | oe1 k e h1 h2 h3 => exact absurd hj (h2 (j+1)).2
  | ie1 e h1 h2 h3 => exact absurd hj (h2 (j+1)).2
  | x1 k h1 h2 h3 h4 => exact absurd hj (h3 (j+1) (by omega)).2
  | fin h1 h2 h3 => exact absurd hj (h2 (j+1)).2

theorem noSw_of_benign {stk : List (Frame (Loc α) α)} (h : ∀ f ∈ stk, Benign f) : NoSw stk := by
  cases stk with
  | nil => simp [NoSw]
  | cons f r =>
    have := h f (by simp)
    cases f with
    | run l => simp [NoSw]
    | wait o l => cases l <;> simp [Benign] at this <;> simp [NoSw]

/-- the frames below the top one are tail calls -/
theorem rest_noSw {st : St} {stk : List (Frame (Loc α) α)} {g : G} {tr : List (Ev α α)} {o : Out α} {l : Loc α}
    (hI : Flatten.Inv (⟨st, .wait o l :: stk, g, tr, none⟩ : Cfg α)) : NoSw stk := by
  obtain ⟨_, _, _, _, _, hm⟩ := hI
  simp only at hm
  apply noSw_of_benign
  cases hm with
  | init _ _ h => simp at h
  | sub _ _ h => simp at h; obtain ⟨⟨rfl, rfl⟩, rfl⟩ := h; simp
  | live _ _ _ _ h => exact (List.forall_mem_cons.1 h).2
  | wgreet j _ _ _ _ _ _ h => obtain ⟨rest, he, hrest⟩ := h; simp at he; obtain ⟨⟨rfl, rfl⟩, rfl⟩ := he; exact hrest
  | od1 k _ _ _ h => obtain ⟨rest, he, hrest⟩ := h; simp at he; obtain ⟨⟨rfl, rfl⟩, rfl⟩ := he; exact hrest
  | oe1 k e _ _ h => obtain ⟨rest, he, hrest⟩ := h; simp at he; obtain ⟨⟨rfl, rfl⟩, rfl⟩ := he; exact hrest
  | ie1 e _ _ h => obtain ⟨rest, he, hrest⟩ := h; simp at he; obtain ⟨⟨rfl, rfl⟩, rfl⟩ := he; exact hrest
  | x1 k _ _ _ h => obtain ⟨rest, he, hrest⟩ := h; simp at he; obtain ⟨⟨rfl, rfl⟩, rfl⟩ := he; exact hrest
  | fin _ _ h => exact (List.forall_mem_cons.1 h).2

/-- the continuation `x1` runs after the sink has disposed -/
theorem x1_disposed {st : St} {stk : List (Frame (Loc α) α)} {g : G} {tr : List (Ev α α)} {o : Out α}
    (hI : Flatten.Inv (⟨st, .wait o .x1 :: stk, g, tr, none⟩ : Cfg α)) : g.ph.sinkPh 0 = .doneBySelf := by
  obtain ⟨_, _, _, _, _, hm⟩ := hI
  simp only at hm
  have hben : (∀ f ∈ (Frame.wait o (Loc.x1 : Loc α) :: stk), Benign f) → False := by
    intro h
    have := h _ List.mem_cons_self
    simp [Benign] at this
  cases hm with
  | init _ _ h => simp at h
  | sub _ _ h => simp at h
  | live _ _ _ _ h => exact (hben h).elim
  | wgreet j _ _ _ _ _ _ h => obtain ⟨rest, he, hrest⟩ := h; simp at he
  | od1 k _ _ _ h => obtain ⟨rest, he, hrest⟩ := h; simp at he
  | oe1 k e _ _ h => obtain ⟨rest, he, hrest⟩ := h; simp at he
  | ie1 e _ _ h => obtain ⟨rest, he, hrest⟩ := h; simp at he
  | x1 k h1 _ _ h => exact h1
  | fin _ _ h => exact (hben h).elim

/-- before the sink has subscribed only `subscribe` is possible -/
theorem only_subscribe {st : St} {stk : List (Frame (Loc α) α)} {g : G} {tr : List (Ev α α)} {c : Ctx α} {i : In α}
    (hI : Flatten.Inv (⟨st, stk, g, tr, none⟩ : Cfg α)) (h0 : g.ph.sinkPh 0 = .idle)
    (hl : legalIn (machine α).shape g.ph c i = true) : ∃ k, i = .subscribe k := by
  obtain ⟨hp, hb, hpos, hidle, hoths, hm⟩ := hI
  simp only at hp hb hpos hidle hoths hm
  have hinit : g.ph.srcPh 0 = .idle ∧ st.nextId = 1 := by
    cases hm with
    | init h1 h2 h3 h4 h5 h6 => exact ⟨h2, h6⟩
    | fin h1 _ _ => rcases h1 with h1 | h1 <;> rw [h0] at h1 <;> cases h1
    | _ => simp_all
  have hall : ∀ j, g.ph.srcPh j = .idle := by
    intro j
    by_cases hj : j = 0
    · subst hj; exact hinit.1
    · exact hidle j (by omega)
  cases i with
  | subscribe k => exact ⟨k, rfl⟩
  | sinkUp k u =>
    have := legal_sinkUp hl
    by_cases hk : k = 0
    · subst hk; rw [h0] at this; cases this
    · rw [hoths k hk] at this; cases this
  | srcGreet j => have := legal_srcGreet hl; rw [hall j] at this; cases this
  | srcDown j d => have := legal_srcDown hl; rw [hall j] at this; cases this

theorem stack_nil_of_idle {st : St} {stk : List (Frame (Loc α) α)} {g : G} {tr : List (Ev α α)}
    (hI : Flatten.Inv (⟨st, stk, g, tr, none⟩ : Cfg α)) (h0 : g.ph.sinkPh 0 = .idle) : stk = [] := by
  obtain ⟨_, _, _, _, _, hm⟩ := hI
  simp only at hm
  cases hm with
  | init h1 h2 h3 h4 h5 h6 => exact h3
  | fin h1 _ _ => rcases h1 with h1 | h1 <;> rw [h0] at h1 <;> cases h1
  | _ => simp_all

/-! ## the invariant -/

def FInv14 (s : Cfg α) : Prop :=
  SReachR (machine α) pullable s ∧ FlattenFun.FInv s ∧ TC s.st s.stack s.tr ∧
    (s.g.ph.sinkPh 0 = .idle ∨ 0 ∈ subscriptions s.tr)

theorem glue2 {s' : Cfg α} {A P : Cfg α → Prop} (hA : ∀ s, A s → EnvTurn s) (hb : ∃ n, A (advance (machine α) n s'))
    (hr : ∃ n, EnvTurn (advance (machine α) n s') ∧ P (advance (machine α) n s')) :
    ∃ n, A (advance (machine α) n s') ∧ P (advance (machine α) n s') := by
  obtain ⟨n1, h1⟩ := hb
  obtain ⟨n2, e2, h2⟩ := hr
  have e1 := hA _ h1
  have heq : advance (machine α) n1 s' = advance (machine α) n2 s' := by
    have a := advance_add (machine α) n1 n2 s'
    have b := advance_add (machine α) n2 n1 s'
    rw [advance_of_envTurn e1] at a
    rw [advance_of_envTurn e2, Nat.add_comm] at b
    exact a.symm.trans b
  exact ⟨n2, heq ▸ h1, h2⟩

theorem subs_mem_cons {x : Nat} {tr : List (Ev α α)} (e : Ev α α) (h : x ∈ subscriptions tr) : x ∈ subscriptions (e :: tr) := by
  cases e with
  | out o => cases o <;> simp [subscriptions, h]
  | _ => simpa [subscriptions] using h

theorem not_greeted_of {ph : Ph} {tr : List (Ev α α)} (hG : TGp ph tr) {j : Nat}
    (h : ph.srcPh j = .idle ∨ ph.srcPh j = .subscribed) : srcGreeted j tr = false := by
  apply Bool.eq_false_iff.2
  intro hg
  have := (hG.greeted j).1 hg
  rcases h with h | h <;> rw [h] at this <;> simp at this

theorem greeted_of_outerOk {b : Bool} {ph : Ph} {tr : List (Ev α α)} (hG : TGp ph tr) (h : OuterOk b ph) :
    srcGreeted 0 tr = true := by
  apply (hG.greeted 0).2
  cases b with
  | true => exact Or.inl (h.1 rfl)
  | false => rcases h.2 rfl with h | h; exact Or.inr (Or.inl h); exact Or.inr (Or.inr h)

theorem g3_of_live {b : Bool} {ph : Ph} {tr : List (Ev α α)} (hG : TGp ph tr) (hv : ph.viols = [])
    (h1 : ph.sinkPh 0 = .live) (h2 : OuterOk b ph) : G3 tr := by
  refine ⟨by rw [hG.fin hv 0, h1]; simp, ?_, greeted_of_outerOk hG h2⟩
  apply Bool.eq_false_iff.2
  intro hd
  have := (hG.disp 0).1 hd
  rw [h1] at this; cases this

theorem finv14_step (s s' : Cfg α) (m : Move α) (h : FInv14 s) (hs : EnvStep (machine α) m s s') (hr : pullable s m) :
    ∃ n, FInv14 (advance (machine α) n s') := by
  obtain ⟨hR, hF, hT, hS⟩ := h
  have hb := FlattenFun.finv_step s s' m hF hs
  obtain ⟨_, hI, _⟩ := hF
  have hR' : SReachR (machine α) pullable s' := .step hR (.env hs hr)
  have hG := (TG.of_reach hR).ph
  have hv := hI.2.1
  have hpos := hI.2.2.1
  have hidle := hI.2.2.2.1
  have hturn : ∀ s : Cfg α, FlattenFun.FInv s → EnvTurn s := fun s h => (Flatten.inv_turn s h.2.1).1
  cases hs with
  | @call st stk g tr c i hc hl =>
    simp only at hT hG hv hpos hidle hS
    have hP : pullableB tr (.call i) = true := hr
    obtain ⟨n, hF', hst, hstk, htr⟩ := glue2
      (P := fun s2 => s2.st = stC st i ∧ s2.stack = stkC st i stk ∧ s2.tr = respC st i :: .inp i :: tr) hturn hb
      (run_call2 st stk _ (.inp i :: tr) i (by simp [hc]))
    refine ⟨n, reach_advance n hR', hF', ?_, ?_⟩
    · rw [hst, hstk, htr]
      have hL : isLinkCall i = true → LinkF st tr i := by
        intro hi
        obtain ⟨h2, h3, h4, hcur⟩ := live_of_legal hI hc hl hi
        obtain ⟨h1, hs0⟩ := sink_live hI hc hl hi
        have hg3 := g3_of_live hG hv h1 h2
        have hout := hT.outerT hg3
        have hl0 := h2.1 hout
        refine ⟨hg3, by rw [hG.up hv 0, hl0]; simp, ?_, fun k hk => (h3 k hk).1,
          fun k hk => (hG.greeted k).2 (Or.inl (h3 k hk).2.2), hcur, hs0⟩
        rintro ⟨hlt, hng⟩
        have : srcGreeted (st.nextId - 1) tr = true := by
          apply (hG.greeted _).2
          by_cases hcur' : st.inner = some (st.nextId - 1)
          · exact Or.inl (h3 _ hcur').2.2
          · rcases h4 (st.nextId - 1) (by omega) (by omega) hcur' with h | h
            · exact Or.inr (Or.inl h)
            · exact Or.inr (Or.inr h)
        rw [this] at hng; cases hng
      refine tc_call hT hL hP ?_ ?_ (not_greeted_of hG (Or.inl (hidle _ (Nat.le_refl _)))) hpos
      · intro hi; subst hi
        have hsub := legal_srcGreet hl
        exact ⟨not_greeted_of hG (Or.inr hsub), sub_of_sub0 hI hsub⟩
      · intro j hi; subst hi
        have hsub := legal_srcGreet hl
        exact ⟨wg_of_sub hI hsub, not_greeted_of hG (Or.inr hsub)⟩
    · right
      rw [htr]
      rcases hS with h0 | h0
      · obtain ⟨k, rfl⟩ := only_subscribe hI h0 hl
        simp [respC, subscriptions]
      · exact subs_mem_cons _ (subs_mem_cons _ h0)
  | @ret st stk g tr o l hl =>
    simp only at hT hG hv hpos hidle hS
    obtain ⟨hcont, hctx⟩ := cont_of_inv hI
    obtain ⟨n, hF', hst, hstk, htr⟩ := glue2
      (P := fun s2 => s2.st = stR st l ∧ s2.stack = stkR st l stk ∧ s2.tr = respR st l :: .retE :: tr) hturn hb
      (run_ret2 st stk _ (.retE :: tr) l hcont hctx)
    refine ⟨n, reach_advance n hR', hF', ?_, ?_⟩
    · rw [hst, hstk, htr]
      refine tc_ret hT hcont (rest_noSw hI) ?_
      intro hl; subst hl
      exact (hG.disp 0).2 (x1_disposed hI)
    · right
      rw [htr]
      rcases hS with h0 | h0
      · have := stack_nil_of_idle hI h0; simp at this
      · exact subs_mem_cons _ (subs_mem_cons _ h0)

theorem finv14_init : FInv14 (Sys.init (machine α) : Cfg α) := by
  refine ⟨.init, FlattenFun.finv_init, ?_, Or.inl (by simp [Sys.init])⟩
  refine ⟨by simp [Sys.init, NoSw], fun i => by simp [Sys.init, answersOf], by simp [Sys.init, pullsIn],
    by simp [Sys.init, promptsTo, recvData, srcGreeted], by simp [Sys.init, recvData], fun i _ => by simp [Sys.init, pullsOut],
    fun hg => ?_, fun hg _ => ?_⟩ <;>
  · have := hg.2.2; simp [Sys.init, srcGreeted] at this

theorem mem_subs_of_subsOk {tr : List (Ev α α)} {n k : Nat} (h : SubsOk tr n) (h0 : 0 < k) (hk : k < n) :
    k ∈ subscriptions tr := by
  have : k ∈ (subscriptions tr).filter (· ≠ 0) := by
    rw [h, List.mem_range'_1]; omega
  exact (List.mem_filter.1 this).1

/-- `demandOk` from the invariant -/
theorem demand_of (s : Cfg α) (h : FInv14 s) : demandOk s.tr = true := by
  obtain ⟨hR, ⟨_, hI, hT11⟩, hT, hS⟩ := h
  have hG := (TG.of_reach hR).ph
  have hstk := (TG.of_reach hR).stk hI.1
  obtain ⟨st, stk, g, tr, p⟩ := s
  obtain ⟨hp, hv, hpos, hidle, hoths, hm⟩ := hI
  simp only at hT11 hT hS hG hstk hp hv hpos hidle hoths hm ⊢
  unfold demandOk
  rw [Bool.and_eq_true]
  refine ⟨by simpa using hT.dLeP, ?_⟩
  split
  next hcond =>
    simp only [Bool.and_eq_true, decide_eq_true_eq, beq_iff_eq] at hcond
    obtain ⟨hlt, hfin⟩ := hcond
    simp only [Bool.or_eq_true]
    have hq := hT.qOk
    have hpq := hT.pLeQ
    cases hm with
    | init h1 h2 h3 h4 h5 h6 =>
      have := not_greeted_of hG (Or.inl h2)
      simp [this] at hq
      omega
    | sub h1 h2 h3 h4 h5 h6 =>
      have := not_greeted_of hG (Or.inr h2)
      simp [this] at hq
      omega
    | live h1 h2 h3 h4 h5 =>
      have hg3 := g3_of_live hG hv h1 h2
      have hout := hT.outerT hg3
      have hl0 := h2.1 hout
      have hup : upFinals 0 tr = 0 := by rw [hG.up hv 0, hl0]; simp
      have hc := hT.cnt hg3 hup
      have hnwg : ¬ (1 < st.nextId ∧ srcGreeted (st.nextId - 1) tr = false) := by
        rintro ⟨hlt, hng⟩
        have : srcGreeted (st.nextId - 1) tr = true := by
          apply (hG.greeted _).2
          by_cases hcur' : st.inner = some (st.nextId - 1)
          · exact Or.inl (h3 _ hcur').2.2
          · rcases h4 (st.nextId - 1) (by omega) (by omega) hcur' with h | h
            · exact Or.inr (Or.inl h)
            · exact Or.inr (Or.inr h)
        rw [this] at hng; cases hng
      rw [Cnt, if_neg hnwg] at hc
      right
      rw [List.any_eq_true]
      cases hin : st.inner with
      | some k =>
        obtain ⟨hk0, hkn, hkl⟩ := h3 k hin
        simp only [LiveC, hin] at hc
        refine ⟨k, mem_subs_of_subsOk hT11.subs hk0 hkn, ?_⟩
        have hlive : liveTr k tr = true := (alive_iff hG hv k).2 hkl
        have : answersOf k tr < pullsOut k tr := by omega
        simp [hlive, this]
      | none =>
        simp only [LiveC, hin] at hc
        have h0 : 0 ∈ subscriptions tr := by
          rcases hS with h | h
          · rw [h1] at h; cases h
          · exact h
        refine ⟨0, h0, ?_⟩
        have hlive : liveTr 0 tr = true := (alive_iff hG hv 0).2 hl0
        have : answersOf 0 tr < pullsOut 0 tr := by omega
        simp [hlive, this]
    | wgreet j h1 h2 h3 h4 h5 h6 h7 =>
      right
      rw [List.any_eq_true]
      refine ⟨j, mem_subs_of_subsOk hT11.subs h3 (by omega), ?_⟩
      have hm := mem_subs_of_subsOk hT11.subs h3 (show j < st.nextId by omega)
      have hng := not_greeted_of hG (Or.inr h5)
      simp [pendingTr, hng, hm]
    | od1 k _ _ _ h =>
      obtain ⟨rest, rfl, _⟩ := h
      left; right
      rw [hstk]; simp [framesOf]
    | oe1 k e _ _ h =>
      obtain ⟨rest, rfl, _⟩ := h
      left; right
      rw [hstk]; simp [framesOf]
    | ie1 e _ _ h =>
      obtain ⟨rest, rfl, _⟩ := h
      left; right
      rw [hstk]; simp [framesOf]
    | x1 k h1 _ _ _ => exact Or.inl (Or.inl (Or.inl ((hG.disp 0).2 h1)))
    | fin h1 _ _ =>
      rcases h1 with h1 | h1
      · rw [hG.fin hv 0, h1] at hfin; simp at hfin
      · exact Or.inl (Or.inl (Or.inl ((hG.disp 0).2 h1)))
  next => rfl

/-- C14 (demand conservation): under the pullable discipline, at every reachable configuration where the environment has
control, the trace satisfies `demandOk` -/
theorem flatten_demand {α : Type} :
    ∀ s, SReachR (Flatten.machine α) pullable s → EnvTurn s → demandOk s.tr = true := by
  intro s hs ht
  obtain ⟨n, hn⟩ := reach_runs_into_inv (machine α) pullable FInv14 finv14_init
    (fun s h => (Flatten.inv_turn s h.2.1.2.1).1) finv14_step s hs
  rw [advance_of_envTurn ht] at hn
  exact demand_of s hn

end Cb.FlattenDemand

#print axioms Cb.FlattenDemand.flatten_demand
