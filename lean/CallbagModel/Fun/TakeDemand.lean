import CallbagModel.Inv.Take
import CallbagModel.Inv.TraceGhost
import CallbagModel.Fun.Take
import CallbagModel.Spec14
/-!
# take(max): demand conservation `demandOk` (C14) under the pullable discipline, for `max ≥ 1`

`FInv s := SReachR … pullable s ∧ Take.Inv max s ∧ T max s.st.taken s.tr ∧ (upstream subscribed → 0 ∈ subscriptions s.tr)`.
The phase-level invariant is reused as a black box through determinism of `advance` (as in `Fun/Take.lean`); reachability is
carried along so that the TraceGhost lemmas translate phases into trace projections.  `T` is the counting part: with
`P = pullsIn 0`, `D = |recvData 0|`, `U = pullsOut 0`, `A = answersOf 0`,

* `D = taken`, `A ≤ U` (the environment's discipline), `D ≤ P`,
* `P + A = U + D` while upstream has not ended and `taken < max` (every sink Pull is forwarded while `taken < max`),
* `P = 0` before upstream greets.

A Pull that arrives when `taken = max` is not forwarded; by the basic invariant (mode `m3`) this happens only while the
`max`-th delivery is still open (`deliveryDepth 0 > 0`); when it returns take terminates upstream (mode `m6`: the open call is
`srcUp 0 term`) and completes the sink (`finalsTo 0 = 1`).

`max = 0` is excluded: `take(0)` never forwards a Pull and never completes by itself, so after
`S0 G0 U0p R R` (trace `S0 >S0 G0 >G0 U0p < R < R <`) the sink's Pull is unanswered for ever and `demandOk` is false
(`echo "take:0 | S0 G0 U0p R R" | cbharness replay | cbdrv judge C14` prints `FLAG … C14:specViolated`).
-/
namespace Cb.TakeDemand
open Cb Cb.Take

variable {α : Type}

/-! ## the counting part of the invariant -/

structure T (max taken : Nat) (tr : List (Ev α α)) : Prop where
  cnt : (recvData 0 tr).length = taken
  au : answersOf 0 tr ≤ pullsOut 0 tr
  dp : (recvData 0 tr).length ≤ pullsIn 0 tr
  bal : srcEnded 0 tr = false → taken < max →
    pullsIn 0 tr + answersOf 0 tr = pullsOut 0 tr + (recvData 0 tr).length
  p0 : srcGreeted 0 tr = false → pullsIn 0 tr = 0

theorem T.init (max : Nat) : T max 0 ([] : List (Ev α α)) := by
  constructor <;> simp [answersOf, pullsOut, pullsIn, recvData]

/-- events that none of the counters looks at -/
def inert : Ev α α → Bool
  | .inp (.subscribe _) => true
  | .inp (.sinkUp _ .term) => true
  | .inp (.sinkUp _ (.err _)) => true
  | .out (.greet _) => true
  | .out (.subSrc _) => true
  | .out (.srcUp _ .term) => true
  | .out (.srcUp _ (.err _)) => true
  | .out (.down _ .term) => true
  | .out (.down _ (.err _)) => true
  | .retE => true
  | .retO => true
  | _ => false

theorem T.neutral {max taken : Nat} {tr : List (Ev α α)} (h : T max taken tr) (e : Ev α α) (he : inert e = true) :
    T max taken (e :: tr) := by
  obtain ⟨h0, h1, h2, h3, h4⟩ := h
  cases e with
  | inp i =>
    cases i with
    | subscribe k => constructor <;> simpa [answersOf, pullsOut, pullsIn, recvData, srcEnded, srcGreeted]
    | sinkUp k u =>
      cases u with
      | pull => simp [inert] at he
      | term => constructor <;> simpa [answersOf, pullsOut, pullsIn, recvData, srcEnded, srcGreeted]
      | err e => constructor <;> simpa [answersOf, pullsOut, pullsIn, recvData, srcEnded, srcGreeted]
    | srcGreet i => simp [inert] at he
    | srcDown i d => simp [inert] at he
  | out o =>
    cases o with
    | greet k => constructor <;> simpa [answersOf, pullsOut, pullsIn, recvData, srcEnded, srcGreeted]
    | subSrc i => constructor <;> simpa [answersOf, pullsOut, pullsIn, recvData, srcEnded, srcGreeted]
    | srcUp i u =>
      cases u with
      | pull => simp [inert] at he
      | term => constructor <;> simpa [answersOf, pullsOut, pullsIn, recvData, srcEnded, srcGreeted]
      | err e => constructor <;> simpa [answersOf, pullsOut, pullsIn, recvData, srcEnded, srcGreeted]
    | down k d =>
      cases d with
      | data a => simp [inert] at he
      | term => constructor <;> simpa [answersOf, pullsOut, pullsIn, recvData, srcEnded, srcGreeted]
      | err e => constructor <;> simpa [answersOf, pullsOut, pullsIn, recvData, srcEnded, srcGreeted]
    | app b => simp [inert] at he
  | retE => constructor <;> simpa [answersOf, pullsOut, pullsIn, recvData, srcEnded, srcGreeted]
  | retO => constructor <;> simpa [answersOf, pullsOut, pullsIn, recvData, srcEnded, srcGreeted]
  | panic => simp [inert] at he

/-- greeting: the operator greets the sink -/
theorem T.greet {max taken : Nat} {tr : List (Ev α α)} (h : T max taken tr) (i : Nat) :
    T max taken (.out (.greet 0) :: .inp (.srcGreet i) :: tr) := by
  refine T.neutral ?_ _ rfl
  obtain ⟨h0, h1, h2, h3, h4⟩ := h
  constructor
  · simpa [recvData]
  · simpa [answersOf, pullsOut]
  · simpa [pullsIn, recvData]
  · simpa [answersOf, pullsOut, pullsIn, recvData, srcEnded]
  · simp only [srcGreeted, pullsIn]
    intro hg
    apply h4
    cases hh : srcGreeted 0 tr with
    | false => rfl
    | true => simp [hh] at hg

/-- a Pull of the sink is forwarded upstream -/
theorem T.pullFwd {max taken : Nat} {tr : List (Ev α α)} (h : T max taken tr) (hg : srcGreeted 0 tr = true) :
    T max taken (.out (.srcUp 0 .pull) :: .inp (.sinkUp 0 .pull) :: tr) := by
  obtain ⟨h0, h1, h2, h3, h4⟩ := h
  constructor
  · simpa [recvData]
  · simp [answersOf, pullsOut]; omega
  · simp [pullsIn, recvData]; omega
  · simp only [srcEnded, answersOf, pullsOut, pullsIn, recvData]; intro he hlt; have := h3 he hlt; simp; omega
  · simp [srcGreeted, hg]

/-- a Pull of the sink is not forwarded: `max` items have been taken -/
theorem T.pullDrop {max taken : Nat} {tr : List (Ev α α)} (h : T max taken tr) (hg : srcGreeted 0 tr = true)
    (hge : ¬ taken < max) : T max taken (.retO :: .inp (.sinkUp 0 .pull) :: tr) := by
  refine T.neutral ?_ _ rfl
  obtain ⟨h0, h1, h2, h3, h4⟩ := h
  constructor
  · simpa [recvData]
  · simpa [answersOf, pullsOut]
  · simp [pullsIn, recvData]; omega
  · intro _ hlt; exact absurd hlt hge
  · simp [srcGreeted, hg]

/-- a requested datum arrives while `taken < max` and is delivered -/
theorem T.dataTake {max taken : Nat} {tr : List (Ev α α)} (h : T max taken tr)
    (hlt : answersOf 0 tr < pullsOut 0 tr) (he : srcEnded 0 tr = false) (htk : taken < max) (a : α) :
    T max (taken + 1) (.out (.down 0 (.data a)) :: .inp (.srcDown 0 (.data a)) :: tr) := by
  obtain ⟨h0, h1, h2, h3, h4⟩ := h
  have := h3 he htk
  constructor
  · simp [recvData]; omega
  · simp [answersOf, pullsOut]; omega
  · simp [pullsIn, recvData]; omega
  · simp [srcEnded, answersOf, pullsOut, pullsIn, recvData]; omega
  · simpa [srcGreeted, pullsIn]

/-- a requested datum arrives when `max` items have been taken and is dropped -/
theorem T.dataDrop {max taken : Nat} {tr : List (Ev α α)} (h : T max taken tr)
    (hlt : answersOf 0 tr < pullsOut 0 tr) (hge : ¬ taken < max) (a : α) :
    T max taken (.retO :: .inp (.srcDown 0 (.data a)) :: tr) := by
  refine T.neutral ?_ _ rfl
  obtain ⟨h0, h1, h2, h3, h4⟩ := h
  constructor
  · simpa [recvData]
  · simp [answersOf, pullsOut]; omega
  · simpa [pullsIn, recvData]
  · intro _ h; exact absurd h hge
  · simpa [srcGreeted, pullsIn]

/-- upstream ends (its answer to a Pull) and the terminal is forwarded -/
theorem T.fin {max taken : Nat} {tr : List (Ev α α)} (h : T max taken tr) (hlt : answersOf 0 tr < pullsOut 0 tr)
    (d : Down α) (hd : d = .term ∨ ∃ e, d = .err e) :
    T max taken (.out (.down 0 d) :: .inp (.srcDown 0 d) :: tr) := by
  have hn : inert (α := α) (.out (.down 0 d)) = true := by rcases hd with rfl | ⟨e, rfl⟩ <;> rfl
  refine T.neutral ?_ _ hn
  obtain ⟨h0, h1, h2, h3, h4⟩ := h
  rcases hd with rfl | ⟨e, rfl⟩ <;>
  · constructor
    · simpa [recvData]
    · simp [answersOf, pullsOut]; omega
    · simpa [pullsIn, recvData]
    · simp [srcEnded]
    · simpa [srcGreeted, pullsIn]

/-! ## combining with the basic invariant -/

theorem reach_advance {St Loc β : Type} {M : Machine St Loc α β} {R : Restr St Loc α β} (n : Nat) (s : Sys St Loc α β)
    (h : SReachR M R s) : SReachR M R (advance M n s) := by
  induction n generalizing s with
  | zero => exact h
  | succ n ih =>
    simp only [advance]
    cases ho : opStep M s with
    | none => exact h
    | some s' => exact ih s' (.step h (.op ho))

def FInv (max : Nat) (s : Sys St (Loc α) α α) : Prop :=
  SReachR (machine α max) pullable s ∧ Take.Inv max s ∧ T max s.st.taken s.tr ∧
    (s.g.ph.srcPh 0 ≠ .idle → 0 ∈ subscriptions s.tr)

theorem finv_of (max : Nat) {s' : Sys St (Loc α) α α} (hr : SReachR (machine α max) pullable s')
    (hb : ∃ n, Take.Inv max (advance (machine α max) n s')) (n2 : Nat)
    (ht : EnvTurn (advance (machine α max) n2 s'))
    (hT : T max (advance (machine α max) n2 s').st.taken (advance (machine α max) n2 s').tr)
    (hsub : 0 ∈ subscriptions (advance (machine α max) n2 s').tr) :
    ∃ n, FInv max (advance (machine α max) n s') := by
  obtain ⟨n1, h1⟩ := hb
  have e1 := (Take.inv_turn max _ h1).1
  have heq : advance (machine α max) n1 s' = advance (machine α max) n2 s' := by
    have a := TakeFun.advance_add (machine α max) n1 n2 s'
    have b := TakeFun.advance_add (machine α max) n2 n1 s'
    rw [advance_of_envTurn e1] at a
    rw [advance_of_envTurn ht, Nat.add_comm] at b
    exact a.symm.trans b
  refine ⟨n2, reach_advance n2 s' hr, ?_, hT, fun _ => hsub⟩
  rw [← heq]; exact h1

theorem finv_init (max : Nat) : FInv max (Sys.init (machine α max)) :=
  ⟨.init, Take.inv_init max, by simpa [Sys.init, machine] using T.init max, by simp [Sys.init]⟩

macro "run" : tactic =>
  `(tactic| simp [advance, opStep, machine, enter, step, EnvTurn, ctxOf, subscriptions, *])

theorem finv_step (max : Nat) (s s' : Sys St (Loc α) α α) (m : Move α) (h : FInv max s)
    (hs : EnvStep (machine α max) m s s') (hR : pullable s m) : ∃ n, FInv max (advance (machine α max) n s') := by
  obtain ⟨hreach, hinv, hT, hsub⟩ := h
  have hb := Take.inv_step max s s' m hinv hs
  have hr' : SReachR (machine α max) pullable s' := .step hreach (.env hs hR)
  have hgr := srcGreeted_iff hreach 0
  have hend := srcEnded_iff hreach 0
  obtain ⟨hp, hbs, hle, hoth, hoths, hm⟩ := hinv
  cases hs with
  | @call st stk g tr c i hc hl =>
    simp only at hp hbs hle hoth hoths hm hT hsub hgr hend
    cases i with
    | subscribe k =>
      have := (hT.neutral (.inp (.subscribe k)) rfl).neutral (.out (.subSrc 0)) rfl
      exact finv_of max hr' hb 1 (by run) (by run) (by run)
    | sinkUp k u =>
      simp only [legalIn, Bool.and_eq_true, beq_iff_eq, Bool.or_eq_true] at hl
      obtain ⟨hlive, hctx⟩ := hl
      have hk : k = 0 := by
        by_cases hk : k = 0
        · exact hk
        · rw [hoths k hk] at hlive; cases hlive
      subst hk
      cases hm with
      | m3 h1 h2 h3 h4 h5 h6 =>
        have hctx' := ctx_isSome_of_benign h6
        have hs0 := hsub (by simp [h2])
        have hg := hgr.2 (.inl h2)
        cases u with
        | pull =>
          by_cases hlt : st.taken < max
          · have := hT.pullFwd hg
            exact finv_of max hr' hb 2 (by run) (by run) (by run)
          · have := hT.pullDrop hg hlt
            exact finv_of max hr' hb 1 (by simp [advance, opStep, machine, enter, step, EnvTurn, hlt, hctx'])
              (by simp [advance, opStep, machine, enter, step, hlt, this])
              (by simp [advance, opStep, machine, enter, step, hlt, subscriptions, hs0])
        | term =>
          have := (hT.neutral (.inp (.sinkUp 0 .term)) rfl).neutral (.out (.srcUp 0 .term)) rfl
          exact finv_of max hr' hb 2 (by run) (by run) (by run)
        | err e =>
          have := (hT.neutral (.inp (.sinkUp 0 (.err e))) rfl).neutral (.out (.srcUp 0 (.err e))) rfl
          exact finv_of max hr' hb 2 (by run) (by run) (by run)
      | m6 h1 h2 h3 h4 h5 =>
        obtain ⟨rest, rfl, _⟩ := h5
        simp [ctxOf] at hc; subst hc; simp [isTop, inGreet, inData] at hctx
      | m1 h1 => rw [h1] at hlive; cases hlive
      | m2 h1 => rw [h1] at hlive; cases hlive
      | m4 h1 => rw [h1] at hlive; cases hlive
      | m5 h1 => rw [h1] at hlive; cases hlive
      | m7 h1 => rw [h1] at hlive; cases hlive
    | srcGreet i =>
      have hsb := legal_srcGreet hl
      have hi : i = 0 := by
        by_cases hi : i = 0
        · exact hi
        · rw [hoth i hi] at hsb; cases hsb
      subst hi
      have hs0 := hsub (by simp [hsb])
      cases hm with
      | m2 h1 h2 h3 h4 h4' h5 =>
        subst h5
        clear h3 h4 h4'
        have := hT.greet 0
        exact finv_of max hr' hb 2 (by run) (by run) (by run)
      | m1 _ h2 => rw [h2] at hsb; cases hsb
      | m3 _ h2 => rw [h2] at hsb; cases hsb
      | m4 _ h2 => rw [h2] at hsb; cases hsb
      | m5 _ h2 => rw [h2] at hsb; cases hsb
      | m6 _ h2 => rw [h2] at hsb; cases hsb
      | m7 _ h2 => rw [h2] at hsb; cases hsb
    | srcDown i d =>
      have hlive := legal_srcDown hl
      have hi : i = 0 := by
        by_cases hi : i = 0
        · exact hi
        · rw [hoth i hi] at hlive; cases hlive
      subst hi
      have hlt' : answersOf 0 tr < pullsOut 0 tr := by
        simpa [pullable, pullableB] using hR
      have he : srcEnded 0 tr = false := by
        cases hh : srcEnded 0 tr with
        | false => rfl
        | true => rw [hend.1 hh] at hlive; cases hlive
      have hs0 := hsub (by simp [hlive])
      cases hm with
      | m3 h1 h2 h3 h4 h5 h6 =>
        have hctx' := ctx_isSome_of_benign h6
        cases d with
        | data a =>
          by_cases hlt : st.taken < max
          · have := hT.dataTake hlt' he hlt a
            exact finv_of max hr' hb 2 (by run) (by run) (by run)
          · have := hT.dataDrop hlt' hlt a
            exact finv_of max hr' hb 1 (by simp [advance, opStep, machine, enter, step, EnvTurn, hlt, hctx'])
              (by simp [advance, opStep, machine, enter, step, hlt, this])
              (by simp [advance, opStep, machine, enter, step, hlt, subscriptions, hs0])
        | term =>
          have := hT.fin hlt' .term (.inl rfl)
          exact finv_of max hr' hb 1 (by run) (by run) (by run)
        | err e =>
          have := hT.fin hlt' (.err e) (.inr ⟨e, rfl⟩)
          exact finv_of max hr' hb 1 (by run) (by run) (by run)
      | m1 _ h2 => rw [h2] at hlive; cases hlive
      | m2 _ h2 => rw [h2] at hlive; cases hlive
      | m4 _ h2 => rw [h2] at hlive; cases hlive
      | m5 _ h2 => rw [h2] at hlive; cases hlive
      | m6 _ h2 => rw [h2] at hlive; cases hlive
      | m7 _ h2 => rw [h2] at hlive; cases hlive
  | @ret st stk g tr o l hl =>
    simp only at hp hbs hle hoth hoths hm hT hsub
    have hs0 : 0 ∈ subscriptions tr := by
      apply hsub
      cases hm with
      | m1 _ _ h => simp at h
      | _ => simp_all
    -- resuming a benign continuation that has nothing left to do
    have resume_quiet : ∀ (_ : ∀ f ∈ Frame.wait o l :: stk, Benign st.taken f)
        (_ : st.fin = true ∨ ¬ (0 < st.taken ∧ st.taken = max) ∨ l = .done ∨ ∀ t, l = .d3 t → t ≠ max),
        ∃ n, FInv max (advance (machine α max) n ⟨st, .run l :: stk, g, .retE :: tr, none⟩) := by
      intro h6 hcase
      have hben := h6 _ (List.mem_cons_self)
      have hrest := (List.forall_mem_cons.1 h6).2
      have hctx' := ctx_isSome_of_benign hrest
      have := (hT.neutral .retE rfl).neutral .retO rfl
      cases l with
      | done =>
        exact finv_of max hr' hb 1 (by simp [advance, opStep, machine, step, EnvTurn, hctx'])
          (by simp [advance, opStep, machine, step, this])
          (by simp [advance, opStep, machine, step, subscriptions, hs0])
      | d3 t =>
        simp [Benign] at hben
        by_cases ht : t = max
        · rcases hcase with hf | hn | hd | hd
          · exact finv_of max hr' hb 2 (by simp [advance, opStep, machine, step, EnvTurn, hctx', ht, hf])
              (by simp [advance, opStep, machine, step, this, ht, hf])
              (by simp [advance, opStep, machine, step, ht, hf, subscriptions, hs0])
          · exact absurd ⟨by omega, by omega⟩ hn
          · cases hd
          · exact absurd ht (hd t rfl)
        · exact finv_of max hr' hb 1 (by simp [advance, opStep, machine, step, EnvTurn, hctx', ht])
            (by simp [advance, opStep, machine, step, this, ht])
            (by simp [advance, opStep, machine, step, ht, subscriptions, hs0])
      | _ => simp [Benign] at hben
    cases hm with
    | m1 _ _ h => simp at h
    | m2 h1 h2 h3 h4 h4' h5 =>
      simp at h5; obtain ⟨⟨rfl, rfl⟩, rfl⟩ := h5
      simp [legalRet, h2, machine] at hl
    | m3 h1 h2 h3 h4 h5 h6 =>
      have hben := h6 _ (List.mem_cons_self)
      by_cases hself : l = .d3 max
      · subst hself
        simp [Benign] at hben
        have := (hT.neutral .retE rfl).neutral (.out (.srcUp 0 .term)) rfl
        exact finv_of max hr' hb 4 (by run) (by run) (by run)
      · refine resume_quiet h6 (Or.inr (Or.inr (Or.inr ?_)))
        intro t he hmax; subst he; subst hmax; exact hself rfl
    | m4 h1 h2 h3 h6 => exact resume_quiet h6 (Or.inl h3)
    | m5 h1 h2 h3 h6 => exact resume_quiet h6 (Or.inr (Or.inl h3))
    | m6 h1 h2 h3 h4 h5 =>
      obtain ⟨rest, he, hrest⟩ := h5
      simp at he; obtain ⟨⟨rfl, rfl⟩, rfl⟩ := he
      have := (hT.neutral .retE rfl).neutral (.out (.down 0 .term)) rfl
      exact finv_of max hr' hb 1 (by run) (by run) (by run)
    | m7 h1 h2 h3 h6 => exact resume_quiet h6 (Or.inl h3)

/-- the strengthened invariant holds at every environment turn that is reachable under the pullable discipline -/
theorem finv_of_reach (max : Nat) :
    ∀ s, SReachR (machine α max) pullable s → EnvTurn s → FInv max s := by
  intro s hs ht
  obtain ⟨n, hn⟩ := reach_runs_into_inv (machine α max) pullable (FInv max) (finv_init max)
    (fun s h => (Take.inv_turn max s h.2.1).1) (fun s s' m hi he hR => finv_step max s s' m hi he hR) s hs
  rwa [advance_of_envTurn ht] at hn

/-! ## the theorem -/

/-- C14 for take(max), max ≥ 1 -/
theorem take_demand {α : Type} (max : Nat) (hmax : 0 < max) :
    ∀ s, SReachR (Take.machine α max) pullable s → EnvTurn s → demandOk s.tr = true := by
  intro s hs ht
  obtain ⟨_, hinv, hT, hsub⟩ := finv_of_reach max s hs ht
  obtain ⟨hp, hv, hle, hoth, hoths, hm⟩ := hinv
  have hfin := finalsTo_iff hs hv 0
  have hup := upFinals_iff hs hv 0
  have hdisp := sinkDisposed_iff hs 0
  have hgr := srcGreeted_iff hs 0
  have hend := srcEnded_iff hs 0
  have hoc := openCalls_eq hs hp
  simp only [demandOk, Bool.and_eq_true, decide_eq_true_eq]
  refine ⟨hT.dp, ?_⟩
  split
  · rename_i hc
    simp only [beq_iff_eq] at hc
    obtain ⟨hlt, hf0⟩ := hc
    have hng : (s.g.ph.srcPh 0 = .idle ∨ s.g.ph.srcPh 0 = .subscribed) → False := by
      intro hph
      have : srcGreeted 0 s.tr = false := by
        cases hh : srcGreeted 0 s.tr with
        | false => rfl
        | true => have := hgr.1 hh; rcases hph with h | h <;> simp [h] at this
      have := hT.p0 this
      omega
    cases hm with
    | m1 h1 h2 => exact (hng (.inl h2)).elim
    | m2 h1 h2 => exact (hng (.inr h2)).elim
    | m3 h1 h2 h3 h4 h5 h6 =>
      by_cases htk : s.st.taken < max
      · have he : srcEnded 0 s.tr = false := by
          cases hh : srcEnded 0 s.tr with
          | false => rfl
          | true => have := hend.1 hh; simp [h2] at this
        have hbal := hT.bal he htk
        have hau : answersOf 0 s.tr < pullsOut 0 s.tr := by omega
        have hu0 : upFinals 0 s.tr = 0 := by
          have h1' : upFinals 0 s.tr ≠ 1 := fun h => by have := hup.1.1 h; simp [h2] at this
          have := hup.2; omega
        have hmem := hsub (by simp [h2])
        simp only [Bool.or_eq_true]
        refine .inr (List.any_eq_true.2 ⟨0, hmem, ?_⟩)
        simp [liveTr, hgr.2 (.inl h2), he, hu0, hau]
      · obtain ⟨a, rest, hstk⟩ := h5 (by omega) (by omega)
        rw [hstk] at hoc
        simp [deliveryDepth, hoc, framesOf]
    | m4 h1 h2 => simp [hdisp.2 h1]
    | m5 h1 h2 => have := hfin.1.2 h1; omega
    | m6 h1 h2 h3 h4 h5 =>
      obtain ⟨rest, hstk, _⟩ := h5
      rw [hstk] at hoc
      simp [hoc, framesOf]
    | m7 h1 h2 => have := hfin.1.2 h1; omega
  · rfl

end Cb.TakeDemand

#print axioms Cb.TakeDemand.take_demand
