import CallbagModel.Fun.Concat
import CallbagModel.Fun.FromIterDemand
/-!
# concat: demand conservation (C14) holds on every trace of the model, under the pullable discipline

Counting, with `P = pullsIn 0 tr`, `D = |recvData 0 tr|`, current member `c = st.i`, `U = pullsOut c tr`, `A = answersOf c tr`:

* while member `c` has not greeted: `U = A = 0`, and the sink's demand is carried by the pending greeting — `P = 0` for the
  first member (the sink has not even been greeted), `P = D + 1` for a later one: the end of member `c - 1` was its answer to
  a Pull (the discipline: `A < U` before), the sink cannot be owed more than one (the discipline: `P ≤ prompts ≤ 1 + D`);
* once it has greeted: `P + A = U + D` — the Pull re-issued at the greeting of a later member (`gotPull`, which is `0 < P`)
  is exactly the one the sink is owed;
* members after `c` have never been pulled and have never answered.

`D ≤ P` follows: a datum of member `c` needs `A < U`.  The invariant of `Fun/Concat.lean` is reused as it is (it gives
`subscriptions tr = [0, …, c]` and `gotPull ↔ 0 < P`); the new invariant carries reachability, so the generic facts relating
trace and phases are available in the step.
-/
namespace Cb

section generic
variable {St Loc α β : Type}

/-- under the discipline a sink never has sent more Pulls than it has received messages entitling it to one -/
theorem pulls_le_prompts {M : Machine St Loc α β} {s : Sys St Loc α β} (hs : SReachR M pullable s) (k : Nat) :
    pullsIn k s.tr ≤ promptsTo k s.tr := by
  induction hs with
  | init => simp [Sys.init, pullsIn, promptsTo]
  | @step a b _ hab ih =>
    cases hab with
    | op h =>
      unfold Cb.opStep at h
      cases hp : a.panicked with
      | some m => simp [hp] at h
      | none =>
        simp only [hp, Option.isSome_none, Bool.false_eq_true, ↓reduceIte] at h
        cases hs : a.stack with
        | nil => simp [hs] at h
        | cons f r =>
          cases f with
          | wait o l => simp [hs] at h
          | run l =>
            simp only [hs] at h
            cases hst : M.step a.st l with
            | ret => simp only [hst, Option.some.injEq] at h; subst h; simpa [pullsIn, promptsTo] using ih
            | tau s' l' => simp only [hst, Option.some.injEq] at h; subst h; exact ih
            | panic m => simp only [hst, Option.some.injEq] at h; subst h; simpa [pullsIn, promptsTo] using ih
            | call o s' l' =>
              simp only [hst, Option.some.injEq] at h; subst h
              cases o with
              | greet k' => simp only [pullsIn, promptsTo]; omega
              | down k' d =>
                cases d with
                | data b => simp only [pullsIn, promptsTo]; omega
                | term => simpa [pullsIn, promptsTo] using ih
                | err e => simpa [pullsIn, promptsTo] using ih
              | subSrc i => simpa [pullsIn, promptsTo] using ih
              | srcUp i u => simpa [pullsIn, promptsTo] using ih
              | app b => simpa [pullsIn, promptsTo] using ih
    | env h hR =>
      cases h with
      | ret hl => simpa [pullsIn, promptsTo] using ih
      | call i hc hl =>
        simp only at ih ⊢
        cases i with
        | subscribe k' => simpa [pullsIn, promptsTo] using ih
        | srcGreet j => simpa [pullsIn, promptsTo] using ih
        | srcDown j d => simpa [pullsIn, promptsTo] using ih
        | sinkUp k' u =>
          cases u with
          | term => simpa [pullsIn, promptsTo] using ih
          | err e => simpa [pullsIn, promptsTo] using ih
          | pull =>
            simp only [pullsIn, promptsTo]
            by_cases hk : k' = k
            · subst hk
              have := hR
              simp only [pullable, pullableB, decide_eq_true_eq] at this
              simp only [↓reduceIte]; omega
            · simp only [hk, ↓reduceIte]; omega

end generic
end Cb

namespace Cb.ConcatDemand
open Cb Cb.Concat Cb.ConcatFun

variable {α : Type}

/-- the demand accounting while the output is open; `i` is the current member -/
def Z (i : Nat) (tr : List (Ev α α)) : Prop :=
  (srcGreeted i tr = false → pullsOut i tr = 0 ∧ answersOf i tr = 0 ∧ (i = 0 → pullsIn 0 tr = 0) ∧
      (i ≠ 0 → pullsIn 0 tr = (recvData 0 tr).length + 1)) ∧
  (srcGreeted i tr = true → pullsIn 0 tr + answersOf i tr = pullsOut i tr + (recvData 0 tr).length)

structure Y (i : Nat) (tr : List (Ev α α)) : Prop where
  le : (recvData 0 tr).length ≤ pullsIn 0 tr
  fut : ∀ j, i < j → pullsOut j tr = 0 ∧ answersOf j tr = 0
  acc : sinkDisposed 0 tr = true ∨ finalsTo 0 tr = 1 ∨ Z i tr

variable {i : Nat} {tr : List (Ev α α)}

theorem Y.z (h : Y i tr) (nd : sinkDisposed 0 tr = false) (nf : finalsTo 0 tr = 0) : Z i tr := by
  rcases h.acc with h | h | h
  · rw [nd] at h; cases h
  · omega
  · exact h

theorem Y.init : Y 0 ([] : List (Ev α α)) :=
  ⟨by simp [recvData], fun j _ => by simp [pullsOut, answersOf],
    .inr (.inr ⟨fun _ => by simp [pullsOut, answersOf, pullsIn], fun h => by simp [srcGreeted] at h⟩)⟩

/-- A: the sink subscribes, member 0 is subscribed -/
theorem Y.sub : Y 0 ([.out (.subSrc 0), .inp (.subscribe 0)] : List (Ev α α)) :=
  ⟨by simp [recvData], fun j _ => by simp [pullsOut, answersOf],
    .inr (.inr ⟨fun _ => by simp [pullsOut, answersOf, pullsIn], fun h => by simp [srcGreeted] at h⟩)⟩

/-- B: the sink pulls, the Pull goes to the current member -/
theorem Y.pullStep (h : Y i tr) (nd : sinkDisposed 0 tr = false) (nf : finalsTo 0 tr = 0) (hg : srcGreeted i tr = true) :
    Y i (.out (.srcUp i .pull) :: .inp (.sinkUp 0 .pull) :: tr) := by
  have hz := (h.z nd nf).2 hg
  refine ⟨?_, ?_, .inr (.inr ⟨?_, ?_⟩)⟩
  · have := h.le; simp only [recvData, pullsIn, ↓reduceIte]; omega
  · intro j hj
    have hij : ¬ i = j := by omega
    simpa [pullsOut, answersOf, hij] using h.fut j hj
  · intro hg'; simp [srcGreeted, hg] at hg'
  · intro _; simp only [recvData, pullsIn, pullsOut, answersOf, ↓reduceIte]; omega

/-- C: the sink disposes, the current member is told -/
theorem Y.endStep (s : Nat) (u : Up) (hu : u ≠ .pull) (h : Y i tr) :
    Y i (.out (.srcUp s u) :: .inp (.sinkUp 0 u) :: tr) := by
  cases u with
  | pull => exact absurd rfl hu
  | term =>
    exact ⟨by simpa [recvData, pullsIn] using h.le, fun j hj => by simpa [pullsOut, answersOf] using h.fut j hj,
      .inl (by simp [sinkDisposed])⟩
  | err e =>
    exact ⟨by simpa [recvData, pullsIn] using h.le, fun j hj => by simpa [pullsOut, answersOf] using h.fut j hj,
      .inl (by simp [sinkDisposed])⟩

/-- D0: member 0 greets, the sink is greeted -/
theorem Y.greet0 (h : Y 0 tr) (nd : sinkDisposed 0 tr = false) (nf : finalsTo 0 tr = 0) (hg : srcGreeted 0 tr = false) :
    Y 0 (.out (.greet 0) :: .inp (.srcGreet 0) :: tr) := by
  obtain ⟨h1, h2, h3, _⟩ := (h.z nd nf).1 hg
  have h3 := h3 rfl
  have hle := h.le
  refine ⟨by simpa [recvData, pullsIn] using h.le, fun j hj => by simpa [pullsOut, answersOf] using h.fut j hj,
    .inr (.inr ⟨?_, ?_⟩)⟩
  · intro hg'; simp [srcGreeted] at hg'
  · intro _; simp only [recvData, pullsIn, pullsOut, answersOf]; omega

/-- the demand carried by the pending greeting of a later member -/
theorem Y.carried {j : Nat} (hj : j ≠ 0) (h : Y j tr) (nd : sinkDisposed 0 tr = false) (nf : finalsTo 0 tr = 0)
    (hg : srcGreeted j tr = false) : pullsIn 0 tr = (recvData 0 tr).length + 1 :=
  ((h.z nd nf).1 hg).2.2.2 hj

/-- D2: a later member greets: the Pull the sink is owed is re-issued -/
theorem Y.greetPull {j : Nat} (hj : j ≠ 0) (h : Y j tr) (nd : sinkDisposed 0 tr = false) (nf : finalsTo 0 tr = 0)
    (hg : srcGreeted j tr = false) : Y j (.out (.srcUp j .pull) :: .inp (.srcGreet j) :: tr) := by
  obtain ⟨h1, h2, _, h4⟩ := (h.z nd nf).1 hg
  have h4 := h4 hj
  refine ⟨by simpa [recvData, pullsIn] using h.le, ?_, .inr (.inr ⟨?_, ?_⟩)⟩
  · intro j' hj'
    have hij : ¬ j = j' := by omega
    simpa [pullsOut, answersOf, hij] using h.fut j' hj'
  · intro hg'; simp [srcGreeted] at hg'
  · intro _; simp only [recvData, pullsIn, pullsOut, answersOf, ↓reduceIte]; omega

/-- E1: the current member answers a Pull with a datum, it is passed on -/
theorem Y.dataStep (a : α) (h : Y i tr) (nd : sinkDisposed 0 tr = false) (nf : finalsTo 0 tr = 0)
    (hg : srcGreeted i tr = true) (hp : answersOf i tr < pullsOut i tr) :
    Y i (.out (.down 0 (.data a)) :: .inp (.srcDown i (.data a)) :: tr) := by
  have hz := (h.z nd nf).2 hg
  refine ⟨?_, ?_, .inr (.inr ⟨?_, ?_⟩)⟩
  · simp only [recvData, pullsIn, ↓reduceIte, List.length_append, List.length_singleton]; omega
  · intro j hj
    have hij : ¬ i = j := by omega
    simpa [pullsOut, answersOf, hij] using h.fut j hj
  · intro hg'; simp [srcGreeted, hg] at hg'
  · intro _
    simp only [recvData, pullsIn, pullsOut, answersOf, ↓reduceIte, List.length_append, List.length_singleton]; omega

/-- E2: the current member fails, the error is passed on -/
theorem Y.errStep (e : Nat) (h : Y i tr) (nf : finalsTo 0 tr = 0) :
    Y i (.out (.down 0 (.err e)) :: .inp (.srcDown i (.err e)) :: tr) := by
  refine ⟨by simpa [recvData, pullsIn] using h.le, ?_, .inr (.inl (by simp [finalsTo, nf]))⟩
  intro j hj
  have hij : ¬ i = j := by omega
  simpa [pullsOut, answersOf, hij] using h.fut j hj

/-- E3: the last member completes, the sink is completed -/
theorem Y.lastStep (h : Y i tr) (nf : finalsTo 0 tr = 0) :
    Y (i + 1) (.out (.down 0 .term) :: .inp (.srcDown i .term) :: tr) := by
  refine ⟨by simpa [recvData, pullsIn] using h.le, ?_, .inr (.inl (by simp [finalsTo, nf]))⟩
  intro j hj
  have hij : ¬ i = j := by omega
  simpa [pullsOut, answersOf, hij] using h.fut j (by omega)

/-- E4: a member that is not the last completes — its end is its answer to the Pull the sink is owed — and the next member is
subscribed: the sink's demand is now carried by the pending greeting -/
theorem Y.nextStep (h : Y i tr) (nd : sinkDisposed 0 tr = false) (nf : finalsTo 0 tr = 0)
    (hg : srcGreeted i tr = true) (hp : answersOf i tr < pullsOut i tr)
    (hq : pullsIn 0 tr ≤ 1 + (recvData 0 tr).length) (hg' : srcGreeted (i + 1) tr = false) :
    Y (i + 1) (.out (.subSrc (i + 1)) :: .inp (.srcDown i .term) :: tr) := by
  have hz := (h.z nd nf).2 hg
  obtain ⟨f1, f2⟩ := h.fut (i + 1) (by omega)
  refine ⟨by simpa [recvData, pullsIn] using h.le, ?_, .inr (.inr ⟨?_, ?_⟩)⟩
  · intro j hj
    have hij : ¬ i = j := by omega
    simpa [pullsOut, answersOf, hij] using h.fut j (by omega)
  · intro _
    refine ⟨by simpa [pullsOut] using f1, by simpa [answersOf] using f2, fun h0 => by omega, fun _ => ?_⟩
    simp only [recvData, pullsIn]; omega
  · intro hc; simp [srcGreeted, hg'] at hc

/-- F: a call made by the operator returns, its handler returns at once -/
theorem Y.retStep (h : Y i tr) : Y i (.retO :: .retE :: tr) := by
  obtain ⟨h1, h2, h3⟩ := h
  refine ⟨by simpa [recvData, pullsIn] using h1, fun j hj => by simpa [pullsOut, answersOf] using h2 j hj, ?_⟩
  simpa [Z, sinkDisposed, finalsTo, srcGreeted, pullsOut, answersOf, pullsIn, recvData] using h3

/-! ## the invariant -/

/-- reachable under the discipline, at an environment turn, with the demand accounting -/
def DInv (n : Nat) (s : Sys St (Loc α) α α) : Prop :=
  SReachR (machine α n) pullable s ∧ EnvTurn s ∧ Y s.st.i s.tr

theorem dinv_init (n : Nat) : DInv n (Sys.init (machine α n)) :=
  ⟨.init, by simp [EnvTurn, Sys.init, ctxOf], Y.init⟩

/-- the configuration after `c` operator steps, described explicitly, satisfies the invariant -/
theorem fin_of {n : Nat} {s' : Sys St (Loc α) α α} (hr : SReachR (machine α n) pullable s') (c : Nat)
    {i : Nat} {tr : List (Ev α α)} (hY : Y i tr)
    (hrun : (advance (machine α n) c s').st.i = i ∧ (advance (machine α n) c s').tr = tr ∧
      (advance (machine α n) c s').panicked = none ∧ (ctxOf (advance (machine α n) c s').stack).isSome = true) :
    ∃ c, DInv n (advance (machine α n) c s') := by
  obtain ⟨r1, r2, r3, r4⟩ := hrun
  refine ⟨c, reach_advance c hr, ⟨r3, r4⟩, ?_⟩
  rw [r1, r2]; exact hY

macro "run" : tactic => `(tactic| simp [advance, opStep, machine, enter, step, ctxOf, *])
macro "runq" : tactic => `(tactic| simp [advance, opStep, machine, enter, step, *])

theorem dinv_step (n : Nat) (hn : 0 < n) (s s' : Sys St (Loc α) α α) (m : Move α) (h : DInv n s)
    (hs : EnvStep (machine α n) m s s') (hR : pullable s m) : ∃ c, DInv n (advance (machine α n) c s') := by
  obtain ⟨hr, ht, hY⟩ := h
  have hr' : SReachR (machine α n) pullable s' := .step hr (.env hs hR)
  obtain ⟨hI, hF⟩ := finv_of_reach n hn s hr.weaken ht
  obtain ⟨hp, hv, hoths, hm⟩ := hI
  have hdisp := sinkDisposed_iff hr 0
  have hfin := finalsTo_iff hr hv 0
  have hgr := srcGreeted_iff hr
  have hq : pullsIn 0 s.tr ≤ 1 + (recvData 0 s.tr).length :=
    Nat.le_trans (pulls_le_prompts hr 0) (promptsTo_le hr hv 0)
  -- while the sink is neither disposed nor completed, the trace says so
  have hopen : (s.g.ph.sinkPh 0 = .subscribed ∨ s.g.ph.sinkPh 0 = .live) →
      sinkDisposed 0 s.tr = false ∧ finalsTo 0 s.tr = 0 := by
    intro hph
    constructor
    · cases hd : sinkDisposed 0 s.tr with
      | false => rfl
      | true => rw [hdisp.1 hd] at hph; rcases hph with h | h <;> cases h
    · have h1 : finalsTo 0 s.tr ≠ 1 := fun hh => by rw [hfin.1.1 hh] at hph; rcases hph with h | h <;> cases h
      have := hfin.2; omega
  cases hs with
  | @call st stk g tr c i hc hl =>
    simp only at hp hv hoths hm hF hY hdisp hfin hgr hq hopen
    obtain ⟨si, sl, gp⟩ := st
    simp only at hF hY
    cases i with
    | subscribe k =>
      simp only [legalIn, Bool.and_eq_true, beq_iff_eq, machine, Bool.or_false] at hl
      obtain ⟨⟨hc', hidle⟩, rfl⟩ := hl
      cases hm with
      | idle h1 h2 h3 h4 =>
        subst h3 h4
        rcases hF with ⟨_, htr, hgp⟩ | ⟨hne, _⟩
        · subst htr hgp
          have hn' : ¬ (0 = n) := by omega
          exact fin_of hr' 1 Y.sub (by run)
        · exact absurd h1 hne
      | waiting h1 h2 h3 h4 h5 h6 h7 =>
        by_cases h0 : si = 0
        · simp [h5 h0] at hidle
        · simp [h6 h0] at hidle
      | live h1 h2 h3 h4 h5 h6 h7 => simp [h3] at hidle
      | over h1 h2 h3 => rcases h1 with h1 | h1 <;> simp [h1] at hidle
    | sinkUp k u =>
      simp only [legalIn, Bool.and_eq_true, beq_iff_eq, Bool.or_eq_true] at hl
      obtain ⟨hlive, hctx⟩ := hl
      have hk : k = 0 := by
        by_cases hk : k = 0
        · exact hk
        · rw [hoths k hk] at hlive; cases hlive
      subst hk
      cases hm with
      | idle h1 h2 h3 h4 => simp [h1] at hlive
      | waiting h1 h2 h3 h4 h5 h6 h7 =>
        obtain ⟨rest, rfl, _⟩ := h7
        simp [ctxOf] at hc; subst hc; simp [isTop, inGreet, inData] at hctx
      | live h1 h2 h3 h4 h5 h6 h7 =>
        simp only at h1 h2 h4 h5 h6
        subst h2
        obtain ⟨nd, nf⟩ := hopen (.inr h3)
        have hg : srcGreeted si tr = true := (hgr si).2 (.inl h4)
        cases u with
        | pull => exact fin_of hr' 2 (hY.pullStep nd nf hg) (by run)
        | term => exact fin_of hr' 1 (hY.endStep si .term (by simp)) (by run)
        | err e => exact fin_of hr' 1 (hY.endStep si (.err e) (by simp)) (by run)
      | over h1 h2 h3 => rcases h1 with h1 | h1 <;> simp [h1] at hlive
    | srcGreet j =>
      simp only [legalIn, Bool.and_eq_true, beq_iff_eq, machine, Bool.false_and, Bool.or_false] at hl
      obtain ⟨hsub, hin⟩ := hl
      cases hm with
      | idle h1 h2 h3 h4 => simp [h2 j] at hsub
      | waiting h1 h2 h3 h4 h5 h6 h7 =>
        simp only at h1 h2 h3 h4 h5 h6 h7
        have hj : j = si := by
          by_cases hj : j = si
          · exact hj
          · rcases Nat.lt_or_gt_of_ne hj with hj' | hj'
            · simp [h3 j hj'] at hsub
            · simp [h4 j hj'] at hsub
        subst hj
        obtain ⟨rest, rfl, hrest⟩ := h7
        have hg : srcGreeted j tr = false := by
          cases hgj : srcGreeted j tr with
          | false => rfl
          | true => have := (hgr j).1 hgj; rw [h2] at this; simp at this
        by_cases h0 : j = 0
        · subst h0
          obtain ⟨nd, nf⟩ := hopen (.inl (h5 rfl))
          exact fin_of hr' 2 (hY.greet0 nd nf hg) (by run)
        · have hs0 := h6 h0
          obtain ⟨nd, nf⟩ := hopen (.inr hs0)
          have hT : T n j gp tr := (hF.resolve_left fun hh => by simp [hs0] at hh).2
          have hcar := hY.carried h0 nd nf hg
          cases gp with
          | false =>
            have := hT.pull
            simp at this; omega
          | true => exact fin_of hr' 4 (hY.greetPull h0 nd nf hg) (by run)
      | live h1 h2 h3 h4 h5 h6 h7 =>
        simp only at h1 h2 h4 h5 h6
        by_cases hj : j = si
        · subst hj; simp [h4] at hsub
        · rcases Nat.lt_or_gt_of_ne hj with hj' | hj'
          · simp [h5 j hj'] at hsub
          · simp [h6 j hj'] at hsub
      | over h1 h2 h3 => exact absurd hsub (h2 j).2
    | srcDown j d =>
      simp only [legalIn, Bool.and_eq_true, beq_iff_eq, Bool.or_eq_true] at hl
      obtain ⟨hlive, hctx⟩ := hl
      cases hm with
      | idle h1 h2 h3 h4 => simp [h2 j] at hlive
      | waiting h1 h2 h3 h4 h5 h6 h7 =>
        simp only at h1 h2 h3 h4 h5 h6 h7
        by_cases hj : j = si
        · subst hj; simp [h2] at hlive
        · rcases Nat.lt_or_gt_of_ne hj with hj' | hj'
          · simp [h3 j hj'] at hlive
          · simp [h4 j hj'] at hlive
      | live h1 h2 h3 h4 h5 h6 h7 =>
        simp only at h1 h2 h4 h5 h6
        subst h2
        have hj : j = si := by
          by_cases hj : j = si
          · exact hj
          · rcases Nat.lt_or_gt_of_ne hj with hj' | hj'
            · simp [h5 j hj'] at hlive
            · simp [h6 j hj'] at hlive
        subst hj
        obtain ⟨nd, nf⟩ := hopen (.inr h3)
        have hg : srcGreeted j tr = true := (hgr j).2 (.inl h4)
        have hpl : answersOf j tr < pullsOut j tr := by simpa [pullable, pullableB] using hR
        cases d with
        | data a => exact fin_of hr' 1 (hY.dataStep a nd nf hg hpl) (by run)
        | err e => exact fin_of hr' 1 (hY.errStep e nf) (by run)
        | term =>
          by_cases hlast : j + 1 = n
          · exact fin_of hr' 2 (hY.lastStep nf) (by run)
          · have hg' : srcGreeted (j + 1) tr = false := by
              cases hgj : srcGreeted (j + 1) tr with
              | false => rfl
              | true => have := (hgr (j + 1)).1 hgj; rw [h6 (j + 1) (by omega)] at this; simp at this
            exact fin_of hr' 2 (hY.nextStep nd nf hg hpl hq hg') (by run)
      | over h1 h2 h3 => exact absurd hlive (h2 j).1
  | @ret st stk g tr o l hl =>
    simp only at hp hv hoths hm hF hY
    have hdone : ∀ (_ : ∀ f ∈ (Frame.wait o l : Frame (Loc α) α) :: stk, Quiet f),
        l = .done ∧ ∀ f ∈ stk, Quiet f := by
      intro h
      have h1 := (List.forall_mem_cons.1 h).1
      refine ⟨?_, (List.forall_mem_cons.1 h).2⟩
      cases l <;> simp [Quiet] at h1 ⊢
    cases hm with
    | idle _ _ _ h => simp at h
    | waiting h1 h2 h3 h4 h5 h6 h7 =>
      obtain ⟨rest, he, _⟩ := h7
      simp at he; obtain ⟨⟨rfl, rfl⟩, rfl⟩ := he
      simp [legalRet, h2, machine] at hl
    | live h1 h2 h3 h4 h5 h6 h7 =>
      obtain ⟨rfl, hqq⟩ := hdone h7
      have hctx := ctx_isSome_of_quiet hqq
      exact fin_of hr' 1 hY.retStep (by runq)
    | over h1 h2 h3 =>
      obtain ⟨rfl, hqq⟩ := hdone h3
      have hctx := ctx_isSome_of_quiet hqq
      exact fin_of hr' 1 hY.retStep (by runq)

/-- every environment turn reachable under the discipline satisfies the demand accounting -/
theorem dinv_of_reach (n : Nat) (hn : 0 < n) (s : Sys St (Loc α) α α)
    (hs : SReachR (machine α n) pullable s) (ht : EnvTurn s) : DInv n s := by
  obtain ⟨c, hc⟩ := reach_runs_into_inv (machine α n) pullable (DInv n) (dinv_init n) (fun _ h => h.2.1)
    (dinv_step n hn) s hs
  rwa [advance_of_envTurn ht] at hc

/-- **C14** for `concat` (model side): under the pullable discipline, at every reachable configuration where the environment
has control, the sink has never received more Data than it sent Pulls, and a Pull that has not been answered is moot (the sink
disposed), or owed by the current member (live, fewer answers than Pulls), or carried by the pending greeting of the member
just subscribed (at which the operator re-issues it). -/
theorem concat_demand {α : Type} (n : Nat) (hn : 0 < n) :
    ∀ s, SReachR (Concat.machine α n) pullable s → EnvTurn s → demandOk s.tr = true := by
  intro s hs ht
  obtain ⟨_, _, hY⟩ := dinv_of_reach n hn s hs ht
  obtain ⟨⟨hp, hv, hoths, hm⟩, hF⟩ := finv_of_reach n hn s hs.weaken ht
  have hdisp := sinkDisposed_iff hs 0
  have hfin := finalsTo_iff hs hv 0
  unfold demandOk
  simp only [Bool.and_eq_true, decide_eq_true_eq]
  refine ⟨hY.le, ?_⟩
  split
  · rename_i hc
    simp only [beq_iff_eq] at hc
    obtain ⟨hlt, hf⟩ := hc
    have hT : T n s.st.i s.st.gotPull s.tr := by
      rcases hF with ⟨_, htr, _⟩ | ⟨_, hT⟩
      · rw [htr] at hlt; simp [pullsIn] at hlt
      · exact hT
    have hmem : s.st.i < n → s.st.i ∈ subscriptions s.tr := by
      intro hi
      rw [hT.subs, List.mem_range]
      omega
    have hopen : (s.g.ph.sinkPh 0 = .subscribed ∨ s.g.ph.sinkPh 0 = .live) → Z s.st.i s.tr := by
      intro hph
      refine hY.z ?_ hf
      cases hd : sinkDisposed 0 s.tr with
      | false => rfl
      | true => rw [hdisp.1 hd] at hph; rcases hph with h | h <;> cases h
    cases hm with
    | idle h1 h2 h3 h4 =>
      rcases hF with ⟨_, htr, _⟩ | ⟨hne, _⟩
      · rw [htr] at hlt; simp [pullsIn] at hlt
      · exact absurd h1 hne
    | waiting h1 h2 h3 h4 h5 h6 h7 =>
      have hg : srcGreeted s.st.i s.tr = false := by
        cases hgj : srcGreeted s.st.i s.tr with
        | false => rfl
        | true => have := (srcGreeted_iff hs s.st.i).1 hgj; rw [h2] at this; simp at this
      have hpend : pendingTr s.st.i s.tr = true := by simp [pendingTr, hmem h1, hg]
      have hany : (subscriptions s.tr).any (fun i => (liveTr i s.tr && decide (answersOf i s.tr < pullsOut i s.tr))
          || pendingTr i s.tr) = true :=
        List.any_eq_true.2 ⟨s.st.i, hmem h1, by simp [hpend]⟩
      simp [hany]
    | live h1 h2 h3 h4 h5 h6 h7 =>
      have hg : srcGreeted s.st.i s.tr = true := (srcGreeted_iff hs s.st.i).2 (.inl h4)
      have hz := (hopen (.inr h3)).2 hg
      have hne : srcEnded s.st.i s.tr = false := by
        cases he : srcEnded s.st.i s.tr with
        | false => rfl
        | true => have := (srcEnded_iff hs s.st.i).1 he; rw [h4] at this; cases this
      have hup : upFinals s.st.i s.tr = 0 := by
        have hu := upFinals_iff hs hv s.st.i
        have h1' : upFinals s.st.i s.tr ≠ 1 := fun hh => by have := hu.1.1 hh; rw [h4] at this; cases this
        have := hu.2; omega
      have hlive : liveTr s.st.i s.tr = true := by simp [liveTr, hg, hne, hup]
      have hany : (subscriptions s.tr).any (fun i => (liveTr i s.tr && decide (answersOf i s.tr < pullsOut i s.tr))
          || pendingTr i s.tr) = true :=
        List.any_eq_true.2 ⟨s.st.i, hmem h1, by
          simp only [hlive, Bool.true_and, Bool.or_eq_true, decide_eq_true_eq]; left; omega⟩
      simp [hany]
    | over h1 h2 h3 =>
      rcases h1 with h1 | h1
      · simp [hdisp.2 h1]
      · have := hfin.1.2 h1; omega
  · rfl

end Cb.ConcatDemand

#print axioms Cb.ConcatDemand.concat_demand
