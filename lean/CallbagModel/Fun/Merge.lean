import CallbagModel.Inv.Merge
import CallbagModel.Inv.TraceGhost
import CallbagModel.Spec
/-!
# merge: the functional specification C08 (`mergeOk`) holds on every trace of the model cut at an environment turn
-/
namespace Cb.MergeFun
open Cb Cb.Merge

variable {α : Type}

/-! ### the clauses of `mergeOk`, named -/

def dataCause : Ev α α → Ev α α → Bool :=
  fun e1 _ => match e1 with | .inp (.srcDown _ (.data _)) => true | _ => false

def greetCause : Ev α α → Ev α α → Bool := fun e1 _ => isSrcGreet e1

def chkGreet : List (Ev α α) → Ev α α → Ev α α → Bool :=
  fun past e1 e2 => match e1 with
    | .inp (.srcGreet i) =>
        if outputOver past then (match e2 with | .out (.srcUp i' .term) => i' == i | _ => false)
        else if !(past.any isSrcGreet) then isGreetOut 0 e2 else !(isGreetOut 0 e2)
    | _ => true

def chkTermOnly (n : Nat) : List (Ev α α) → Ev α α → Ev α α → Bool :=
  fun past e1 e2 => if isTermOut 0 e2 then
    isSrcTerm e1 && allBelow n (fun j => srcCompleted j (e1 :: past)) else true

def chkTermIf (n : Nat) : List (Ev α α) → Ev α α → Ev α α → Bool :=
  fun past e1 e2 => if isSrcTerm e1 && allBelow n (fun j => srcCompleted j (e1 :: past)) && !outputOver past
    then isTermOut 0 e2 else true

theorem mergeOk_eq [BEq α] (n : Nat) (tr : List (Ev α α)) :
    mergeOk n tr =
      ((recvData 0 tr == (arrivals tr).map (·.2))
        && eachPrecededBy (isDataOut 0) dataCause tr
        && eachPrecededBy (isGreetOut 0) greetCause tr
        && eachAtNext chkGreet tr
        && eachAtNext (chkTermOnly n) tr
        && eachAtNext (chkTermIf n) tr) := rfl


/-! ### generic step lemmas for the adjacency predicates -/

/-- at an environment turn the newest event is a call or a return of the operator -/
def HeadOk : List (Ev α α) → Prop
  | [] => True
  | .out _ :: _ => True
  | .retO :: _ => True
  | _ => False

theorem epb_two {p : Ev α α → Bool} {q : Ev α α → Ev α α → Bool} {e1 e2 : Ev α α} {tr : List (Ev α α)}
    (h : eachPrecededBy p q tr = true) (h1 : p e1 = false) (h2 : p e2 = true → q e1 e2 = true) :
    eachPrecededBy p q (e2 :: e1 :: tr) = true := by
  have h0 : eachPrecededBy p q (e1 :: tr) = true := by
    cases tr with
    | nil => simp [eachPrecededBy, h1]
    | cons e0 t => simp [eachPrecededBy, h1, h]
  simp only [eachPrecededBy, Bool.and_eq_true, h0, and_true]
  split
  · rename_i hp; exact h2 hp
  · rfl

theorem ean_two {chk : List (Ev α α) → Ev α α → Ev α α → Bool} {e1 e2 : Ev α α} {tr : List (Ev α α)}
    (h : eachAtNext chk tr = true) (hd : HeadOk tr)
    (h1 : ∀ t o, chk t (.out o) e1 = true) (h1' : ∀ t, chk t .retO e1 = true) (h2 : chk tr e1 e2 = true) :
    eachAtNext chk (e2 :: e1 :: tr) = true := by
  have h0 : eachAtNext chk (e1 :: tr) = true := by
    cases tr with
    | nil => simp [eachAtNext]
    | cons e0 t =>
      simp only [eachAtNext, Bool.and_eq_true]
      refine ⟨?_, h⟩
      cases e0 with
      | out o => exact h1 t o
      | retO => exact h1' t
      | _ => exact hd.elim
  simp only [eachAtNext, Bool.and_eq_true]
  exact ⟨h2, h0⟩

/-! ### the trace part of the invariant -/

structure TrOk (n : Nat) (tr : List (Ev α α)) : Prop where
  head : HeadOk tr
  c1 : recvData 0 tr = (arrivals tr).map (·.2)
  c2 : eachPrecededBy (isDataOut 0) dataCause tr = true
  c3 : eachPrecededBy (isGreetOut 0) greetCause tr = true
  c4 : eachAtNext chkGreet tr = true
  c5 : eachAtNext (chkTermOnly n) tr = true
  c6 : eachAtNext (chkTermIf n) tr = true

theorem TrOk.mergeOk [BEq α] [LawfulBEq α] {n : Nat} {tr : List (Ev α α)} (h : TrOk n tr) : mergeOk n tr = true := by
  rw [mergeOk_eq]
  simp only [Bool.and_eq_true, beq_iff_eq]
  exact ⟨⟨⟨⟨⟨h.c1, h.c2⟩, h.c3⟩, h.c4⟩, h.c5⟩, h.c6⟩

/-- first events of a macro-step that no clause looks at -/
def boringIn : Ev α α → Bool
  | .retE => true
  | .inp (.subscribe _) => true
  | .inp (.sinkUp _ _) => true
  | .inp (.srcDown _ (.err _)) => true
  | _ => false

/-- last events of a macro-step that no clause looks at -/
def boringOut : Ev α α → Bool
  | .retO => true
  | .out (.subSrc _) => true
  | .out (.srcUp _ _) => true
  | .out (.down _ (.err _)) => true
  | _ => false

theorem TrOk.init (n : Nat) : TrOk n ([] : List (Ev α α)) :=
  ⟨trivial, rfl, rfl, rfl, rfl, rfl, rfl⟩

theorem headOk_of_boringOut {e : Ev α α} (h : boringOut e = true) (tr : List (Ev α α)) : HeadOk (e :: tr) := by
  cases e with
  | out o => trivial
  | retO => trivial
  | _ => simp [boringOut] at h

theorem TrOk.boring {n : Nat} {tr : List (Ev α α)} {e1 e2 : Ev α α} (h : TrOk n tr)
    (h1 : boringIn e1 = true) (h2 : boringOut e2 = true) : TrOk n (e2 :: e1 :: tr) := by
  have a1 : isDataOut 0 e1 = false ∧ isGreetOut 0 e1 = false ∧ isSrcTerm e1 = false ∧ isTermOut 0 e1 = false ∧
      recvData 0 (e1 :: tr) = recvData 0 tr ∧ arrivals (e1 :: tr) = arrivals tr ∧ (∀ p x, chkGreet p e1 x = true) := by
    rcases e1 with (k | ⟨k, u⟩ | i | ⟨i, (a | _ | x)⟩) | o | _ | _ | _ <;>
      simp [boringIn] at h1 <;> simp [isDataOut, isGreetOut, isSrcTerm, isTermOut, recvData, arrivals, chkGreet]
  have a2 : isDataOut 0 e2 = false ∧ isGreetOut 0 e2 = false ∧ isTermOut 0 e2 = false ∧
      (∀ t, recvData 0 (e2 :: t) = recvData 0 t) ∧ (∀ t, arrivals (e2 :: t) = arrivals t) := by
    rcases e2 with i | (k | ⟨k, (a | _ | x)⟩ | i | ⟨i, u⟩ | b) | _ | _ | _ <;>
      simp [boringOut] at h2 <;> simp [isDataOut, isGreetOut, isTermOut, recvData, arrivals]
  obtain ⟨p1, p2, p3, p4, p5, p6, p7⟩ := a1
  obtain ⟨q1, q2, q3, q4, q5⟩ := a2
  refine ⟨headOk_of_boringOut h2 _, ?_, ?_, ?_, ?_, ?_, ?_⟩
  · rw [q4, q5, p5, p6]; exact h.c1
  · exact epb_two h.c2 p1 (fun hp => by rw [q1] at hp; cases hp)
  · exact epb_two h.c3 p2 (fun hp => by rw [q2] at hp; cases hp)
  · exact ean_two h.c4 h.head (fun _ _ => rfl) (fun _ => rfl) (p7 _ _)
  · exact ean_two h.c5 h.head (fun _ _ => by simp [chkTermOnly, p4]) (fun _ => by simp [chkTermOnly, p4])
      (by simp [chkTermOnly, q3])
  · exact ean_two h.c6 h.head (fun _ _ => by simp [chkTermIf, isSrcTerm]) (fun _ => by simp [chkTermIf, isSrcTerm])
      (by simp [chkTermIf, p3])


/-- a member greets first while the output is open: the sink is greeted -/
theorem TrOk.greetFirst {n : Nat} {tr : List (Ev α α)} (h : TrOk n tr) (i : Nat)
    (ho : outputOver tr = false) (hg : tr.any isSrcGreet = false) :
    TrOk n (.out (.greet 0) :: .inp (.srcGreet i) :: tr) := by
  refine ⟨trivial, ?_, ?_, ?_, ?_, ?_, ?_⟩
  · simpa [recvData, arrivals] using h.c1
  · exact epb_two h.c2 rfl (fun hp => by simp [isDataOut] at hp)
  · exact epb_two h.c3 rfl (fun _ => rfl)
  · exact ean_two h.c4 h.head (fun _ _ => rfl) (fun _ => rfl) (by simp [chkGreet, ho, hg, isGreetOut])
  · exact ean_two h.c5 h.head (fun _ _ => by simp [chkTermOnly, isTermOut]) (fun _ => by simp [chkTermOnly, isTermOut])
      (by simp [chkTermOnly, isTermOut])
  · exact ean_two h.c6 h.head (fun _ _ => by simp [chkTermIf, isSrcTerm]) (fun _ => by simp [chkTermIf, isSrcTerm])
      (by simp [chkTermIf, isSrcTerm])

/-- a member greets while the output is open, not the first one -/
theorem TrOk.greetLater {n : Nat} {tr : List (Ev α α)} (h : TrOk n tr) (i : Nat)
    (ho : outputOver tr = false) (hg : tr.any isSrcGreet = true) :
    TrOk n (.retO :: .inp (.srcGreet i) :: tr) := by
  refine ⟨trivial, ?_, ?_, ?_, ?_, ?_, ?_⟩
  · simpa [recvData, arrivals] using h.c1
  · exact epb_two h.c2 rfl (fun hp => by simp [isDataOut] at hp)
  · exact epb_two h.c3 rfl (fun hp => by simp [isGreetOut] at hp)
  · exact ean_two h.c4 h.head (fun _ _ => rfl) (fun _ => rfl) (by simp [chkGreet, ho, hg, isGreetOut])
  · exact ean_two h.c5 h.head (fun _ _ => by simp [chkTermOnly, isTermOut]) (fun _ => by simp [chkTermOnly, isTermOut])
      (by simp [chkTermOnly, isTermOut])
  · exact ean_two h.c6 h.head (fun _ _ => by simp [chkTermIf, isSrcTerm]) (fun _ => by simp [chkTermIf, isSrcTerm])
      (by simp [chkTermIf, isSrcTerm])

/-- a member greets after the output is over: it is disposed at once -/
theorem TrOk.greetLate {n : Nat} {tr : List (Ev α α)} (h : TrOk n tr) (i : Nat) (ho : outputOver tr = true) :
    TrOk n (.out (.srcUp i .term) :: .inp (.srcGreet i) :: tr) := by
  refine ⟨trivial, ?_, ?_, ?_, ?_, ?_, ?_⟩
  · simpa [recvData, arrivals] using h.c1
  · exact epb_two h.c2 rfl (fun hp => by simp [isDataOut] at hp)
  · exact epb_two h.c3 rfl (fun hp => by simp [isGreetOut] at hp)
  · exact ean_two h.c4 h.head (fun _ _ => rfl) (fun _ => rfl) (by simp [chkGreet, ho])
  · exact ean_two h.c5 h.head (fun _ _ => by simp [chkTermOnly, isTermOut]) (fun _ => by simp [chkTermOnly, isTermOut])
      (by simp [chkTermOnly, isTermOut])
  · exact ean_two h.c6 h.head (fun _ _ => by simp [chkTermIf, isSrcTerm]) (fun _ => by simp [chkTermIf, isSrcTerm])
      (by simp [chkTermIf, isSrcTerm])

/-- a datum is relayed inside its delivery -/
theorem TrOk.data {n : Nat} {tr : List (Ev α α)} (h : TrOk n tr) (i : Nat) (a : α) :
    TrOk n (.out (.down 0 (.data a)) :: .inp (.srcDown i (.data a)) :: tr) := by
  refine ⟨trivial, ?_, ?_, ?_, ?_, ?_, ?_⟩
  · simp [recvData, arrivals, h.c1]
  · exact epb_two h.c2 rfl (fun _ => rfl)
  · exact epb_two h.c3 rfl (fun hp => by simp [isGreetOut] at hp)
  · exact ean_two h.c4 h.head (fun _ _ => rfl) (fun _ => rfl) rfl
  · exact ean_two h.c5 h.head (fun _ _ => by simp [chkTermOnly, isTermOut]) (fun _ => by simp [chkTermOnly, isTermOut])
      (by simp [chkTermOnly, isTermOut])
  · exact ean_two h.c6 h.head (fun _ _ => by simp [chkTermIf, isSrcTerm]) (fun _ => by simp [chkTermIf, isSrcTerm])
      (by simp [chkTermIf, isSrcTerm])

/-- the last member completes: the sink is completed at once -/
theorem TrOk.termLast {n : Nat} {tr : List (Ev α α)} (h : TrOk n tr) (i : Nat)
    (hall : allBelow n (fun j => srcCompleted j ((.inp (.srcDown i .term) : Ev α α) :: tr)) = true) :
    TrOk n (.out (.down 0 .term) :: .inp (.srcDown i .term) :: tr) := by
  refine ⟨trivial, ?_, ?_, ?_, ?_, ?_, ?_⟩
  · simpa [recvData, arrivals] using h.c1
  · exact epb_two h.c2 rfl (fun hp => by simp [isDataOut] at hp)
  · exact epb_two h.c3 rfl (fun hp => by simp [isGreetOut] at hp)
  · exact ean_two h.c4 h.head (fun _ _ => rfl) (fun _ => rfl) rfl
  · exact ean_two h.c5 h.head (fun _ _ => by simp [chkTermOnly, isTermOut]) (fun _ => by simp [chkTermOnly, isTermOut])
      (by simp [chkTermOnly, isTermOut, isSrcTerm, hall])
  · exact ean_two h.c6 h.head (fun _ _ => by simp [chkTermIf, isSrcTerm]) (fun _ => by simp [chkTermIf, isSrcTerm])
      (by simp [chkTermIf, isTermOut])

/-- a member completes, not the last one -/
theorem TrOk.termNotLast {n : Nat} {tr : List (Ev α α)} (h : TrOk n tr) (i : Nat)
    (hall : allBelow n (fun j => srcCompleted j ((.inp (.srcDown i .term) : Ev α α) :: tr)) = false) :
    TrOk n (.retO :: .inp (.srcDown i .term) :: tr) := by
  refine ⟨trivial, ?_, ?_, ?_, ?_, ?_, ?_⟩
  · simpa [recvData, arrivals] using h.c1
  · exact epb_two h.c2 rfl (fun hp => by simp [isDataOut] at hp)
  · exact epb_two h.c3 rfl (fun hp => by simp [isGreetOut] at hp)
  · exact ean_two h.c4 h.head (fun _ _ => rfl) (fun _ => rfl) rfl
  · exact ean_two h.c5 h.head (fun _ _ => by simp [chkTermOnly, isTermOut]) (fun _ => by simp [chkTermOnly, isTermOut])
      (by simp [chkTermOnly, isTermOut])
  · exact ean_two h.c6 h.head (fun _ _ => by simp [chkTermIf, isSrcTerm]) (fun _ => by simp [chkTermIf, isSrcTerm])
      (by simp [chkTermIf, hall])


/-! ### the operator state and the trace -/

/-- events that change none of `srcEnded`, `srcCompleted`, "some member has greeted" -/
def quiet : Ev α α → Bool
  | .inp (.srcGreet _) => false
  | .inp (.srcDown _ .term) => false
  | .inp (.srcDown _ (.err _)) => false
  | _ => true

theorem quiet_facts {e : Ev α α} (h : quiet e = true) (tr : List (Ev α α)) :
    (e :: tr).any isSrcGreet = tr.any isSrcGreet ∧ (∀ j, srcEnded j (e :: tr) = srcEnded j tr) ∧
      (∀ j, srcCompleted j (e :: tr) = srcCompleted j tr) := by
  rcases e with (k | ⟨k, u⟩ | i | ⟨i, (a | _ | x)⟩) | o | _ | _ | _ <;>
    simp [quiet] at h <;> simp [isSrcGreet, srcEnded, srcCompleted]

theorem quiet_of_boringOut {e : Ev α α} (h : boringOut e = true) : quiet e = true := by
  rcases e with i | o | _ | _ | _ <;> simp [boringOut] at h <;> rfl

/-- while `ended` is false: the start counter is non-zero exactly when some member has greeted, and no member has failed -/
structure TS (st : St) (tr : List (Ev α α)) : Prop where
  greet : st.ended = false → (tr.any isSrcGreet = true ↔ st.startCount ≠ 0)
  nofail : st.ended = false → ∀ j, srcEnded j tr = true → srcCompleted j tr = true

theorem TS.of_ended {st : St} (tr : List (Ev α α)) (h : st.ended = true) : TS st tr :=
  ⟨fun h' => (by rw [h] at h'; cases h'), fun h' => (by rw [h] at h'; cases h')⟩

theorem TS.cons {st st' : St} {tr : List (Ev α α)} (h : TS st tr) {e : Ev α α} (he : quiet e = true)
    (h1 : st'.ended = false → st.ended = false) (h2 : st'.startCount = st.startCount) : TS st' (e :: tr) := by
  obtain ⟨q1, q2, q3⟩ := quiet_facts he tr
  refine ⟨fun h' => ?_, fun h' j => ?_⟩
  · rw [q1, h2]; exact h.greet (h1 h')
  · rw [q2, q3]; exact h.nofail (h1 h') j

theorem TS.quiet2 {st st' : St} {tr : List (Ev α α)} (h : TS st tr) {e1 e2 : Ev α α} (he1 : quiet e1 = true)
    (he2 : quiet e2 = true) (h1 : st'.ended = false → st.ended = false) (h2 : st'.startCount = st.startCount) :
    TS st' (e2 :: e1 :: tr) :=
  (h.cons (st' := st) he1 id rfl).cons he2 h1 h2

/-- a greeting that is counted -/
theorem TS.greeted {st st' : St} {tr : List (Ev α α)} (h : TS st tr) (i : Nat) {e2 : Ev α α} (he2 : quiet e2 = true)
    (h1 : st'.ended = false → st.ended = false) (h2 : st'.startCount = st.startCount + 1) :
    TS st' (e2 :: .inp (.srcGreet i) :: tr) := by
  obtain ⟨q1, q2, q3⟩ := quiet_facts he2 ((.inp (.srcGreet i) : Ev α α) :: tr)
  refine ⟨fun h' => ?_, fun h' j => ?_⟩
  · rw [q1, h2]; simp [isSrcGreet]
  · rw [q2, q3]; simpa [srcEnded, srcCompleted] using h.nofail (h1 h') j

/-- a completion -/
theorem TS.completed {st st' : St} {tr : List (Ev α α)} (h : TS st tr) (i : Nat) {e2 : Ev α α} (he2 : quiet e2 = true)
    (h1 : st'.ended = false → st.ended = false) (h2 : st'.startCount = st.startCount) :
    TS st' (e2 :: .inp (.srcDown i .term) :: tr) := by
  obtain ⟨q1, q2, q3⟩ := quiet_facts he2 ((.inp (.srcDown i .term) : Ev α α) :: tr)
  refine ⟨fun h' => ?_, fun h' j => ?_⟩
  · rw [q1, h2]; simpa [isSrcGreet] using h.greet (h1 h')
  · rw [q2, q3]
    simp only [srcEnded, srcCompleted, Bool.or_eq_true, beq_iff_eq]
    rintro (hj | hj)
    · exact Or.inl hj
    · exact Or.inr (h.nofail (h1 h') j hj)

/-- the output is over exactly when the sink has disposed or received its terminal -/
theorem outputOver_iff {ph : Ph} {tr : List (Ev α α)} (htg : TGp ph tr) (hv : ph.viols = []) :
    outputOver tr = true ↔ (ph.sinkPh 0 = .doneBySelf ∨ ph.sinkPh 0 = .doneBySrc) := by
  unfold outputOver
  rw [Bool.or_eq_true, htg.disp 0, htg.fin hv 0]
  by_cases h : ph.sinkPh 0 = .doneBySrc <;> simp [h]

theorem outputOver_false {ph : Ph} {tr : List (Ev α α)} (htg : TGp ph tr) (hv : ph.viols = [])
    (h : ph.sinkPh 0 = .subscribed ∨ ph.sinkPh 0 = .live) : outputOver tr = false := by
  rw [← Bool.not_eq_true, outputOver_iff htg hv]
  rcases h with h | h <;> simp [h]

theorem allBelow_iff (n : Nat) (p : Nat → Bool) : allBelow n p = true ↔ ∀ j, j < n → p j = true := by
  simp [allBelow, List.all_eq_true, List.mem_range]

theorem cnt_of_all {f : Nat → Bool} : ∀ n, (∀ j, j < n → f j = true) → cnt f n = n
  | 0, _ => rfl
  | n+1, h => by
    simp only [cnt]
    rw [cnt_of_all n (fun j hj => h j (by omega)), h n (by omega)]; simp


/-! ### the trace clause of the invariant -/

/-- at an environment turn -/
structure T (n : Nat) (st : St) (ph : Ph) (tr : List (Ev α α)) : Prop where
  tg : TGp ph tr
  ok : TrOk n tr
  ts : TS st tr

/-- inside a macro-step whose first event no clause looks at -/
structure TM (n : Nat) (st : St) (ph : Ph) (tr : List (Ev α α)) : Prop where
  tg : TGp ph tr
  mid : ∃ e1 tr0, tr = e1 :: tr0 ∧ boringIn e1 = true ∧ TrOk n tr0
  ts : TS st tr

theorem T.openIn {n : Nat} {st st' : St} {g : G} {tr : List (Ev α α)} {sh : Shape} {c : Ctx α} (hx : T n st g.ph tr)
    (i : In α) (h : Nat) (hl : legalIn sh g.ph c i = true) (hb : boringIn (.inp i : Ev α α) = true)
    (hts : TS st' ((.inp i : Ev α α) :: tr)) : TM n st' (g.onIn h i).ph (.inp i :: tr) :=
  ⟨by simpa using hx.tg.inp i hl, ⟨_, _, rfl, hb, hx.ok⟩, hts⟩

theorem T.openRet {n : Nat} {st : St} {ph : Ph} {tr : List (Ev α α)} (hx : T n st ph tr) : TM n st ph (.retE :: tr) :=
  ⟨hx.tg.skip .retE (.inl rfl), ⟨_, _, rfl, rfl, hx.ok⟩, hx.ts.cons rfl id rfl⟩

theorem TM.closeOut {n : Nat} {st : St} {g : G} {tr : List (Ev α α)} (hx : TM n st g.ph tr) (sh : Shape) (o : Out α)
    (hb : boringOut (.out o : Ev α α) = true) : T n st (g.onOut sh o).ph (.out o :: tr) := by
  obtain ⟨e1, tr0, rfl, h1, hok⟩ := hx.mid
  exact ⟨by simpa using hx.tg.out o, hok.boring h1 hb, hx.ts.cons (quiet_of_boringOut hb) id rfl⟩

theorem TM.closeRet {n : Nat} {st : St} {g : G} {tr : List (Ev α α)} (hx : TM n st g.ph tr) (h : Nat) :
    T n st (g.onRetO h).ph (.retO :: tr) := by
  obtain ⟨e1, tr0, rfl, h1, hok⟩ := hx.mid
  exact ⟨by simpa using hx.tg.skip .retO (.inr (.inl rfl)), hok.boring h1 rfl, hx.ts.cons rfl id rfl⟩

theorem tgp_in_out {g : G} {tr : List (Ev α α)} {sh sh' : Shape} {c : Ctx α} (htg : TGp g.ph tr) (i : In α) (h : Nat)
    (hl : legalIn sh g.ph c i = true) (o : Out α) : TGp ((g.onIn h i).onOut sh' o).ph (.out o :: .inp i :: tr) := by
  simpa using (htg.inp i hl).out o

theorem tgp_in_ret {g : G} {tr : List (Ev α α)} {sh : Shape} {c : Ctx α} (htg : TGp g.ph tr) (i : In α) (h h' : Nat)
    (hl : legalIn sh g.ph c i = true) : TGp ((g.onIn h i).onRetO h').ph (.retO :: .inp i :: tr) := by
  simpa using (htg.inp i hl).skip .retO (.inr (.inl rfl))

/-! ### the invariant -/

def FInv (n : Nat) (s : Cfg α) : Prop := s.panicked = none ∧ Facts n s.st s.g.ph s.stack ∧ T n s.st s.g.ph s.tr

/-- the operator runs into an invariant configuration -/
def FGood (n : Nat) (s : Cfg α) : Prop := ∃ k, FInv n (advance (machine α n) k s)

theorem fgood_mk {n : Nat} {st : St} {stk : List (Frame (Loc α) α)} {g : G} {tr : List (Ev α α)}
    (h : Facts n st g.ph stk) (hx : T n st g.ph tr) : FGood n (⟨st, stk, g, tr, none⟩ : Cfg α) := ⟨0, rfl, h, hx⟩

theorem fgood_of_advance {n : Nat} {s s' : Cfg α} (k : Nat) (h : advance (machine α n) k s = s') (hg : FGood n s') : FGood n s := by
  obtain ⟨k', hk'⟩ := hg
  exact ⟨k + k', by rw [advance_add, h]; exact hk'⟩

theorem fgood_of_step {n : Nat} {s s' : Cfg α} (h : opStep (machine α n) s = some s') (hg : FGood n s') : FGood n s :=
  fgood_of_advance 1 (by rw [advance_succ 0 h]; rfl) hg

/-- the Pull broadcast, (re)started at member `j` in any stable mode -/
theorem fgood_pull {n : Nat} {st : St} {g : G} {tr : List (Ev α α)} {stk : List (Frame (Loc α) α)} (j : Nat)
    (hb : Base n g.ph) (hs : Stable n st g.ph) (hstk : Stk g.ph stk) (hx : TM n st g.ph tr) :
    FGood n (⟨st, .run (.uLoop j .pull) :: stk, g, tr, none⟩ : Cfg α) := by
  cases hs with
  | opn he ho hsl hec =>
    rcases uLoop_scan n st .pull (Or.inr he) stk g tr _ j rfl with ⟨k, hk, _⟩ | ⟨k, j'', _, _, hs, _, hk⟩
    · refine fgood_of_advance k hk (fgood_mk ?_ (hx.closeRet _))
      rw [onRetO_ph]
      exact ⟨hb, .stable (.opn he ho hsl hec) hstk⟩
    · have e : (g.onOut (machine α n).shape (Out.srcUp j'' .pull : Out α)).ph = g.ph := by
        simp [Ph.onOut, (hsl j'').1 hs]
      refine fgood_of_advance k hk (fgood_mk ?_ (hx.closeOut _ _ rfl))
      rw [e]
      exact ⟨hb, .stable (.opn he ho hsl hec) ⟨trivial, hstk⟩⟩
  | compl he h1 h2 h3 =>
    rcases uLoop_scan n st .pull (Or.inr he) stk g tr _ j rfl with ⟨k, hk, _⟩ | ⟨k, j'', _, _, hs, _, hk⟩
    · refine fgood_of_advance k hk (fgood_mk ?_ (hx.closeRet _))
      rw [onRetO_ph]
      exact ⟨hb, .stable (.compl he h1 h2 h3) hstk⟩
    · rw [h3 j''] at hs; cases hs
  | closed he h1 h2 =>
    have : opStep (machine α n) (⟨st, .run (.uLoop j .pull) :: stk, g, tr, none⟩ : Cfg α) =
        some ⟨st, stk, g.onRetO stk.length, .retO :: tr, none⟩ := by
      by_cases hjn : j < n <;> simp [opStep, machine, step, hjn, he, isEnd]
    refine fgood_of_step this (fgood_mk ?_ (hx.closeRet _))
    rw [onRetO_ph]
    exact ⟨hb, .stable (.closed he h1 h2) hstk⟩

/-- the `Terminate`/`Error` broadcast, (re)started at member `j` -/
theorem fgood_uLoop_end {n : Nat} {st : St} {g : G} {tr : List (Ev α α)} {stk : List (Frame (Loc α) α)} (u : Up) (j : Nat)
    (hb : Base n g.ph) (hu : isEnd u = true) (he : st.ended = true) (hsink : g.ph.sinkPh 0 = .doneBySelf)
    (hstk : Stk g.ph stk) (hl : ∀ j', g.ph.srcPh j' = .live ↔ (j ≤ j' ∧ phAt st.slots j' = true))
    (hx : TM n st g.ph tr) :
    FGood n (⟨st, .run (.uLoop j u) :: stk, g, tr, none⟩ : Cfg α) := by
  rcases uLoop_scan n st u (Or.inl hu) stk g tr _ j rfl with ⟨k, hk, hall⟩ | ⟨k, j'', h1, h2, hs, h4, hk⟩
  · have hnl : ∀ j', g.ph.srcPh j' ≠ .live := by
      intro j' hj'
      have hlt : j' < n := hb.lt (by rw [hj']; simp)
      have := (hl j').1 hj'
      rw [hall j' this.1 hlt] at this
      exact absurd this.2 (by simp)
    refine fgood_of_advance k hk (fgood_mk ?_ (hx.closeRet _))
    rw [onRetO_ph]
    exact ⟨hb, .stable (.closed he (Or.inl hsink) hnl) hstk⟩
  · refine fgood_of_advance k hk (fgood_mk ?_ (hx.closeOut _ _ rfl))
    have hlive : g.ph.srcPh j'' = .live := (hl j'').2 ⟨h1, hs⟩
    have e : (g.onOut (machine α n).shape (Out.srcUp j'' u : Out α)).ph = g.ph.setSrc j'' .disposed := by
      cases u with
      | pull => cases hu
      | term => simp [Ph.onOut, hlive]
      | err x => simp [Ph.onOut, hlive]
    rw [e]
    refine ⟨hb.setSrc h2 _, .uloop j'' u stk hu he (by simpa using hsink) rfl
      (hstk.mono (idle_setSrc _ (by rw [hlive]; simp))) ?_⟩
    intro j'
    by_cases hjj : j' = j''
    · subst hjj; simp
    · simp only [Ph.srcPh_setSrc, hjj, if_false, hl j']
      constructor
      · rintro ⟨ha, hb'⟩
        refine ⟨?_, hb'⟩
        by_cases hlt : j' < j''
        · rw [h4 j' ha hlt] at hb'; cases hb'
        · omega
      · rintro ⟨ha, hb'⟩; exact ⟨by omega, hb'⟩

/-- the sibling disposal after member `i` failed, (re)started at member `j` -/
theorem fgood_eLoop {n : Nat} {st : St} {g : G} {tr : List (Ev α α)} {stk : List (Frame (Loc α) α)} (i e : Nat) (j : Nat)
    (hb : Base n g.ph) (he : st.ended = true) (hsink : g.ph.sinkPh 0 = .live)
    (hstk : Stk g.ph stk) (hl : ∀ j', g.ph.srcPh j' = .live ↔ (j ≤ j' ∧ j' ≠ i ∧ phAt st.slots j' = true))
    (hx : TM n st g.ph tr) :
    FGood n (⟨st, .run (.eLoop i j e) :: stk, g, tr, none⟩ : Cfg α) := by
  rcases eLoop_scan n st i e stk g tr _ j rfl with ⟨k, hk, hall⟩ | ⟨k, j'', h1, h2, h2', hs, h4, hk⟩
  · have hnl : ∀ j', g.ph.srcPh j' ≠ .live := by
      intro j' hj''
      have hlt : j' < n := hb.lt (by rw [hj'']; simp)
      have := (hl j').1 hj''
      rw [hall j' this.1 hlt this.2.1] at this
      exact absurd this.2.2 (by simp)
    refine fgood_of_advance k hk (fgood_mk ?_ (hx.closeOut _ _ rfl))
    have e' : (g.onOut (machine α n).shape (Out.down 0 (.err e) : Out α)).ph = g.ph.setSink 0 .doneBySrc := by
      simp [Ph.onOut, hsink, isFinal]
    rw [e']
    refine ⟨hb.setSink _, .stable (.closed he (Or.inr (by simp)) ?_) ⟨trivial, Stk.mono (g := g.ph) (g' := g.ph.setSink 0 .doneBySrc) (fun _ h => h) hstk⟩⟩
    intro j'; simpa using hnl j'
  · refine fgood_of_advance k hk (fgood_mk ?_ (hx.closeOut _ _ rfl))
    have hlive : g.ph.srcPh j'' = .live := (hl j'').2 ⟨h1, h2', hs⟩
    have e' : (g.onOut (machine α n).shape (Out.srcUp j'' .term : Out α)).ph = g.ph.setSrc j'' .disposed := by
      simp [Ph.onOut, hlive]
    rw [e']
    refine ⟨hb.setSrc h2 _, .eloop i j'' e stk he (by simpa using hsink) rfl
      (hstk.mono (idle_setSrc _ (by rw [hlive]; simp))) ?_⟩
    intro j'
    by_cases hjj : j' = j''
    · subst hjj; simp
    · simp only [Ph.srcPh_setSrc, hjj, if_false, hl j']
      constructor
      · rintro ⟨ha, hb', hc⟩
        refine ⟨?_, hb', hc⟩
        by_cases hlt : j' < j''
        · rw [h4 j' ha hlt hb'] at hc; cases hc
        · omega
      · rintro ⟨ha, hb', hc⟩; exact ⟨by omega, hb', hc⟩

theorem finv_turn (n : Nat) (s : Cfg α) (h : FInv n s) : EnvTurn s :=
  (Merge.inv_turn n s ⟨h.1, h.2.1⟩).1

theorem finv_init (n : Nat) : FInv n (Sys.init (machine α n) : Cfg α) := by
  obtain ⟨h1, h2⟩ := Merge.inv_init (α := α) n
  refine ⟨h1, h2, TGp.init, TrOk.init n, ?_⟩
  exact ⟨fun _ => by simp [Sys.init, machine], fun _ j hj => by simp [Sys.init, srcEnded] at hj⟩


/-- returning into a continuation in a stable mode -/
theorem fgood_ret_stable {n : Nat} {st : St} {g : G} {tr : List (Ev α α)} {stk : List (Frame (Loc α) α)} {o : Out α} {l : Loc α}
    (hb : Base n g.ph) (hs : Stable n st g.ph) (hf : FrameOk g.ph (.wait o l) stk) (hrest : Stk g.ph stk) (hx : TM n st g.ph tr) :
    FGood n (⟨st, .run l :: stk, g, tr, none⟩ : Cfg α) := by
  cases l with
  | done =>
    exact fgood_of_step step_done (fgood_mk (by rw [onRetO_ph]; exact ⟨hb, .stable hs hrest⟩) (hx.closeRet _))
  | uLoop j u =>
    cases u with
    | pull => exact fgood_pull j hb hs hrest hx
    | _ => exact hf.elim
  | subLoop i =>
    obtain ⟨rfl, hidle⟩ := hf
    have hret : (¬ i < n ∨ st.ended = true) → FGood n (⟨st, .run (.subLoop i) :: [], g, tr, none⟩ : Cfg α) := by
      intro h
      have : opStep (machine α n) (⟨st, .run (.subLoop i) :: [], g, tr, none⟩ : Cfg α) =
          some ⟨st, [], g.onRetO 0, .retO :: tr, none⟩ := by
        rcases h with h | h
        · simp [opStep, machine, step, h]
        · by_cases hin : i < n <;> simp [opStep, machine, step, h, hin]
      exact fgood_of_step this (fgood_mk (by rw [onRetO_ph]; exact ⟨hb, .stable hs trivial⟩) (hx.closeRet _))
    by_cases hin : i < n
    · cases hs with
      | opn he ho hsl hec =>
        have hopen : g.ph.anySinkOpen = true := by
          rw [Ph.anySinkOpen_iff]
          rcases ho with ⟨h, _⟩ | ⟨h, _⟩
          · exact ⟨0, Or.inl h⟩
          · exact ⟨0, Or.inr h⟩
        have hi : g.ph.srcPh i = .idle := hidle i (Nat.le_refl _)
        have e : (g.onOut (machine α n).shape (Out.subSrc i : Out α)).ph = g.ph.setSrc i .subscribed := by
          simp [Ph.onOut, hi, hopen]
        have ho' : OpenSink st (g.ph.setSrc i .subscribed) := by
          rcases ho with ⟨h1, h2, h3⟩ | ⟨h1, h2⟩
          · refine Or.inl ⟨by simpa using h1, h2, fun j => ?_⟩
            by_cases hj : j = i
            · subst hj; simp
            · simpa [hj] using h3 j
          · exact Or.inr ⟨by simpa using h1, h2⟩
        refine fgood_of_advance 2 (s' := ⟨st, [.wait (.subSrc i) (.subLoop (i+1))],
            g.onOut (machine α n).shape (Out.subSrc i : Out α), .out (.subSrc i) :: tr, none⟩)
          (by simp [advance, opStep, machine, step, hin, he]) (fgood_mk ?_ (hx.closeOut _ _ rfl))
        rw [e]
        refine ⟨hb.setSrc hin _, .stable (.opn he ho' ?_ ?_) ⟨⟨rfl, ?_⟩, trivial⟩⟩
        · intro j
          by_cases hj : j = i
          · subst hj; simp [hsl j, hi]
          · simp [hj, hsl j]
        · rw [endedCnt_setSrc_ne n (by rw [hi]; simp) (by simp)]; exact hec
        · intro j hj
          simp [show j ≠ i by omega, hidle j (by omega)]
      | compl he h1 h2 h3 =>
        have := h2 i hin
        rw [hidle i (Nat.le_refl _)] at this; cases this
      | closed he h1 h2 => exact hret (Or.inr he)
    · exact hret (Or.inl hin)
  | _ => exact hf.elim

theorem fgood_subscribe {n : Nat} {st : St} {g : G} {tr : List (Ev α α)} {stk : List (Frame (Loc α) α)} {c : Ctx α} (k : Nat)
    (hb : Base n g.ph) (hm : Mode n st g.ph stk) (hext : T n st g.ph tr) (hc : ctxOf stk = some c)
    (hl : legalIn (machine α n).shape g.ph c (.subscribe k : In α) = true) :
    FGood n (⟨st, .run (enter (.subscribe k)) :: stk, g.onIn stk.length (.subscribe k : In α), .inp (.subscribe k) :: tr, none⟩ : Cfg α) := by
  have hl0 := hl
  simp only [legalIn, Bool.and_eq_true, beq_iff_eq, machine, Bool.or_false] at hl
  obtain ⟨⟨hc', hidle⟩, rfl⟩ := hl
  cases hm with
  | init h1 h2 h3 h4 h5 h6 h7 =>
    subst h2
    have hx : TM n st (g.onIn 0 (.subscribe 0 : In α)).ph (.inp (.subscribe 0) :: tr) :=
      hext.openIn (.subscribe 0) 0 hl0 rfl (hext.ts.cons rfl id rfl)
    have hb' : Base n (g.ph.setSink 0 .subscribed) := hb.setSink _
    have hopen : (g.ph.setSink 0 .subscribed).anySinkOpen = true := (Ph.anySinkOpen_iff _).2 ⟨0, by simp⟩
    have hos : OpenSink st (g.ph.setSink 0 .subscribed) := Or.inl ⟨by simp, h4, fun j => by simp [h7 j]⟩
    by_cases hn : 0 < n
    · have e : ((g.onIn 0 (.subscribe 0 : In α)).onOut (machine α n).shape (Out.subSrc 0 : Out α)).ph =
          (g.ph.setSink 0 .subscribed).setSrc 0 .subscribed := by
        simp [Ph.onIn, Ph.onOut, h7, hopen]
      refine fgood_of_advance 2 (s' := ⟨st, [.wait (.subSrc 0) (.subLoop 1)],
          (g.onIn 0 (.subscribe 0 : In α)).onOut (machine α n).shape (Out.subSrc 0 : Out α),
          .out (.subSrc 0) :: .inp (.subscribe 0) :: tr, none⟩)
        (by simp [advance, opStep, machine, enter, step, hn, h3]) (fgood_mk ?_ (hx.closeOut _ _ rfl))
      rw [e]
      refine ⟨hb'.setSrc hn _, .stable (.opn h3 ?_ ?_ ?_) ⟨⟨rfl, ?_⟩, trivial⟩⟩
      · refine Or.inl ⟨by simp, h4, fun j => ?_⟩
        by_cases hj : j = 0
        · subst hj; simp
        · simp [hj, h7 j]
      · intro j
        by_cases hj : j = 0
        · subst hj; simp [h6]
        · simp [hj, h6, h7]
      · rw [h5]; symm; apply cnt_zero
        intro j _
        by_cases hj : j = 0
        · subst hj; simp
        · simp [hj, h7 j]
      · intro j hj
        simp [show j ≠ 0 by omega, h7 j]
    · have e : ((g.onIn 0 (.subscribe 0 : In α)).onRetO 0).ph = g.ph.setSink 0 .subscribed := by
        simp [Ph.onIn]
      refine fgood_of_advance 1 (s' := ⟨st, [], (g.onIn 0 (.subscribe 0 : In α)).onRetO 0, .retO :: .inp (.subscribe 0) :: tr, none⟩)
        (by simp [advance, opStep, machine, enter, step, hn]) (fgood_mk ?_ (hx.closeRet _))
      rw [e]
      refine ⟨hb', .stable (.opn h3 hos ?_ ?_) trivial⟩
      · intro j; simp [h6, h7]
      · rw [h5]; symm; apply cnt_zero
        intro j _; simp [h7 j]
  | stable hs hstk =>
    cases hs with
    | opn he ho _ _ => rcases ho with ⟨h, _⟩ | ⟨h, _⟩ <;> (rw [h] at hidle; cases hidle)
    | compl he h _ _ => rw [h] at hidle; cases hidle
    | closed he h _ => rcases h with h | h <;> (rw [h] at hidle; cases hidle)
  | uloop j u rest _ _ h => rw [h] at hidle; cases hidle
  | eloop i j e rest _ h => rw [h] at hidle; cases hidle

theorem fgood_sinkUp {n : Nat} {st : St} {g : G} {tr : List (Ev α α)} {stk : List (Frame (Loc α) α)} {c : Ctx α} (k : Nat) (u : Up)
    (hb : Base n g.ph) (hm : Mode n st g.ph stk) (hext : T n st g.ph tr) (hc : ctxOf stk = some c)
    (hl : legalIn (machine α n).shape g.ph c (.sinkUp k u : In α) = true) :
    FGood n (⟨st, .run (enter (.sinkUp k u)) :: stk, g.onIn stk.length (.sinkUp k u : In α), .inp (.sinkUp k u) :: tr, none⟩ : Cfg α) := by
  have hl0 := hl
  simp only [legalIn, Bool.and_eq_true, beq_iff_eq, Bool.or_eq_true] at hl
  obtain ⟨hlive, hctx⟩ := hl
  have hk : k = 0 := by
    by_cases hk : k = 0
    · exact hk
    · rw [hb.sinks k hk] at hlive; cases hlive
  subst hk
  cases hm with
  | init h => rw [h] at hlive; cases hlive
  | stable hs hstk =>
    cases hs with
    | opn he ho hsl hec =>
      rcases ho with ⟨h, _⟩ | ⟨_, hsc⟩
      · rw [h] at hlive; cases hlive
      · have ho : OpenSink st g.ph := Or.inr ⟨hlive, hsc⟩
        cases u with
        | pull =>
          refine fgood_of_step (s' := ⟨st, .run (.uLoop 0 .pull) :: stk, g.onIn stk.length (.sinkUp 0 .pull : In α),
            .inp (.sinkUp 0 .pull) :: tr, none⟩) (by simp [opStep, machine, enter, step, isEnd]) ?_
          have e : (g.onIn stk.length (.sinkUp 0 .pull : In α)).ph = g.ph := by simp [Ph.onIn]
          exact fgood_pull 0 (by rw [e]; exact hb) (by rw [e]; exact .opn he ho hsl hec) (by rw [e]; exact hstk)
            (hext.openIn (.sinkUp 0 .pull) _ hl0 rfl (hext.ts.cons rfl id rfl))
        | term =>
          refine fgood_of_step (s' := ⟨{ st with ended := true }, .run (.uLoop 0 .term) :: stk, g.onIn stk.length (.sinkUp 0 .term : In α),
            .inp (.sinkUp 0 .term) :: tr, none⟩) (by simp [opStep, machine, enter, step, isEnd]) ?_
          have e : (g.onIn stk.length (.sinkUp 0 .term : In α)).ph = g.ph.setSink 0 .doneBySelf := by simp [Ph.onIn]
          refine fgood_uLoop_end .term 0 (by rw [e]; exact hb.setSink _) rfl rfl (by rw [e]; simp) (by rw [e]; exact hstk.setSink _ _) ?_
            (hext.openIn (.sinkUp 0 .term) _ hl0 rfl (TS.of_ended _ rfl))
          intro j'
          rw [e]
          exact ⟨fun h => ⟨Nat.zero_le _, (hsl j').2 h⟩, fun h => (hsl j').1 h.2⟩
        | err x =>
          refine fgood_of_step (s' := ⟨{ st with ended := true }, .run (.uLoop 0 (.err x)) :: stk, g.onIn stk.length (.sinkUp 0 (.err x) : In α),
            .inp (.sinkUp 0 (.err x)) :: tr, none⟩) (by simp [opStep, machine, enter, step, isEnd]) ?_
          have e : (g.onIn stk.length (.sinkUp 0 (.err x) : In α)).ph = g.ph.setSink 0 .doneBySelf := by simp [Ph.onIn]
          refine fgood_uLoop_end (.err x) 0 (by rw [e]; exact hb.setSink _) rfl rfl (by rw [e]; simp) (by rw [e]; exact hstk.setSink _ _) ?_
            (hext.openIn (.sinkUp 0 (.err x)) _ hl0 rfl (TS.of_ended _ rfl))
          intro j'
          rw [e]
          exact ⟨fun h => ⟨Nat.zero_le _, (hsl j').2 h⟩, fun h => (hsl j').1 h.2⟩
    | compl he h _ _ => rw [h] at hlive; cases hlive
    | closed he h _ => rcases h with h | h <;> (rw [h] at hlive; cases hlive)
  | uloop j u rest _ _ h => rw [h] at hlive; cases hlive
  | eloop i j e rest _ _ h =>
    subst h
    simp [ctxOf] at hc; subst hc; simp [isTop, inGreet, inData] at hctx

theorem fgood_srcGreet {n : Nat} {st : St} {g : G} {tr : List (Ev α α)} {stk : List (Frame (Loc α) α)} {c : Ctx α} (i : Nat)
    (hb : Base n g.ph) (hm : Mode n st g.ph stk) (hext : T n st g.ph tr) (hc : ctxOf stk = some c)
    (hl : legalIn (machine α n).shape g.ph c (.srcGreet i : In α) = true) :
    FGood n (⟨st, .run (enter (.srcGreet i)) :: stk, g.onIn stk.length (.srcGreet i : In α), .inp (.srcGreet i) :: tr, none⟩ : Cfg α) := by
  have hl0 := hl
  simp only [legalIn, Bool.and_eq_true, beq_iff_eq, Bool.or_eq_true, machine, Bool.true_and] at hl
  obtain ⟨hsub, hctx⟩ := hl
  have hin : i < n := hb.lt (by rw [hsub]; simp)
  have hidle := idle_setSrc (g := g.ph) (i := i) .live (by rw [hsub]; simp)
  have e0 : (g.onIn stk.length (.srcGreet i : In α)).ph = g.ph.setSrc i .live := by simp [Ph.onIn]
  cases hm with
  | init _ _ _ _ _ _ h => rw [h] at hsub; cases hsub
  | stable hs hstk =>
    cases hs with
    | opn he ho hsl hec =>
      have hsl' : ∀ j, phAt (setAt st.slots i true) j = true ↔ (g.ph.setSrc i .live).srcPh j = .live := by
        intro j
        by_cases hj : j = i
        · subst hj; simp [phAt_setAt]
        · simp [phAt_setAt, hj, hsl j]
      have hec' : st.endCount = endedCnt (g.ph.setSrc i .live) n := by
        rw [endedCnt_setSrc_ne n (by rw [hsub]; simp) (by simp)]; exact hec
      rcases ho with ⟨hsk, hsc, hnl⟩ | ⟨hsk, hsc⟩
      · have e : ((g.onIn stk.length (.srcGreet i : In α)).onOut (machine α n).shape (Out.greet 0 : Out α)).ph =
            (g.ph.setSrc i .live).setSink 0 .live := by
          simp [Ph.onIn, Ph.onOut, hsk]
        have hg : tr.any isSrcGreet = false := Bool.eq_false_iff.2 (fun h => (hext.ts.greet he).1 h hsc)
        refine fgood_of_advance 3 (s' := ⟨⟨setAt st.slots i true, st.startCount + 1, st.endCount, st.ended⟩,
            .wait (.greet 0) .done :: stk,
            (g.onIn stk.length (.srcGreet i : In α)).onOut (machine α n).shape (Out.greet 0 : Out α),
            .out (.greet 0) :: .inp (.srcGreet i) :: tr, none⟩)
          (by simp [advance, opStep, machine, enter, step, he, hsc]) (fgood_mk ?_ ?_)
        · rw [e]
          refine ⟨(hb.setSrc hin _).setSink _, .stable (.opn he (Or.inr ⟨by simp, by simp⟩) hsl' hec')
            ⟨trivial, (hstk.mono hidle).setSink _ _⟩⟩
        · exact ⟨tgp_in_out hext.tg _ _ hl0 _, hext.ok.greetFirst i (outputOver_false hext.tg hb.viols (Or.inl hsk)) hg,
            hext.ts.greeted i rfl id rfl⟩
      · refine fgood_of_advance 3 (s' := ⟨⟨setAt st.slots i true, st.startCount + 1, st.endCount, st.ended⟩, stk,
            (g.onIn stk.length (.srcGreet i : In α)).onRetO stk.length,
            .retO :: .inp (.srcGreet i) :: tr, none⟩)
          (by simp [advance, opStep, machine, enter, step, he, hsc]) (fgood_mk ?_ ?_)
        · rw [onRetO_ph, e0]
          exact ⟨hb.setSrc hin _, .stable (.opn he (Or.inr ⟨by simpa using hsk, by simp⟩) hsl' hec') (hstk.mono hidle)⟩
        · exact ⟨tgp_in_ret hext.tg _ _ _ hl0, hext.ok.greetLater i (outputOver_false hext.tg hb.viols (Or.inr hsk))
            ((hext.ts.greet he).2 hsc), hext.ts.greeted i rfl id rfl⟩
    | compl he _ h _ => rw [h i hin] at hsub; cases hsub
    | closed he hsk hnl =>
      have e : ((g.onIn stk.length (.srcGreet i : In α)).onOut (machine α n).shape (Out.srcUp i .term : Out α)).ph =
          (g.ph.setSrc i .live).setSrc i .disposed := by
        simp [Ph.onIn, Ph.onOut]
      have hnl' : ∀ j, ((g.ph.setSrc i .live).setSrc i .disposed).srcPh j ≠ .live := by
        intro j
        by_cases hj : j = i
        · subst hj; simp
        · simpa [hj] using hnl j
      refine fgood_of_advance 1 (s' := ⟨st, .wait (.srcUp i .term) .done :: stk,
          (g.onIn stk.length (.srcGreet i : In α)).onOut (machine α n).shape (Out.srcUp i .term : Out α),
          .out (.srcUp i .term) :: .inp (.srcGreet i) :: tr, none⟩)
        (by simp [advance, opStep, machine, enter, step, he]) (fgood_mk ?_ ?_)
      · rw [e]
        exact ⟨(hb.setSrc hin _).setSrc hin _, .stable (.closed he hsk hnl') ⟨trivial, (hstk.mono hidle).mono (idle_setSrc _ (by simp))⟩⟩
      · exact ⟨tgp_in_out hext.tg _ _ hl0 _, hext.ok.greetLate i ((outputOver_iff hext.tg hb.viols).2 hsk), TS.of_ended _ he⟩
  | uloop j u rest _ _ _ h =>
    subst h
    simp [ctxOf] at hc; subst hc; simp [isTop, inSub] at hctx
  | eloop j' j e rest _ _ h =>
    subst h
    simp [ctxOf] at hc; subst hc; simp [isTop, inSub] at hctx

theorem fgood_srcDown {n : Nat} {st : St} {g : G} {tr : List (Ev α α)} {stk : List (Frame (Loc α) α)} {c : Ctx α} (i : Nat) (d : Down α)
    (hb : Base n g.ph) (hm : Mode n st g.ph stk) (hext : T n st g.ph tr) (hc : ctxOf stk = some c)
    (hl : legalIn (machine α n).shape g.ph c (.srcDown i d : In α) = true) :
    FGood n (⟨st, .run (enter (.srcDown i d)) :: stk, g.onIn stk.length (.srcDown i d : In α), .inp (.srcDown i d) :: tr, none⟩ : Cfg α) := by
  have hl0 := hl
  simp only [legalIn, Bool.and_eq_true, beq_iff_eq, Bool.or_eq_true] at hl
  obtain ⟨hlive, hctx⟩ := hl
  have hin : i < n := hb.lt (by rw [hlive]; simp)
  cases hm with
  | init _ _ _ _ _ _ h => rw [h] at hlive; cases hlive
  | stable hs hstk =>
    cases hs with
    | opn he ho hsl hec =>
      rcases ho with ⟨_, _, hnl⟩ | ⟨hsk, hsc⟩
      · exact absurd hlive (hnl i)
      · have ho : OpenSink st g.ph := Or.inr ⟨hsk, hsc⟩
        cases d with
        | data a =>
          have e : ((g.onIn stk.length (.srcDown i (.data a) : In α)).onOut (machine α n).shape (Out.down 0 (.data a) : Out α)).ph = g.ph := by
            simp [Ph.onIn, Ph.onOut, hsk, isFinal]
          refine fgood_of_advance 1 (s' := ⟨st, .wait (.down 0 (.data a)) .done :: stk,
              (g.onIn stk.length (.srcDown i (.data a) : In α)).onOut (machine α n).shape (Out.down 0 (.data a) : Out α),
              .out (.down 0 (.data a)) :: .inp (.srcDown i (.data a)) :: tr, none⟩)
            (by simp [advance, opStep, machine, enter, step]) (fgood_mk ?_ ?_)
          · rw [e]
            exact ⟨hb, .stable (.opn he ho hsl hec) ⟨trivial, hstk⟩⟩
          · exact ⟨tgp_in_out hext.tg _ _ hl0 _, hext.ok.data i a, hext.ts.quiet2 rfl rfl id rfl⟩
        | term =>
          have hidle := idle_setSrc (g := g.ph) (i := i) .ended (by rw [hlive]; simp)
          have e0 : (g.onIn stk.length (.srcDown i .term : In α)).ph = g.ph.setSrc i .ended := by simp [Ph.onIn]
          have hcnt : endedCnt (g.ph.setSrc i .ended) n = st.endCount + 1 := by
            rw [endedCnt_setSrc_ended n hin (by rw [hlive]; simp), hec]
          by_cases hlast : st.endCount + 1 = n
          · have e : ((g.onIn stk.length (.srcDown i .term : In α)).onOut (machine α n).shape (Out.down 0 .term : Out α)).ph =
                (g.ph.setSrc i .ended).setSink 0 .doneBySrc := by
              simp [Ph.onIn, Ph.onOut, hsk, isFinal]
            have hall := endedCnt_all (g := g.ph.setSrc i .ended) (n := n) (by rw [hcnt, hlast])
            have hst : Stable n ⟨setAt st.slots i false, st.startCount, st.endCount + 1, st.ended⟩
                ((g.ph.setSrc i .ended).setSink 0 .doneBySrc) := by
              refine .compl he (by simp) (fun j hj => by simpa using hall j hj) ?_
              intro j
              by_cases hj : j = i
              · subst hj; simp [phAt_setAt]
              · simp only [phAt_setAt, hj, if_false]
                cases hsj : phAt st.slots j with
                | false => rfl
                | true =>
                  have h1 := (hsl j).1 hsj
                  have h2 := hall j (hb.lt (by rw [h1]; simp))
                  simp [hj, h1] at h2
            have hallB : allBelow n (fun j => srcCompleted j ((.inp (.srcDown i .term) : Ev α α) :: tr)) = true := by
              rw [allBelow_iff]
              intro j hj
              by_cases hji : j = i
              · subst hji; simp [srcCompleted]
              · have h1 := hall j hj
                simp only [Ph.srcPh_setSrc, hji, if_false] at h1
                have h2 := hext.ts.nofail he j ((hext.tg.ended j).2 h1)
                simp [srcCompleted, h2]
            refine fgood_of_advance 3 (s' := ⟨⟨setAt st.slots i false, st.startCount, st.endCount + 1, st.ended⟩,
                  .wait (.down 0 .term) .done :: stk,
                  (g.onIn stk.length (.srcDown i .term : In α)).onOut (machine α n).shape (Out.down 0 .term : Out α),
                  .out (.down 0 .term) :: .inp (.srcDown i .term) :: tr, none⟩)
                (by simp [advance, opStep, machine, enter, step, hlast]) (fgood_mk ?_ ?_)
            · rw [e]
              exact ⟨(hb.setSrc hin _).setSink _, .stable hst ⟨trivial, (hstk.mono hidle).setSink _ _⟩⟩
            · exact ⟨tgp_in_out hext.tg _ _ hl0 _, hext.ok.termLast i hallB, hext.ts.completed i rfl id rfl⟩
          · have hnall : allBelow n (fun j => srcCompleted j ((.inp (.srcDown i .term) : Ev α α) :: tr)) = false := by
              apply Bool.eq_false_iff.2
              intro hA
              rw [allBelow_iff] at hA
              apply hlast
              rw [← hcnt]
              apply cnt_of_all
              intro j hj
              by_cases hji : j = i
              · subst hji; simp
              · have h1 := hA j hj
                have hij : ¬ i = j := fun h => hji h.symm
                simp only [srcCompleted, Bool.or_eq_true, beq_iff_eq, hij, false_or] at h1
                have h2 := hext.tg.compl j h1
                simp [hji, h2]
            refine fgood_of_advance 3 (s' := ⟨⟨setAt st.slots i false, st.startCount, st.endCount + 1, st.ended⟩, stk,
                (g.onIn stk.length (.srcDown i .term : In α)).onRetO stk.length,
                .retO :: .inp (.srcDown i .term) :: tr, none⟩)
              (by simp [advance, opStep, machine, enter, step, hlast]) (fgood_mk ?_ ?_)
            · rw [onRetO_ph, e0]
              refine ⟨hb.setSrc hin _, .stable (.opn he (Or.inr ⟨by simpa using hsk, hsc⟩) ?_ hcnt.symm) (hstk.mono hidle)⟩
              intro j
              by_cases hj : j = i
              · subst hj; simp [phAt_setAt]
              · simp [phAt_setAt, hj, hsl j]
            · exact ⟨tgp_in_ret hext.tg _ _ _ hl0, hext.ok.termNotLast i hnall, hext.ts.completed i rfl id rfl⟩
        | err x =>
          have hidle := idle_setSrc (g := g.ph) (i := i) .ended (by rw [hlive]; simp)
          have e0 : (g.onIn stk.length (.srcDown i (.err x) : In α)).ph = g.ph.setSrc i .ended := by simp [Ph.onIn]
          refine fgood_of_step (s' := ⟨{ st with ended := true }, .run (.eLoop i 0 x) :: stk,
            g.onIn stk.length (.srcDown i (.err x) : In α), .inp (.srcDown i (.err x)) :: tr, none⟩)
            (by simp [opStep, machine, enter, step]) ?_
          refine fgood_eLoop i x 0 (by rw [e0]; exact hb.setSrc hin _) rfl (by rw [e0]; simpa using hsk)
            (by rw [e0]; exact hstk.mono hidle) ?_ (hext.openIn (.srcDown i (.err x)) _ hl0 rfl (TS.of_ended _ rfl))
          intro j
          rw [e0]
          by_cases hj : j = i
          · subst hj; simp
          · simp [hj, hsl j]
    | compl he _ h _ => rw [h i hin] at hlive; cases hlive
    | closed he hsk hnl => exact absurd hlive (hnl i)
  | uloop j u rest hu _ _ h =>
    subst h
    simp [ctxOf] at hc; subst hc
    cases u with
    | pull => cases hu
    | _ => simp [isTop, inSub, inPull] at hctx
  | eloop j' j e rest _ _ h =>
    subst h
    simp [ctxOf] at hc; subst hc; simp [isTop, inSub, inPull] at hctx

theorem finv_step (n : Nat) (s s' : Cfg α) (m : Move α) (h : FInv n s) (hs : EnvStep (machine α n) m s s') : FGood n s' := by
  obtain ⟨hp, ⟨hb, hm⟩, hext⟩ := h
  cases hs with
  | @call st stk g tr c i hc hl =>
    simp only at hp hb hm hext
    cases i with
    | subscribe k => exact fgood_subscribe k hb hm hext hc hl
    | sinkUp k u => exact fgood_sinkUp k u hb hm hext hc hl
    | srcGreet i => exact fgood_srcGreet i hb hm hext hc hl
    | srcDown i d => exact fgood_srcDown i d hb hm hext hc hl
  | @ret st stk g tr o l hl =>
    simp only at hp hb hm hext
    cases hm with
    | init _ h => cases h
    | stable hs hstk => exact fgood_ret_stable hb hs hstk.1 hstk.2 hext.openRet
    | uloop j u rest hu he hsink hstk hrest hlv =>
      simp at hstk; obtain ⟨⟨rfl, rfl⟩, rfl⟩ := hstk
      exact fgood_uLoop_end u (j+1) hb hu he hsink hrest hlv hext.openRet
    | eloop i j e rest he hsink hstk hrest hlv =>
      simp at hstk; obtain ⟨⟨rfl, rfl⟩, rfl⟩ := hstk
      exact fgood_eLoop i e (j+1) hb he hsink hrest hlv hext.openRet

/-- every reachable configuration runs into one where the strengthened invariant holds -/
theorem reach_finv (n : Nat) : ∀ s : Cfg α, SReach (machine α n) s → ∃ k, FInv n (advance (machine α n) k s) :=
  reach_runs_into_inv (machine α n) anyEnv (FInv n) (finv_init n) (finv_turn n)
    (fun s s' m hi he _ => finv_step n s s' m hi he)

/-- C08: at every reachable configuration of `merge` where the environment has control, the trace satisfies `mergeOk` — every
datum is relayed exactly once, in arrival order, inside the delivery that caused it; the sink is greeted inside the first
member greeting; a member greeting after the output is over is disposed at once; the sink is completed exactly by (and right
after) the `Terminate` of the member with which all `n` members have completed. -/
theorem merge_spec {α : Type} [DecidableEq α] (n : Nat) :
    ∀ s, SReach (Merge.machine α n true true) s → EnvTurn s → mergeOk n s.tr = true := by
  intro s hs ht
  obtain ⟨k, hk⟩ := reach_finv n s hs
  rw [advance_of_envTurn ht] at hk
  exact hk.2.2.ok.mergeOk

end Cb.MergeFun

#print axioms Cb.MergeFun.merge_spec
