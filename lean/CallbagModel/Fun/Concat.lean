import CallbagModel.Inv.Concat
import CallbagModel.Inv.TraceGhost
import CallbagModel.Spec
/-!
# concat: the functional specification C09 holds on every trace of the model

`FInv s := Concat.Inv n s ∧ (nothing has happened yet ∨ T …)` at environment turns, where `T` relates the operator state
(`i`, `gotPull`) to the trace.  Every macro-step of this machine is one environment event followed by exactly one operator
event (`T.pair`).  The basic invariant is reused as a black box: an environment turn is a fixpoint of `advance`, so the
configuration reached by `Concat.inv_step` and the one computed explicitly here coincide (`fin_of`).
-/
namespace Cb.ConcatFun
open Cb Cb.Concat

variable {α : Type}

/-! ## generic: `advance` -/

theorem advance_fix {St Loc α β : Type} (M : Machine St Loc α β) (s : Sys St Loc α β) (h : opStep M s = none) (n : Nat) :
    advance M n s = s := by
  cases n with
  | zero => rfl
  | succ n => simp [advance, h]

theorem advance_add {St Loc α β : Type} (M : Machine St Loc α β) (a b : Nat) (s : Sys St Loc α β) :
    advance M (a + b) s = advance M b (advance M a s) := by
  induction a generalizing s with
  | zero => simp [advance]
  | succ a ih =>
    rw [Nat.add_right_comm]
    simp only [advance]
    cases h : opStep M s with
    | none => simp [advance_fix M s h]
    | some s' => simp [ih]

/-- two environment turns reached from the same configuration by running the operator are the same configuration -/
theorem advance_confluent {St Loc α β : Type} (M : Machine St Loc α β) (s : Sys St Loc α β) (n1 n2 : Nat)
    (e1 : EnvTurn (advance M n1 s)) (e2 : EnvTurn (advance M n2 s)) : advance M n1 s = advance M n2 s := by
  have a := advance_add M n1 n2 s
  have b := advance_add M n2 n1 s
  rw [advance_of_envTurn e1] at a
  rw [advance_of_envTurn e2, Nat.add_comm] at b
  exact a.symm.trans b

/-! ## the clauses of `concatOk`, named -/

def isSubOut : Ev α α → Bool := fun e => match e with | .out (.subSrc _) => true | _ => false

def subCause : Ev α α → Ev α α → Bool := fun e1 e2 => match e1, e2 with
  | .inp (.subscribe _), .out (.subSrc 0) => true
  | .inp (.srcDown k .term), .out (.subSrc k') => k' == k + 1
  | _, _ => false

def chkDemand : List (Ev α α) → Ev α α → Ev α α → Bool := fun past e1 e2 => match e1 with
  | .inp (.srcGreet j) =>
      if j == 0 then isGreetOut 0 e2
      else if pullsIn 0 past > 0 then (match e2 with | .out (.srcUp j' .pull) => j' == j | _ => false)
      else (match e2 with | .retO => true | _ => false)
  | _ => true

def chkCompl (n : Nat) : List (Ev α α) → Ev α α → Ev α α → Bool := fun _ e1 e2 => if isTermOut 0 e2 then
  (match e1 with | .inp (.srcDown k .term) => k + 1 == n | _ => false) else true

def Ordered (L : List Nat) : Bool := (L.zip (L.drop 1)).all (fun p => decide (p.1 ≤ p.2))

theorem concatOk_eq [BEq α] (n : Nat) (tr : List (Ev α α)) : concatOk n tr =
    ((subscriptions tr == List.range (subscriptions tr).length) && decide ((subscriptions tr).length ≤ n)
    && eachPrecededBy isSubOut subCause tr
    && (recvData 0 tr == (arrivals tr).map (·.2))
    && Ordered ((arrivals tr).map (·.1))
    && eachAtNext chkDemand tr
    && eachAtNext (chkCompl n) tr) := rfl

theorem ordered_snoc : ∀ (L : List Nat) (j : Nat), Ordered L = true → (∀ x ∈ L, x ≤ j) → Ordered (L ++ [j]) = true := by
  intro L
  induction L with
  | nil => intro j _ _; simp [Ordered]
  | cons x L ih =>
    intro j h hb
    cases L with
    | nil => simpa [Ordered] using hb x (by simp)
    | cons y L' =>
      have h' : x ≤ y ∧ Ordered (y :: L') = true := by simpa [Ordered] using h
      have := ih j h'.2 (fun z hz => hb z (List.mem_cons_of_mem _ hz))
      simp only [Ordered, List.cons_append, List.drop_succ_cons, List.drop_zero, List.zip_cons_cons, List.all_cons,
        Bool.and_eq_true, decide_eq_true_eq] at this ⊢
      exact ⟨h'.1, this⟩

/-! ## events -/

/-- an event made by the environment -/
def EnvEv (e : Ev α α) : Prop := e = .retE ∨ ∃ i, e = .inp i
/-- an event made by the operator that hands control to the environment -/
def OpEv (e : Ev α α) : Prop := e = .retO ∨ ∃ o, e = .out o

/-- the trace is empty or ends with an event of the operator -/
def OpLast : List (Ev α α) → Prop
  | [] => True
  | e :: _ => OpEv e

theorem pre_pair {tr : List (Ev α α)} {e1 e2 : Ev α α} (h1 : EnvEv e1) (h2 : isSubOut e2 = true → subCause e1 e2 = true)
    (h : eachPrecededBy isSubOut subCause tr = true) : eachPrecededBy isSubOut subCause (e2 :: e1 :: tr) = true := by
  have he1 : isSubOut e1 = false := by rcases h1 with rfl | ⟨i, rfl⟩ <;> rfl
  have h3 : eachPrecededBy isSubOut subCause (e1 :: tr) = true := by
    cases tr with
    | nil => simp [eachPrecededBy, he1]
    | cons e0 t => simp [eachPrecededBy, he1, h]
  simp only [eachPrecededBy, Bool.and_eq_true, h3, and_true]
  split
  · exact h2 ‹_›
  · rfl

theorem ean_pair {chk : List (Ev α α) → Ev α α → Ev α α → Bool} {tr : List (Ev α α)} {e1 e2 : Ev α α}
    (h1 : ∀ past e0, tr = e0 :: past → chk past e0 e1 = true) (h2 : chk tr e1 e2 = true)
    (h : eachAtNext chk tr = true) : eachAtNext chk (e2 :: e1 :: tr) = true := by
  have h3 : eachAtNext chk (e1 :: tr) = true := by
    cases tr with
    | nil => simp [eachAtNext]
    | cons e0 t => simp [eachAtNext, h1 t e0 rfl, h]
  simp [eachAtNext, h2, h3]

theorem demand_env {tr : List (Ev α α)} (e1 : Ev α α) (hl : OpLast tr) :
    ∀ past e0, tr = e0 :: past → chkDemand past e0 e1 = true := by
  intro past e0 h
  subst h
  rcases hl with rfl | ⟨o, rfl⟩ <;> rfl

theorem compl_env {n : Nat} {tr : List (Ev α α)} {e1 : Ev α α} (h1 : EnvEv e1) :
    ∀ past e0, tr = e0 :: past → chkCompl n past e0 e1 = true := by
  intro past e0 _
  rcases h1 with rfl | ⟨i, rfl⟩ <;> simp [chkCompl, isTermOut]

/-! ## the trace invariant -/

structure T (n i : Nat) (gp : Bool) (tr : List (Ev α α)) : Prop where
  subs : subscriptions tr = List.range (min n (i + 1))
  pre : eachPrecededBy isSubOut subCause tr = true
  data : recvData 0 tr = (arrivals tr).map (·.2)
  bound : ∀ p ∈ arrivals tr, p.1 ≤ i
  order : Ordered ((arrivals tr).map (·.1)) = true
  pull : gp = true ↔ 0 < pullsIn 0 tr
  demand : eachAtNext chkDemand tr = true
  compl : eachAtNext (chkCompl n) tr = true
  last : OpLast tr

variable {n i : Nat} {gp : Bool} {tr : List (Ev α α)}

/-- one macro-step: an event of the environment answered by one event of the operator -/
theorem T.pair (h : T n i gp tr) (e1 e2 : Ev α α) (i' : Nat) (gp' : Bool)
    (henv : EnvEv e1) (hop : OpEv e2)
    (hsubs : subscriptions (e2 :: e1 :: tr) = List.range (min n (i' + 1)))
    (hpre : isSubOut e2 = true → subCause e1 e2 = true)
    (hdata : recvData 0 (e2 :: e1 :: tr) = (arrivals (e2 :: e1 :: tr)).map (·.2))
    (hbound : ∀ p ∈ arrivals (e2 :: e1 :: tr), p.1 ≤ i')
    (horder : Ordered ((arrivals (e2 :: e1 :: tr)).map (·.1)) = true)
    (hpull : gp' = true ↔ 0 < pullsIn 0 (e2 :: e1 :: tr))
    (hdem : chkDemand tr e1 e2 = true)
    (hcompl : chkCompl n tr e1 e2 = true) : T n i' gp' (e2 :: e1 :: tr) :=
  ⟨hsubs, pre_pair henv hpre h.pre, hdata, hbound, horder, hpull,
    ean_pair (demand_env e1 h.last) hdem h.demand, ean_pair (compl_env henv) hcompl h.compl, hop⟩

/-- A: the sink subscribes, member 0 is subscribed -/
theorem T.sub (hn : 0 < n) : T n 0 false ([.out (.subSrc 0), .inp (.subscribe 0)] : List (Ev α α)) := by
  have hm : min n 1 = 1 := by omega
  refine ⟨by simp [subscriptions, hm, List.range_succ], by simp [eachPrecededBy, isSubOut, subCause],
    by simp [recvData, arrivals], by simp [arrivals], by simp [arrivals, Ordered], by simp [pullsIn],
    by simp [eachAtNext, chkDemand], by simp [eachAtNext, chkCompl, isTermOut], Or.inr ⟨_, rfl⟩⟩

/-- B: the sink pulls, the Pull goes to the current member -/
theorem T.pullStep (s : Nat) (h : T n i gp tr) :
    T n i true (.out (.srcUp s .pull) :: .inp (.sinkUp 0 .pull) :: tr) :=
  h.pair _ _ _ _ (Or.inr ⟨_, rfl⟩) (Or.inr ⟨_, rfl⟩) (by simpa [subscriptions] using h.subs) (by simp [isSubOut])
    (by simpa [recvData, arrivals] using h.data) (by simpa [arrivals] using h.bound) (by simpa [arrivals] using h.order)
    (by simp [pullsIn]; omega) rfl (by simp [chkCompl, isTermOut])

/-- C: the sink disposes, the current member is told -/
theorem T.endStep (s : Nat) (u : Up) (hu : u ≠ .pull) (h : T n i gp tr) :
    T n i gp (.out (.srcUp s u) :: .inp (.sinkUp 0 u) :: tr) := by
  have hp : pullsIn 0 (.out (.srcUp s u) :: .inp (.sinkUp 0 u) :: tr) = pullsIn 0 tr := by
    cases u with
    | pull => exact absurd rfl hu
    | term => simp [pullsIn]
    | err e => simp [pullsIn]
  exact h.pair _ _ _ _ (Or.inr ⟨_, rfl⟩) (Or.inr ⟨_, rfl⟩) (by simpa [subscriptions] using h.subs) (by simp [isSubOut])
    (by simpa [recvData, arrivals] using h.data) (by simpa [arrivals] using h.bound) (by simpa [arrivals] using h.order)
    (by rw [hp]; exact h.pull) rfl (by simp [chkCompl, isTermOut])

/-- D0: member 0 greets, the sink is greeted -/
theorem T.greet0 (h : T n 0 gp tr) : T n 0 gp (.out (.greet 0) :: .inp (.srcGreet 0) :: tr) :=
  h.pair _ _ _ _ (Or.inr ⟨_, rfl⟩) (Or.inr ⟨_, rfl⟩) (by simpa [subscriptions] using h.subs) (by simp [isSubOut])
    (by simpa [recvData, arrivals] using h.data) (by simpa [arrivals] using h.bound) (by simpa [arrivals] using h.order)
    (by simpa [pullsIn] using h.pull) (by simp [chkDemand, isGreetOut]) (by simp [chkCompl, isTermOut])

/-- D1: a later member greets, no Pull has been seen: nothing is sent -/
theorem T.greetIdle (j : Nat) (hj : j ≠ 0) (h : T n j false tr) : T n j false (.retO :: .inp (.srcGreet j) :: tr) := by
  have hP : pullsIn 0 tr = 0 := by
    have := h.pull
    simp at this; exact this
  exact h.pair _ _ _ _ (Or.inr ⟨_, rfl⟩) (Or.inl rfl) (by simpa [subscriptions] using h.subs) (by simp [isSubOut])
    (by simpa [recvData, arrivals] using h.data) (by simpa [arrivals] using h.bound) (by simpa [arrivals] using h.order)
    (by simpa [pullsIn] using h.pull) (by simp [chkDemand, hj, hP]) (by simp [chkCompl, isTermOut])

/-- D2: a later member greets, the sink has pulled before: the demand is carried across -/
theorem T.greetPull (j : Nat) (hj : j ≠ 0) (h : T n j true tr) :
    T n j true (.out (.srcUp j .pull) :: .inp (.srcGreet j) :: tr) := by
  have hP : 0 < pullsIn 0 tr := h.pull.1 rfl
  exact h.pair _ _ _ _ (Or.inr ⟨_, rfl⟩) (Or.inr ⟨_, rfl⟩) (by simpa [subscriptions] using h.subs) (by simp [isSubOut])
    (by simpa [recvData, arrivals] using h.data) (by simpa [arrivals] using h.bound) (by simpa [arrivals] using h.order)
    (by simpa [pullsIn] using h.pull) (by simp [chkDemand, hj, hP]) (by simp [chkCompl, isTermOut])

/-- E1: the current member delivers a datum, it is passed on -/
theorem T.dataStep (a : α) (h : T n i gp tr) :
    T n i gp (.out (.down 0 (.data a)) :: .inp (.srcDown i (.data a)) :: tr) := by
  refine h.pair _ _ _ _ (Or.inr ⟨_, rfl⟩) (Or.inr ⟨_, rfl⟩) (by simpa [subscriptions] using h.subs) (by simp [isSubOut])
    (by simp [recvData, arrivals, h.data]) ?_ ?_ (by simpa [pullsIn] using h.pull) rfl (by simp [chkCompl, isTermOut])
  · intro p hp
    simp only [arrivals, List.mem_append, List.mem_singleton] at hp
    rcases hp with hp | rfl
    · exact h.bound p hp
    · exact Nat.le_refl _
  · simp only [arrivals, List.map_append, List.map_cons, List.map_nil]
    refine ordered_snoc _ _ h.order ?_
    intro x hx
    obtain ⟨p, hp, rfl⟩ := List.mem_map.1 hx
    exact h.bound p hp

/-- E2: the current member fails, the error is passed on -/
theorem T.errStep (e : Nat) (h : T n i gp tr) :
    T n i gp (.out (.down 0 (.err e)) :: .inp (.srcDown i (.err e)) :: tr) :=
  h.pair _ _ _ _ (Or.inr ⟨_, rfl⟩) (Or.inr ⟨_, rfl⟩) (by simpa [subscriptions] using h.subs) (by simp [isSubOut])
    (by simpa [recvData, arrivals] using h.data) (by simpa [arrivals] using h.bound) (by simpa [arrivals] using h.order)
    (by simpa [pullsIn] using h.pull) rfl (by simp [chkCompl, isTermOut])

/-- E3: the last member completes, the sink is completed -/
theorem T.lastStep (hl : i + 1 = n) (h : T n i gp tr) :
    T n (i + 1) gp (.out (.down 0 .term) :: .inp (.srcDown i .term) :: tr) := by
  have hm : min n (i + 1 + 1) = min n (i + 1) := by omega
  exact h.pair _ _ _ _ (Or.inr ⟨_, rfl⟩) (Or.inr ⟨_, rfl⟩) (by simpa [subscriptions, hm] using h.subs) (by simp [isSubOut])
    (by simpa [recvData, arrivals] using h.data)
    (by intro p hp; have := h.bound p (by simpa [arrivals] using hp); omega)
    (by simpa [arrivals] using h.order)
    (by simpa [pullsIn] using h.pull) rfl (by simp [chkCompl, isTermOut, hl])

/-- E4: a member that is not the last completes, the next one is subscribed -/
theorem T.nextStep (hl : i + 1 < n) (h : T n i gp tr) :
    T n (i + 1) gp (.out (.subSrc (i + 1)) :: .inp (.srcDown i .term) :: tr) := by
  have hm : min n (i + 1 + 1) = i + 1 + 1 := by omega
  have hm' : min n (i + 1) = i + 1 := by omega
  have hs := h.subs
  rw [hm'] at hs
  exact h.pair _ _ _ _ (Or.inr ⟨_, rfl⟩) (Or.inr ⟨_, rfl⟩)
    (by simp only [subscriptions, hs, hm]; exact (List.range_succ (n := i + 1)).symm) (by simp [subCause])
    (by simpa [recvData, arrivals] using h.data)
    (by intro p hp; have := h.bound p (by simpa [arrivals] using hp); omega)
    (by simpa [arrivals] using h.order)
    (by simpa [pullsIn] using h.pull) rfl (by simp [chkCompl, isTermOut])

/-- F: a call made by the operator returns, its handler returns at once -/
theorem T.retStep (h : T n i gp tr) : T n i gp (.retO :: .retE :: tr) :=
  h.pair _ _ _ _ (Or.inl rfl) (Or.inl rfl) (by simpa [subscriptions] using h.subs) (by simp [isSubOut])
    (by simpa [recvData, arrivals] using h.data) (by simpa [arrivals] using h.bound) (by simpa [arrivals] using h.order)
    (by simpa [pullsIn] using h.pull) rfl (by simp [chkCompl, isTermOut])

/-! ## the invariant -/

def FInv (n : Nat) (s : Sys St (Loc α) α α) : Prop :=
  Concat.Inv n s ∧
  ((s.g.ph.sinkPh 0 = .idle ∧ s.tr = [] ∧ s.st.gotPull = false) ∨
   (s.g.ph.sinkPh 0 ≠ .idle ∧ T n s.st.i s.st.gotPull s.tr))

theorem finv_init (n : Nat) : FInv n (Sys.init (machine α n)) :=
  ⟨Concat.inv_init n, Or.inl ⟨by simp [Sys.init], rfl, rfl⟩⟩

theorem finv_turn (n : Nat) (s : Sys St (Loc α) α α) (h : FInv n s) : EnvTurn s := (Concat.inv_turn n s h.1).1

/-- the basic invariant of the configuration the operator runs into, plus the explicit description of that configuration -/
theorem fin_of {s' : Sys St (Loc α) α α} (hb : ∃ c, Concat.Inv n (advance (machine α n) c s')) (c : Nat)
    {i : Nat} {gp : Bool} {tr : List (Ev α α)} (hT : T n i gp tr)
    (hrun : (advance (machine α n) c s').st.i = i ∧ (advance (machine α n) c s').st.gotPull = gp ∧
      (advance (machine α n) c s').tr = tr ∧ (advance (machine α n) c s').panicked = none ∧
      (ctxOf (advance (machine α n) c s').stack).isSome = true ∧ (advance (machine α n) c s').g.ph.sinkPh 0 ≠ .idle) :
    ∃ c, FInv n (advance (machine α n) c s') := by
  obtain ⟨c1, h1⟩ := hb
  obtain ⟨r1, r2, r3, r4, r5, r6⟩ := hrun
  have e1 : EnvTurn (advance (machine α n) c1 s') := (Concat.inv_turn n _ h1).1
  have e2 : EnvTurn (advance (machine α n) c s') := ⟨r4, r5⟩
  rw [advance_confluent _ _ _ _ e1 e2] at h1
  refine ⟨c, h1, Or.inr ⟨r6, ?_⟩⟩
  rw [r1, r2, r3]
  exact hT

macro "run" : tactic =>
  `(tactic| simp [advance, opStep, machine, enter, step, Ph.onIn, Ph.onOut, isFinal, ctxOf, *])
macro "runq" : tactic =>
  `(tactic| simp [advance, opStep, machine, enter, step, Ph.onIn, Ph.onOut, isFinal, *])

theorem finv_step (n : Nat) (hn : 0 < n) (s s' : Sys St (Loc α) α α) (m : Move α) (h : FInv n s)
    (hs : EnvStep (machine α n) m s s') : ∃ c, FInv n (advance (machine α n) c s') := by
  obtain ⟨hI, hF⟩ := h
  have hb := Concat.inv_step n hn s s' m hI hs
  obtain ⟨hp, hv, hoths, hm⟩ := hI
  cases hs with
  | @call st stk g tr c i hc hl =>
    simp only at hp hv hoths hm hF
    obtain ⟨si, sl, gp⟩ := st
    simp only at hF
    cases i with
    | subscribe k =>
      simp only [legalIn, Bool.and_eq_true, beq_iff_eq, machine, Bool.or_false] at hl
      obtain ⟨⟨hc', hidle⟩, rfl⟩ := hl
      cases hm with
      | idle h1 h2 h3 h4 =>
        subst h3 h4
        rcases hF with ⟨_, htr, hgp⟩ | ⟨hne, _⟩
        · subst htr hgp
          have hopen : (g.ph.setSink 0 .subscribed).anySinkOpen = true := (Ph.anySinkOpen_iff _).2 ⟨0, by simp⟩
          have hn' : ¬ (0 = n) := by omega
          exact fin_of hb 1 (T.sub hn) (by run)
        · exact absurd h1 hne
      | waiting h1 h2 h3 h4 h5 h6 h7 =>
        by_cases h0 : si = 0
        · simp [h5 h0] at hidle
        · simp [h6 h0] at hidle
      | live h1 h2 h3 h4 h5 h6 h7 => simp [h3] at hidle
      | over h1 h2 h3 => rcases h1 with h1 | h1 <;> simp [h1] at hidle
    | sinkUp k u =>
      simp only [legalIn, Bool.and_eq_true, beq_iff_eq, Bool.or_eq_true] at hl
      obtain ⟨hlive, hctx⟩ := hl
      have hk : k = 0 := by
        by_cases hk : k = 0
        · exact hk
        · rw [hoths k hk] at hlive; cases hlive
      subst hk
      cases hm with
      | idle h1 h2 h3 h4 => simp [h1] at hlive
      | waiting h1 h2 h3 h4 h5 h6 h7 =>
        obtain ⟨rest, rfl, _⟩ := h7
        simp [ctxOf] at hc; subst hc; simp [isTop, inGreet, inData] at hctx
      | live h1 h2 h3 h4 h5 h6 h7 =>
        simp only at h1 h2 h4 h5 h6
        subst h2
        have hT : T n si gp tr := (hF.resolve_left fun hh => by simp [h3] at hh).2
        cases u with
        | pull => exact fin_of hb 2 (hT.pullStep si) (by run)
        | term => exact fin_of hb 1 (hT.endStep si .term (by simp)) (by run)
        | err e => exact fin_of hb 1 (hT.endStep si (.err e) (by simp)) (by run)
      | over h1 h2 h3 => rcases h1 with h1 | h1 <;> simp [h1] at hlive
    | srcGreet j =>
      simp only [legalIn, Bool.and_eq_true, beq_iff_eq, machine, Bool.false_and, Bool.or_false] at hl
      obtain ⟨hsub, hin⟩ := hl
      cases hm with
      | idle h1 h2 h3 h4 => simp [h2 j] at hsub
      | waiting h1 h2 h3 h4 h5 h6 h7 =>
        simp only at h1 h2 h3 h4 h5 h6 h7
        have hj : j = si := by
          by_cases hj : j = si
          · exact hj
          · rcases Nat.lt_or_gt_of_ne hj with hj' | hj'
            · simp [h3 j hj'] at hsub
            · simp [h4 j hj'] at hsub
        subst hj
        obtain ⟨rest, rfl, hrest⟩ := h7
        by_cases h0 : j = 0
        · subst h0
          have hs0 := h5 rfl
          have hT : T n 0 gp tr := (hF.resolve_left fun hh => by simp [hs0] at hh).2
          exact fin_of hb 2 hT.greet0 (by run)
        · have hs0 := h6 h0
          have hT : T n j gp tr := (hF.resolve_left fun hh => by simp [hs0] at hh).2
          cases gp with
          | false => exact fin_of hb 3 (hT.greetIdle j h0) (by run)
          | true => exact fin_of hb 4 (hT.greetPull j h0) (by run)
      | live h1 h2 h3 h4 h5 h6 h7 =>
        simp only at h1 h2 h4 h5 h6
        by_cases hj : j = si
        · subst hj; simp [h4] at hsub
        · rcases Nat.lt_or_gt_of_ne hj with hj' | hj'
          · simp [h5 j hj'] at hsub
          · simp [h6 j hj'] at hsub
      | over h1 h2 h3 => exact absurd hsub (h2 j).2
    | srcDown j d =>
      simp only [legalIn, Bool.and_eq_true, beq_iff_eq, Bool.or_eq_true] at hl
      obtain ⟨hlive, hctx⟩ := hl
      cases hm with
      | idle h1 h2 h3 h4 => simp [h2 j] at hlive
      | waiting h1 h2 h3 h4 h5 h6 h7 =>
        simp only at h1 h2 h3 h4 h5 h6 h7
        by_cases hj : j = si
        · subst hj; simp [h2] at hlive
        · rcases Nat.lt_or_gt_of_ne hj with hj' | hj'
          · simp [h3 j hj'] at hlive
          · simp [h4 j hj'] at hlive
      | live h1 h2 h3 h4 h5 h6 h7 =>
        simp only at h1 h2 h4 h5 h6
        subst h2
        have hj : j = si := by
          by_cases hj : j = si
          · exact hj
          · rcases Nat.lt_or_gt_of_ne hj with hj' | hj'
            · simp [h5 j hj'] at hlive
            · simp [h6 j hj'] at hlive
        subst hj
        have hT : T n j gp tr := (hF.resolve_left fun hh => by simp [h3] at hh).2
        cases d with
        | data a => exact fin_of hb 1 (hT.dataStep a) (by run)
        | err e => exact fin_of hb 1 (hT.errStep e) (by run)
        | term =>
          by_cases hlast : j + 1 = n
          · exact fin_of hb 2 (hT.lastStep hlast) (by run)
          · have hopen : (g.ph.setSrc j .ended).anySinkOpen = true := (Ph.anySinkOpen_iff _).2 ⟨0, by simp [h3]⟩
            have hidle := h6 (j + 1) (by omega)
            exact fin_of hb 2 (hT.nextStep (by omega)) (by run)
      | over h1 h2 h3 => exact absurd hlive (h2 j).1
  | @ret st stk g tr o l hl =>
    simp only at hp hv hoths hm hF
    have hdone : ∀ (_ : ∀ f ∈ (Frame.wait o l : Frame (Loc α) α) :: stk, Quiet f),
        l = .done ∧ ∀ f ∈ stk, Quiet f := by
      intro h
      have h1 := (List.forall_mem_cons.1 h).1
      refine ⟨?_, (List.forall_mem_cons.1 h).2⟩
      cases l <;> simp [Quiet] at h1 ⊢
    cases hm with
    | idle _ _ _ h => simp at h
    | waiting h1 h2 h3 h4 h5 h6 h7 =>
      obtain ⟨rest, he, _⟩ := h7
      simp at he; obtain ⟨⟨rfl, rfl⟩, rfl⟩ := he
      simp [legalRet, h2, machine] at hl
    | live h1 h2 h3 h4 h5 h6 h7 =>
      obtain ⟨rfl, hq⟩ := hdone h7
      have hctx := ctx_isSome_of_quiet hq
      have hT : T n st.i st.gotPull tr := (hF.resolve_left fun hh => by simp [h3] at hh).2
      exact fin_of hb 1 hT.retStep (by runq)
    | over h1 h2 h3 =>
      obtain ⟨rfl, hq⟩ := hdone h3
      have hctx := ctx_isSome_of_quiet hq
      have hT : T n st.i st.gotPull tr := (hF.resolve_left fun hh => by rcases h1 with h1 | h1 <;> simp [h1] at hh).2
      have hne : g.ph.sinkPh 0 ≠ .idle := by rcases h1 with h1 | h1 <;> simp [h1]
      exact fin_of hb 1 hT.retStep (by runq)

/-- every reachable environment turn satisfies the invariant -/
theorem finv_of_reach (n : Nat) (hn : 0 < n) (s : Sys St (Loc α) α α)
    (hs : SReach (machine α n) s) (ht : EnvTurn s) : FInv n s := by
  obtain ⟨c, hc⟩ := reach_runs_into_inv (machine α n) anyEnv (FInv n) (finv_init n) (finv_turn n)
    (fun s s' m h he _ => finv_step n hn s s' m h he) s hs
  rwa [advance_of_envTurn ht] at hc

/-- **C09** (model side): at every reachable configuration where the environment has control, the trace satisfies the
specification of `concat`. -/
theorem concat_spec {α : Type} [DecidableEq α] (n : Nat) (hn : 0 < n) :
    ∀ s, SReach (Concat.machine α n) s → EnvTurn s → concatOk n s.tr = true := by
  intro s hs ht
  obtain ⟨_, hF⟩ := finv_of_reach n hn s hs ht
  rcases hF with ⟨_, htr, _⟩ | ⟨_, hT⟩
  · rw [htr]
    simp [concatOk, subscriptions, eachPrecededBy, recvData, arrivals, eachAtNext]
  · rw [concatOk_eq]
    simp only [Bool.and_eq_true, decide_eq_true_eq, beq_iff_eq]
    have hlen : (subscriptions s.tr).length = min n (s.st.i + 1) := by rw [hT.subs, List.length_range]
    refine ⟨⟨⟨⟨⟨⟨?_, ?_⟩, hT.pre⟩, hT.data⟩, hT.order⟩, hT.demand⟩, hT.compl⟩
    · rw [hlen]; exact hT.subs
    · rw [hlen]; exact Nat.min_le_left _ _

end Cb.ConcatFun

#print axioms Cb.ConcatFun.concat_spec
