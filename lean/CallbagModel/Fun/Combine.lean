import CallbagModel.Inv.Combine
import CallbagModel.Inv.TraceGhost
import CallbagModel.Spec
/-!
# combine!: the functional specification C10 (`combineOk`) holds on every trace of the model cut at an environment turn

The phase-level invariant `Combine.Inv` (which tolerates `upNotLive` violations) is reused as a black box through determinism:
every macro-step (one environment move + the operator's answer) appends exactly two events `e1` (environment: `inp i` or
`retE`) and `e2` (operator: `out o` or `retO`) to the trace; the configuration reached is computed explicitly (`run_*`), and,
being stuck for `opStep`, coincides with the one `Combine.inv_step` reaches (`land`).
-/
namespace Cb.CombineFun
open Cb Cb.Combine

variable {α : Type}

abbrev Cfg (α : Type) := Sys (St α) (Loc α) α (List α)
abbrev E (α : Type) := Ev α (List α)

/-! ## the clauses of `combineOk`, named -/

def dataCause : E α → E α → Bool :=
  fun e1 _ => match e1 with | .inp (.srcDown _ (.data _)) => true | _ => false

def chkGreetOnly (n : Nat) : List (E α) → E α → E α → Bool :=
  fun past e1 e2 => if isGreetOut 0 e2 then
    isSrcGreet e1 && allBelow n (fun j => srcGreeted j (e1 :: past)) else true

def chkGreetIf (n : Nat) : List (E α) → E α → E α → Bool :=
  fun past e1 e2 => if isSrcGreet e1 && allBelow n (fun j => srcGreeted j (e1 :: past)) then isGreetOut 0 e2 else true

def chkTermOnly (n : Nat) : List (E α) → E α → E α → Bool :=
  fun past e1 e2 => if isTermOut 0 e2 then
    isSrcEnd e1 && allBelow n (fun j => srcEnded j (e1 :: past)) else true

def chkTermIf (n : Nat) : List (E α) → E α → E α → Bool :=
  fun past e1 e2 => if isSrcEnd e1 && allBelow n (fun j => srcEnded j (e1 :: past)) && !sinkDisposed 0 past
    then isTermOut 0 e2 else true

theorem combineOk_eq [BEq α] (n : Nat) (tr : List (E α)) :
    combineOk n tr =
      ((recvData 0 tr == combineRef n (List.replicate n none) (arrivals tr))
        && eachPrecededBy (isDataOut 0) dataCause tr
        && eachAtNext (chkGreetOnly n) tr
        && eachAtNext (chkGreetIf n) tr
        && eachAtNext (chkTermOnly n) tr
        && eachAtNext (chkTermIf n) tr
        && decide (finalsTo 0 tr ≤ 1)) := rfl

/-! ## lists: `combineRef`, `allSome`, `setAt` -/

/-- one arrival updates the latest values -/
def upd (n : Nat) (cur : List (Option α)) (ia : Nat × α) : List (Option α) :=
  if ia.1 < n then cur.set ia.1 (some ia.2) else cur

/-- what `combineRef` emits for one arrival, given the updated values -/
def emit (cur' : List (Option α)) : List (List α) :=
  match allSome cur' with
  | some t => [t]
  | none => []

theorem latest_eq (n : Nat) (as : List (Nat × α)) : latest n as = as.foldl (upd n) (List.replicate n none) := rfl

theorem combineRef_snoc (n : Nat) (cur : List (Option α)) (l : List (Nat × α)) (x : Nat × α) :
    combineRef n cur (l ++ [x]) = combineRef n cur l ++ emit (upd n (l.foldl (upd n) cur) x) := by
  induction l generalizing cur with
  | nil =>
    obtain ⟨i, a⟩ := x
    simp only [List.nil_append, combineRef, List.foldl_nil, emit, upd]
    split <;> simp_all
  | cons y l ih =>
    obtain ⟨i, a⟩ := y
    simp only [List.cons_append, combineRef, List.foldl_cons]
    have := ih (upd n cur (i, a))
    simp only [upd] at this ⊢
    split <;> simp_all

theorem unwrapAll_eq (l : List (Option α)) : unwrapAll l = allSome l := by
  induction l with
  | nil => rfl
  | cons x xs ih =>
    cases x with
    | none => rfl
    | some a => simp only [unwrapAll, allSome, ih]; cases allSome xs <;> rfl

theorem setAt_eq_set {β : Type} [Inhabited β] (l : List β) (i : Nat) (a : β) (h : i < l.length) : setAt l i a = l.set i a := by
  induction l generalizing i with
  | nil => simp at h
  | cons x xs ih =>
    cases i with
    | zero => simp [setAt]
    | succ i => simp [setAt, ih i (by simpa using h)]

theorem allSome_isSome (l : List (Option α)) (t : List α) (h : allSome l = some t) :
    ∀ j, j < l.length → (phAt l j).isNone = false := by
  induction l generalizing t with
  | nil => intro j hj; simp at hj
  | cons x xs ih =>
    cases x with
    | none => simp [allSome] at h
    | some a =>
      cases hx : allSome xs with
      | none => simp [allSome, hx] at h
      | some t' =>
        intro j hj
        cases j with
        | zero => simp [phAt]
        | succ j => have := ih t' hx j (by simpa using hj); simpa [phAt] using this

theorem allSome_none_of_cnt (l : List (Option α)) (h : cnt l.length (fun j => (phAt l j).isNone) ≠ 0) : allSome l = none := by
  cases hx : allSome l with
  | none => rfl
  | some t => exact absurd (cnt_eq_zero (allSome_isSome l t hx)) h

/-! ## traces: step lemmas for the adjacency clauses -/

theorem eachAtNext_step (chk : List (E α) → E α → E α → Bool) (tr : List (E α)) (e1 e2 : E α)
    (h : eachAtNext chk tr = true) (hb : ∀ e0 t, tr = e0 :: t → chk t e0 e1 = true) (hc : chk tr e1 e2 = true) :
    eachAtNext chk (e2 :: e1 :: tr) = true := by
  cases tr with
  | nil => simp [eachAtNext, hc]
  | cons e0 t => simp [eachAtNext, hc, hb e0 t rfl, h]

theorem eachPrecededBy_step (p : E α → Bool) (q : E α → E α → Bool) (tr : List (E α)) (e1 e2 : E α)
    (h : eachPrecededBy p q tr = true) (h1 : p e1 = false) (hc : p e2 = true → q e1 e2 = true) :
    eachPrecededBy p q (e2 :: e1 :: tr) = true := by
  have h2 : (if p e2 = true then q e1 e2 else true) = true := by
    split
    · exact hc ‹_›
    · rfl
  cases tr with
  | nil => simp [eachPrecededBy, h1, h2]
  | cons e0 t => simp [eachPrecededBy, h1, h2, h]

/-- events of the environment / of the operator -/
def isEnvEv : E α → Bool | .inp _ => true | .retE => true | _ => false
def isOpEv : E α → Bool | .out _ => true | .retO => true | _ => false

/-- the newest event (if any) is an operator event -/
def OpHead : List (E α) → Prop
  | [] => True
  | e :: _ => isOpEv e = true

/-- the part of the specification that is about the trace alone -/
structure TrOK (n : Nat) (tr : List (E α)) : Prop where
  head : OpHead tr
  recv : recvData 0 tr = combineRef n (List.replicate n none) (arrivals tr)
  cause : eachPrecededBy (isDataOut 0) dataCause tr = true
  greetOnly : eachAtNext (chkGreetOnly n) tr = true
  greetIf : eachAtNext (chkGreetIf n) tr = true
  termOnly : eachAtNext (chkTermOnly n) tr = true
  termIf : eachAtNext (chkTermIf n) tr = true

theorem TrOK.nil (n : Nat) : TrOK n ([] : List (E α)) := by
  refine ⟨trivial, ?_, rfl, rfl, rfl, rfl, rfl⟩
  simp [recvData, arrivals, combineRef]

/-- one macro-step: environment event `e1`, operator event `e2` -/
theorem TrOK.step {n : Nat} {tr : List (E α)} (h : TrOK n tr) (e1 e2 : E α) (he1 : isEnvEv e1 = true) (he2 : isOpEv e2 = true)
    (hrecv : recvData 0 (e2 :: e1 :: tr) = combineRef n (List.replicate n none) (arrivals (e2 :: e1 :: tr)))
    (hcause : isDataOut 0 e2 = true → dataCause e1 e2 = true)
    (h3 : chkGreetOnly n tr e1 e2 = true) (h4 : chkGreetIf n tr e1 e2 = true)
    (h5 : chkTermOnly n tr e1 e2 = true) (h6 : chkTermIf n tr e1 e2 = true) : TrOK n (e2 :: e1 :: tr) := by
  have hd1 : isDataOut 0 e1 = false := by cases e1 <;> simp_all [isEnvEv, isDataOut]
  have hg1 : isGreetOut 0 e1 = false := by cases e1 <;> simp_all [isEnvEv, isGreetOut]
  have ht1 : isTermOut 0 e1 = false := by cases e1 <;> simp_all [isEnvEv, isTermOut]
  have hop : ∀ e0 t, tr = e0 :: t → isSrcGreet e0 = false ∧ isSrcEnd e0 = false := by
    intro e0 t ht
    have := h.head; rw [ht] at this; simp only [OpHead] at this
    cases e0 <;> simp_all [isOpEv, isSrcGreet, isSrcEnd]
  refine ⟨he2, hrecv, eachPrecededBy_step _ _ _ _ _ h.cause hd1 hcause,
    eachAtNext_step _ _ _ _ h.greetOnly (fun e0 t _ => by simp [chkGreetOnly, hg1]) h3,
    eachAtNext_step _ _ _ _ h.greetIf (fun e0 t ht => by simp [chkGreetIf, (hop e0 t ht).1]) h4,
    eachAtNext_step _ _ _ _ h.termOnly (fun e0 t _ => by simp [chkTermOnly, ht1]) h5,
    eachAtNext_step _ _ _ _ h.termIf (fun e0 t ht => by simp [chkTermIf, (hop e0 t ht).2]) h6⟩

/-- a quiet macro-step: nothing about members arrives, nothing is sent to the sink -/
def isSrcIn : E α → Bool | .inp (.srcGreet _) => true | .inp (.srcDown _ _) => true | _ => false
def isSinkOut : E α → Bool | .out (.greet _) => true | .out (.down _ _) => true | _ => false

theorem TrOK.quiet {n : Nat} {tr : List (E α)} (h : TrOK n tr) (e1 e2 : E α) (he1 : isEnvEv e1 = true) (he2 : isOpEv e2 = true)
    (hq1 : isSrcIn e1 = false) (hq2 : isSinkOut e2 = false) :
    TrOK n (e2 :: e1 :: tr) ∧ arrivals (e2 :: e1 :: tr) = arrivals tr := by
  have a1 : isSrcGreet e1 = false := by
    cases e1 with
    | inp i => cases i <;> simp_all [isSrcIn, isSrcGreet]
    | _ => simp [isSrcGreet]
  have a2 : isSrcEnd e1 = false := by
    cases e1 with
    | inp i => cases i <;> simp_all [isSrcIn, isSrcEnd]
    | _ => simp [isSrcEnd]
  have a3 : arrivals (e2 :: e1 :: tr) = arrivals tr := by
    cases e2 with
    | out o =>
      cases e1 with
      | inp i => cases i <;> simp_all [isSrcIn, arrivals]
      | _ => simp_all [isEnvEv, arrivals]
    | retO =>
      cases e1 with
      | inp i => cases i <;> simp_all [isSrcIn, arrivals]
      | _ => simp_all [isEnvEv, arrivals]
    | _ => simp [isOpEv] at he2
  have b1 : isGreetOut 0 e2 = false := by
    cases e2 with
    | out o => cases o <;> simp_all [isSinkOut, isGreetOut]
    | _ => simp [isGreetOut]
  have b2 : isTermOut 0 e2 = false := by
    cases e2 with
    | out o => cases o <;> simp_all [isSinkOut, isTermOut]
    | _ => simp [isTermOut]
  have b3 : isDataOut 0 e2 = false := by
    cases e2 with
    | out o => cases o <;> simp_all [isSinkOut, isDataOut]
    | _ => simp [isDataOut]
  have b4 : recvData 0 (e2 :: e1 :: tr) = recvData 0 tr := by
    cases e2 with
    | out o =>
      cases e1 with
      | inp i => cases o <;> simp_all [isSinkOut, recvData]
      | _ => cases o <;> simp_all [isSinkOut, isEnvEv, recvData]
    | retO =>
      cases e1 with
      | inp i => simp [recvData]
      | _ => simp_all [isEnvEv, recvData]
    | _ => simp [isOpEv] at he2
  refine ⟨h.step e1 e2 he1 he2 (by rw [a3, b4]; exact h.recv) (by simp [b3]) (by simp [chkGreetOnly, b1])
    (by simp [chkGreetIf, a1]) (by simp [chkTermOnly, b2]) (by simp [chkTermIf, a2]), a3⟩

/-! ## terminals to the sink are counted by its phase (no `viols = []` needed: the events of a macro-step are known) -/

def Fin0 (ph : Ph) (tr : List (E α)) : Prop :=
  (ph.sinkPh 0 = .doneBySrc → finalsTo 0 tr = 1) ∧ (ph.sinkPh 0 ≠ .doneBySrc → finalsTo 0 tr = 0)

theorem Fin0.le {ph : Ph} {tr : List (E α)} (h : Fin0 ph tr) : finalsTo 0 tr ≤ 1 := by
  by_cases hp : ph.sinkPh 0 = .doneBySrc
  · rw [h.1 hp]; exact Nat.le_refl 1
  · rw [h.2 hp]; exact Nat.zero_le 1

/-- the sink's phase and the count are unchanged -/
theorem Fin0.same {ph ph' : Ph} {tr tr' : List (E α)} (h : Fin0 ph tr) (h1 : ph'.sinkPh 0 = ph.sinkPh 0)
    (h2 : finalsTo 0 tr' = finalsTo 0 tr) : Fin0 ph' tr' := by
  unfold Fin0; rw [h1, h2]; exact h

/-- the sink's phase changes between two phases that are not `doneBySrc`, the count is unchanged -/
theorem Fin0.move {ph ph' : Ph} {tr tr' : List (E α)} (h : Fin0 ph tr) (h0 : ph.sinkPh 0 ≠ .doneBySrc)
    (h1 : ph'.sinkPh 0 ≠ .doneBySrc) (h2 : finalsTo 0 tr' = finalsTo 0 tr) : Fin0 ph' tr' := by
  unfold Fin0; rw [h2]; exact ⟨fun e => absurd e h1, fun _ => h.2 h0⟩

theorem Fin0.inp {sh : Shape} {ph : Ph} {c : Ctx (List α)} {tr : List (E α)} (h : Fin0 ph tr) (i : In α)
    (hl : legalIn sh ph c i = true) : Fin0 (ph.onIn i) (.inp i :: tr) := by
  cases i with
  | subscribe k =>
    have hk := legal_subscribe hl
    by_cases h0 : 0 = k
    · subst h0; exact h.move (by simp [hk]) (by simp [Ph.onIn]) (by simp [finalsTo])
    · exact h.same (by simp [Ph.onIn, h0]) (by simp [finalsTo])
  | sinkUp k u =>
    have hk := legal_sinkUp hl
    by_cases h0 : 0 = k
    · subst h0; cases u
      · exact h.same rfl (by simp [finalsTo])
      · exact h.move (by simp [hk]) (by simp [Ph.onIn]) (by simp [finalsTo])
      · exact h.move (by simp [hk]) (by simp [Ph.onIn]) (by simp [finalsTo])
    · cases u
      · exact h.same rfl (by simp [finalsTo])
      · exact h.same (by simp [Ph.onIn, h0]) (by simp [finalsTo])
      · exact h.same (by simp [Ph.onIn, h0]) (by simp [finalsTo])
  | srcGreet i => exact h.same (by simp [Ph.onIn]) (by simp [finalsTo])
  | srcDown i d => cases d <;> exact h.same (by simp [Ph.onIn]) (by simp [finalsTo])

theorem Fin0.skip {ph : Ph} {tr : List (E α)} (h : Fin0 ph tr) (e : E α) (he : e = .retE ∨ e = .retO) : Fin0 ph (e :: tr) := by
  rcases he with rfl | rfl <;> exact h.same rfl (by simp [finalsTo])

theorem Fin0.out {ph : Ph} {tr : List (E α)} (h : Fin0 ph tr) (o : Out (List α))
    (hd : ∀ d, o = .down 0 d → isFinal d = true → ph.sinkPh 0 = .live) : Fin0 (ph.onOut o) (.out o :: tr) := by
  cases o with
  | greet k =>
    simp only [Ph.onOut]
    split
    · rename_i hk
      by_cases h0 : 0 = k
      · subst h0; exact h.move (by simp [hk]) (by simp) (by simp [finalsTo])
      · exact h.same (by simp [h0]) (by simp [finalsTo])
    · exact h.same (by simp) (by simp [finalsTo])
  | down k d =>
    by_cases hk : k = 0
    · subst hk
      cases d with
      | data b =>
        refine h.same ?_ (by simp [finalsTo])
        cases hp : ph.sinkPh 0 <;> simp [Ph.onOut, hp, isFinal]
      | term =>
        have hl := hd _ rfl rfl
        exact ⟨fun _ => by simp [finalsTo, h.2 (by simp [hl])], fun hn => by simp [Ph.onOut, hl, isFinal] at hn⟩
      | err e =>
        have hl := hd _ rfl rfl
        exact ⟨fun _ => by simp [finalsTo, h.2 (by simp [hl])], fun hn => by simp [Ph.onOut, hl, isFinal] at hn⟩
    · have hk' : ¬ 0 = k := fun e => hk e.symm
      refine h.same ?_ (by cases d <;> simp [finalsTo, hk])
      cases hp : ph.sinkPh k <;> simp [Ph.onOut, hp] <;> split <;> simp [hk']
  | subSrc i =>
    refine h.same ?_ (by simp [finalsTo])
    simp only [Ph.onOut]
    split
    · simp
    · split <;> simp
  | srcUp i u => exact h.same (srcUp_sinkPh _ _ _ _) (by cases u <;> simp [finalsTo])
  | app b => exact h.same (by simp [Ph.onOut]) (by simp [finalsTo])

/-! ## `advance`: stuck configurations are fixpoints; reachability -/

theorem advance_fix {St Loc α β : Type} (M : Machine St Loc α β) (s : Sys St Loc α β) (h : opStep M s = none) (k : Nat) :
    advance M k s = s := by
  cases k with
  | zero => rfl
  | succ k => simp [advance, h]

theorem advance_add {St Loc α β : Type} (M : Machine St Loc α β) (a b : Nat) (s : Sys St Loc α β) :
    advance M (a + b) s = advance M b (advance M a s) := by
  induction a generalizing s with
  | zero => simp [advance]
  | succ a ih =>
    rw [Nat.add_right_comm]
    simp only [advance]
    cases h : opStep M s with
    | none => simp [advance_fix M s h]
    | some s' => simp [ih]

theorem reach_advance {St Loc α β : Type} (M : Machine St Loc α β) (k : Nat) (s : Sys St Loc α β) (hr : SReach M s) :
    SReach M (advance M k s) := by
  induction k generalizing s with
  | zero => exact hr
  | succ k ih =>
    simp only [advance]
    cases h : opStep M s with
    | none => exact hr
    | some s' => exact ih s' (.step hr (.op h))

/-- the explicitly computed stuck configuration is the one the basic invariant speaks about -/
theorem land (n : Nat) {s' X : Cfg α} {k : Nat} (hb : ∃ n1, Inv n (advance (machine α n) n1 s')) (hr : SReach (machine α n) s')
    (he : advance (machine α n) k s' = X) (hst : opStep (machine α n) X = none) : Inv n X ∧ SReach (machine α n) X := by
  obtain ⟨n1, h1⟩ := hb
  have e1 : EnvTurn (advance (machine α n) n1 s') := (inv_turn n _ h1).1
  have heq : advance (machine α n) n1 s' = X := by
    have a := advance_add (machine α n) n1 k s'
    have b := advance_add (machine α n) k n1 s'
    rw [advance_of_envTurn e1] at a
    rw [he, advance_fix _ _ hst, Nat.add_comm] at b
    exact a.symm.trans b
  exact ⟨heq ▸ h1, he ▸ reach_advance _ k s' hr⟩

/-! ## the operator's answers, computed -/

def callCfg (n : Nat) (st : St α) (o : Out (List α)) (l : Loc α) (stk : List (Frame (Loc α) (List α))) (g : G) (tr : List (E α)) :
    Cfg α := ⟨st, .wait o l :: stk, g.onOut (machine α n).shape o, .out o :: tr, none⟩

def retCfg (st : St α) (stk : List (Frame (Loc α) (List α))) (g : G) (tr : List (E α)) : Cfg α :=
  ⟨st, stk, g.onRetO stk.length, .retO :: tr, none⟩

theorem stuck_call (n : Nat) (st : St α) (o : Out (List α)) (l : Loc α) (stk : List (Frame (Loc α) (List α))) (g : G)
    (tr : List (E α)) : opStep (machine α n) (callCfg n st o l stk g tr) = none := by
  simp [opStep, callCfg]

theorem stuck_ret (n : Nat) (st : St α) (stk : List (Frame (Loc α) (List α))) (g : G) (tr : List (E α))
    (h : (ctxOf stk).isSome) : opStep (machine α n) (retCfg st stk g tr) = none := by
  cases stk with
  | nil => simp [opStep, retCfg]
  | cons f r =>
    cases f with
    | run l => simp [ctxOf] at h
    | wait o l => simp [opStep, retCfg]

theorem stuck_panic (n : Nat) (X : Cfg α) (h : X.panicked.isSome) : opStep (machine α n) X = none := by
  simp [opStep, h]

theorem run_done (n : Nat) (st : St α) (stk : List (Frame (Loc α) (List α))) (g : G) (tr : List (E α)) :
    advance (machine α n) 1 ⟨st, .run .done :: stk, g, tr, none⟩ = retCfg st stk g tr := by
  simp [advance, opStep, machine, step, retCfg]

theorem run_subLoop (n i : Nat) (st : St α) (stk : List (Frame (Loc α) (List α))) (g : G) (tr : List (E α)) :
    (i < n ∧ advance (machine α n) 1 ⟨st, .run (.subLoop i) :: stk, g, tr, none⟩ = callCfg n st (.subSrc i) (.subLoop (i + 1)) stk g tr) ∨
    (¬ i < n ∧ advance (machine α n) 1 ⟨st, .run (.subLoop i) :: stk, g, tr, none⟩ = retCfg st stk g tr) := by
  by_cases h : i < n
  · left; exact ⟨h, by simp [advance, opStep, machine, step, callCfg, h]⟩
  · right; exact ⟨h, by simp [advance, opStep, machine, step, retCfg, h]⟩

theorem run_uLoop (n j : Nat) (u : Up) (st : St α) (stk : List (Frame (Loc α) (List α))) (g : G) (tr : List (E α)) :
    (advance (machine α n) 1 ⟨st, .run (.uLoop j u) :: stk, g, tr, none⟩ = callCfg n st (.srcUp j u) (.uLoop (j + 1) u) stk g tr) ∨
    (advance (machine α n) 1 ⟨st, .run (.uLoop j u) :: stk, g, tr, none⟩ = retCfg st stk g tr) ∨
    (advance (machine α n) 1 ⟨st, .run (.uLoop j u) :: stk, g, tr, none⟩).panicked.isSome := by
  by_cases h : j < n
  · by_cases hs : phAt st.slots j = true
    · left; simp [advance, opStep, machine, step, callCfg, h, hs]
    · right; right; simp [advance, opStep, machine, step, h, hs]
  · right; left; simp [advance, opStep, machine, step, retCfg, h]

/-- the state after a member's greeting -/
def stG (st : St α) (i : Nat) : St α := { st with slots := setAt st.slots i true, nStart := st.nStart - 1 }

theorem run_g0 (n i : Nat) (st : St α) (stk : List (Frame (Loc α) (List α))) (g : G) (tr : List (E α)) :
    (st.nStart - 1 = 0 ∧ advance (machine α n) 3 ⟨st, .run (.g0 i) :: stk, g, tr, none⟩ = callCfg n (stG st i) (.greet 0) .done stk g tr) ∨
    (st.nStart - 1 ≠ 0 ∧ advance (machine α n) 3 ⟨st, .run (.g0 i) :: stk, g, tr, none⟩ = retCfg (stG st i) stk g tr) := by
  by_cases h : st.nStart - 1 = 0
  · left; exact ⟨h, by simp [advance, opStep, machine, step, callCfg, stG, h]⟩
  · right; exact ⟨h, by simp [advance, opStep, machine, step, retCfg, stG, h]⟩

/-- the state after a member's end -/
def stE (st : St α) : St α := { st with nEnd := st.nEnd - 1 }

theorem run_e0 (n : Nat) (st : St α) (stk : List (Frame (Loc α) (List α))) (g : G) (tr : List (E α)) :
    (st.nEnd - 1 = 0 ∧ advance (machine α n) 2 ⟨st, .run .e0 :: stk, g, tr, none⟩ = callCfg n (stE st) (.down 0 .term) .done stk g tr) ∨
    (st.nEnd - 1 ≠ 0 ∧ advance (machine α n) 2 ⟨st, .run .e0 :: stk, g, tr, none⟩ = retCfg (stE st) stk g tr) := by
  by_cases h : st.nEnd - 1 = 0
  · left; exact ⟨h, by simp [advance, opStep, machine, step, callCfg, stE, h]⟩
  · right; exact ⟨h, by simp [advance, opStep, machine, step, retCfg, stE, h]⟩

/-- the state after a member's datum -/
def stD (st : St α) (i : Nat) (a : α) : St α :=
  { st with nData := if (phAt st.vals i).isNone then st.nData - 1 else st.nData, vals := setAt st.vals i (some a) }

theorem run_d0 (n i : Nat) (a : α) (st : St α) (stk : List (Frame (Loc α) (List α))) (g : G) (tr : List (E α)) :
    ((stD st i a).nData ≠ 0 ∧ advance (machine α n) 4 ⟨st, .run (.d0 i a) :: stk, g, tr, none⟩ = retCfg (stD st i a) stk g tr) ∨
    (∃ t, (stD st i a).nData = 0 ∧ unwrapAll (stD st i a).vals = some t ∧
        advance (machine α n) 6 ⟨st, .run (.d0 i a) :: stk, g, tr, none⟩ = callCfg n (stD st i a) (.down 0 (.data t)) .done stk g tr) ∨
    (advance (machine α n) 5 ⟨st, .run (.d0 i a) :: stk, g, tr, none⟩).panicked.isSome := by
  by_cases hn : (phAt st.vals i).isNone = true
  · by_cases hz : st.nData - 1 = 0
    · cases hu : unwrapAll (setAt st.vals i (some a)) with
      | none => right; right; simp [advance, opStep, machine, step, hn, hz, hu]
      | some t => right; left; exact ⟨t, by simp [stD, hn, hz], by simp [stD, hu], by simp [advance, opStep, machine, step, callCfg, stD, hn, hz, hu]⟩
    · left; exact ⟨by simp [stD, hn, hz], by simp [advance, opStep, machine, step, retCfg, stD, hn, hz]⟩
  · by_cases hz : st.nData = 0
    · cases hu : unwrapAll (setAt st.vals i (some a)) with
      | none => right; right; simp [advance, opStep, machine, step, hn, hz, hu]
      | some t => right; left; exact ⟨t, by simp [stD, hn, hz], by simp [stD, hu], by simp [advance, opStep, machine, step, callCfg, stD, hn, hz, hu]⟩
    · left; exact ⟨by simp [stD, hn, hz], by simp [advance, opStep, machine, step, retCfg, stD, hn, hz]⟩

/-! ## what the counters of the basic invariant say about the trace -/

theorem allBelow_iff (n : Nat) (p : Nat → Bool) : allBelow n p = true ↔ ∀ j, j < n → p j = true := by
  simp [allBelow, List.all_eq_true]

theorem allGreeted_iff {n : Nat} {s : Cfg α} (hr : SReach (machine α n) s) (hg : Glob n s.st s.g.ph) :
    allBelow n (fun j => srcGreeted j s.tr) = true ↔ s.st.nStart = 0 := by
  rw [allBelow_iff, ← hg.allSet_iff]
  constructor
  · intro h j hj; exact (hg.slot j).2 ((srcGreeted_iff hr j).1 (h j hj))
  · intro h j hj; exact (srcGreeted_iff hr j).2 ((hg.slot j).1 (h j hj))

theorem allEnded_iff {n : Nat} {s : Cfg α} (hr : SReach (machine α n) s) (hg : Glob n s.st s.g.ph) :
    allBelow n (fun j => srcEnded j s.tr) = true ↔ s.st.nEnd = 0 := by
  rw [allBelow_iff]
  constructor
  · intro h; rw [hg.fin]; exact cnt_eq_zero (fun j hj => by simp [(srcEnded_iff hr j).1 (h j hj)])
  · intro h j hj
    have := cnt_zero (hg.fin ▸ h) j hj
    simp at this
    exact (srcEnded_iff hr j).2 this

theorem live_of_down (ph : Ph) (k : Nat) (d : Down (List α)) (h : OnlyUpNotLive (ph.onOut (.down k d)).viols) :
    ph.sinkPh k = .live := by
  cases hp : ph.sinkPh k with
  | live => rfl
  | _ =>
    simp only [Ph.onOut, hp, Ph.viols_flag] at h
    obtain ⟨i, p, e⟩ := h _ List.mem_cons_self
    cases e

/-! ## the values held are the latest values; the tuples sent are those of the reference -/

theorem vals_step {n i : Nat} {a : α} {vals : List (Option α)} {as : List (Nat × α)} (hv : vals = latest n as)
    (hlen : vals.length = n) (hi : i < n) : setAt vals i (some a) = latest n (as ++ [(i, a)]) := by
  rw [setAt_eq_set _ _ _ (by omega), latest_eq, List.foldl_append, ← latest_eq, ← hv]
  simp [upd, hi]

theorem recv_step {n : Nat} {rd : List (List α)} {as : List (Nat × α)} {x : Nat × α} {vals' : List (Option α)}
    (hr : rd = combineRef n (List.replicate n none) as) (hv : vals' = latest n (as ++ [x])) :
    combineRef n (List.replicate n none) (as ++ [x]) = rd ++ emit vals' := by
  rw [combineRef_snoc, ← hr, hv, latest_eq, List.foldl_append]; rfl

/-! ## the invariant -/

def T (n : Nat) (s : Cfg α) : Prop := s.st.vals = latest n (arrivals s.tr) ∧ Fin0 s.g.ph s.tr ∧ TrOK n s.tr

def FInv (n : Nat) (s : Cfg α) : Prop := SReach (machine α n) s ∧ Inv n s ∧ T n s

theorem finish (n : Nat) {s' X : Cfg α} {k : Nat} (hb : ∃ n1, Inv n (advance (machine α n) n1 s')) (hr : SReach (machine α n) s')
    (he : advance (machine α n) k s' = X) (hst : opStep (machine α n) X = none)
    (hT : Inv n X → SReach (machine α n) X → T n X) : ∃ k, FInv n (advance (machine α n) k s') := by
  obtain ⟨hI, hR⟩ := land n hb hr he hst
  exact ⟨k, by rw [he]; exact ⟨hR, hI, hT hI hR⟩⟩

theorem T_call (n : Nat) {st' : St α} {o : Out (List α)} {l : Loc α} {stk : List (Frame (Loc α) (List α))} {g1 : G} {tr1 : List (E α)}
    (hvals : st'.vals = latest n (arrivals (.out o :: tr1))) (hf1 : Fin0 g1.ph tr1)
    (hd : ∀ d, o = .down 0 d → isFinal d = true → g1.ph.sinkPh 0 = .live) (hq : TrOK n (.out o :: tr1)) :
    T n (callCfg n st' o l stk g1 tr1) := by
  refine ⟨hvals, ?_, hq⟩
  show Fin0 (g1.onOut _ o).ph _
  rw [onOut_ph]
  exact hf1.out o hd

theorem T_ret (n : Nat) {st' : St α} {stk : List (Frame (Loc α) (List α))} {g1 : G} {tr1 : List (E α)}
    (hvals : st'.vals = latest n (arrivals (.retO :: tr1))) (hf1 : Fin0 g1.ph tr1) (hq : TrOK n (.retO :: tr1)) :
    T n (retCfg st' stk g1 tr1) := by
  refine ⟨hvals, ?_, hq⟩
  show Fin0 (g1.onRetO _).ph _
  rw [onRetO_ph]
  exact hf1.skip _ (Or.inr rfl)

theorem quiet_cases {n : Nat} {l : Loc α} (h : Quiet n l) : l = .done ∨ (∃ i, l = .subLoop i) ∨ ∃ j u, l = .uLoop j u := by
  cases l <;> simp [Quiet] at h ⊢

theorem cont_cases {n : Nat} {st : St α} {ph : Ph} {o : Out (List α)} {l : Loc α} {stk : List (Frame (Loc α) (List α))}
    (hm : Mode n st ph (.wait o l :: stk)) :
    (l = .done ∨ (∃ i, l = .subLoop i) ∨ ∃ j u, l = .uLoop j u) ∧ (ctxOf stk).isSome := by
  cases hm with
  | idle _ h => simp at h
  | sub _ _ h =>
    rcases h with h | ⟨i, h, _⟩
    · simp at h
    · simp at h; obtain ⟨⟨_, rfl⟩, rfl⟩ := h
      exact ⟨Or.inr (Or.inl ⟨_, rfl⟩), by simp [ctxOf]⟩
  | live _ _ h =>
    have h1 := h _ List.mem_cons_self
    exact ⟨quiet_cases h1, ctx_isSome_of_benign (List.forall_mem_cons.1 h).2⟩
  | disposing j u rest _ _ _ _ h h' =>
    simp at h; obtain ⟨⟨_, rfl⟩, rfl⟩ := h
    exact ⟨Or.inr (Or.inr ⟨_, _, rfl⟩), ctx_isSome_of_benign h'⟩
  | over _ _ _ h =>
    have h1 := h _ List.mem_cons_self
    exact ⟨quiet_cases h1, ctx_isSome_of_benign (List.forall_mem_cons.1 h).2⟩

theorem no_panic {X : Cfg α} (h1 : X.panicked = none) (h2 : X.panicked.isSome = true) : False := by
  rw [h1] at h2; cases h2

theorem finv_step (n : Nat) (s s' : Cfg α) (m : Move α) (h : FInv n s) (hs : EnvStep (machine α n) m s s') :
    ∃ k, FInv n (advance (machine α n) k s') := by
  obtain ⟨hr, hI, hv, hf, ht⟩ := h
  have hb := inv_step n s s' m hI hs
  have hr' : SReach (machine α n) s' := .step hr (.env hs trivial)
  obtain ⟨hp, hg, hm⟩ := hI
  cases hs with
  | @call st stk g tr c i hc hl =>
    have hctx : (ctxOf stk).isSome := by simp [hc]
    simp only at hv hf ht hg hm
    have hf1 : Fin0 (g.onIn stk.length i).ph (.inp i :: tr) := by rw [onIn_ph]; exact hf.inp i hl
    cases i with
    | subscribe k =>
      obtain ⟨hq, ha⟩ := ht.quiet (.inp (.subscribe k)) (.retO) rfl rfl rfl rfl
      rcases run_subLoop n 0 st stk (g.onIn stk.length (.subscribe k)) (.inp (.subscribe k) :: tr) with ⟨_, he⟩ | ⟨_, he⟩
      · obtain ⟨hq, ha⟩ := ht.quiet (.inp (.subscribe k)) (.out (.subSrc 0)) rfl rfl rfl rfl
        exact finish n hb hr' he (stuck_call ..) (fun _ _ => T_call n (by rw [ha]; exact hv) hf1 (fun d h => by cases h) hq)
      · exact finish n hb hr' he (stuck_ret n _ _ _ _ hctx) (fun _ _ => T_ret n (by rw [ha]; exact hv) hf1 hq)
    | sinkUp k u =>
      obtain ⟨hq, ha⟩ := ht.quiet (.inp (.sinkUp k u)) (.retO) rfl rfl rfl rfl
      rcases run_uLoop n 0 u st stk (g.onIn stk.length (.sinkUp k u)) (.inp (.sinkUp k u) :: tr) with he | he | he
      · obtain ⟨hq, ha⟩ := ht.quiet (.inp (.sinkUp k u)) (.out (.srcUp 0 u)) rfl rfl rfl rfl
        exact finish n hb hr' he (stuck_call ..) (fun _ _ => T_call n (by rw [ha]; exact hv) hf1 (fun d h => by cases h) hq)
      · exact finish n hb hr' he (stuck_ret n _ _ _ _ hctx) (fun _ _ => T_ret n (by rw [ha]; exact hv) hf1 hq)
      · exact finish n hb hr' rfl (stuck_panic n _ he) (fun hIX _ => (no_panic hIX.1 he).elim)
    | srcGreet i =>
      have ha : ∀ e2 : E α, isOpEv e2 = true → arrivals (e2 :: .inp (.srcGreet i) :: tr) = arrivals tr := by
        intro e2 h2; cases e2 <;> simp_all [isOpEv, arrivals]
      rcases run_g0 n i st stk (g.onIn stk.length (.srcGreet i)) (.inp (.srcGreet i) :: tr) with ⟨hz, he⟩ | ⟨hz, he⟩
      · refine finish n hb hr' he (stuck_call ..) (fun hIX hrX => ?_)
        have hall := (allGreeted_iff hrX hIX.2.1).2 hz
        have hall' : allBelow n (fun j => srcGreeted j (.inp (.srcGreet i) :: tr)) = true := by
          simpa [callCfg, srcGreeted] using hall
        refine T_call n (by rw [ha _ rfl]; exact hv) hf1 (fun d h => by cases h) ?_
        refine ht.step _ _ rfl rfl ?_ (by simp [isDataOut]) ?_ ?_ ?_ ?_
        · rw [ha _ rfl]; simpa [recvData] using ht.recv
        · simp [chkGreetOnly, isGreetOut, isSrcGreet, hall']
        · simp [chkGreetIf, isGreetOut]
        · simp [chkTermOnly, isTermOut]
        · simp [chkTermIf, isSrcEnd]
      · refine finish n hb hr' he (stuck_ret n _ _ _ _ hctx) (fun hIX hrX => ?_)
        have hall : ¬ allBelow n (fun j => srcGreeted j (.inp (.srcGreet i) :: tr)) = true := by
          intro hc
          apply hz
          apply (allGreeted_iff hrX hIX.2.1).1
          simpa [retCfg, srcGreeted] using hc
        refine T_ret n (by rw [ha _ rfl]; exact hv) hf1 ?_
        refine ht.step _ _ rfl rfl ?_ (by simp [isDataOut]) ?_ ?_ ?_ ?_
        · rw [ha _ rfl]; simpa [recvData] using ht.recv
        · simp [chkGreetOnly, isGreetOut]
        · simp [chkGreetIf, hall]
        · simp [chkTermOnly, isTermOut]
        · simp [chkTermIf, isSrcEnd]
    | srcDown i d =>
      have hlive := legal_srcDown hl
      have hi : i < n := hg.lt_of_ne_idle (by simp [hlive])
      cases d with
      | data a =>
        have ha : ∀ e2 : E α, isOpEv e2 = true → arrivals (e2 :: .inp (.srcDown i (.data a)) :: tr) = arrivals tr ++ [(i, a)] := by
          intro e2 h2; cases e2 <;> simp_all [isOpEv, arrivals]
        have hv' : (stD st i a).vals = latest n (arrivals tr ++ [(i, a)]) := vals_step hv hg.len hi
        have hrc := recv_step ht.recv hv'
        rcases run_d0 n i a st stk (g.onIn stk.length (.srcDown i (.data a))) (.inp (.srcDown i (.data a)) :: tr) with
          ⟨hz, he⟩ | ⟨t, hz, hu, he⟩ | he
        · refine finish n hb hr' he (stuck_ret n _ _ _ _ hctx) (fun hIX hrX => ?_)
          have hgX : Glob n (stD st i a) _ := hIX.2.1
          have hnone : allSome (stD st i a).vals = none := by
            apply allSome_none_of_cnt
            rw [hgX.len, ← hgX.data]; exact hz
          refine T_ret n (by rw [ha _ rfl]; exact hv') hf1 ?_
          refine ht.step _ _ rfl rfl ?_ (by simp [isDataOut]) ?_ ?_ ?_ ?_
          · rw [ha _ rfl, hrc, emit, hnone]; simp [recvData]
          · simp [chkGreetOnly, isGreetOut]
          · simp [chkGreetIf, isSrcGreet]
          · simp [chkTermOnly, isTermOut]
          · simp [chkTermIf, isSrcEnd]
        · refine finish n hb hr' he (stuck_call ..) (fun hIX hrX => ?_)
          have hsome : allSome (stD st i a).vals = some t := by rw [← unwrapAll_eq]; exact hu
          refine T_call n (by rw [ha _ rfl]; exact hv') hf1 (fun d h hfin => by cases h; simp [isFinal] at hfin) ?_
          refine ht.step _ _ rfl rfl ?_ (by simp [dataCause]) ?_ ?_ ?_ ?_
          · rw [ha _ rfl, hrc, emit, hsome]; simp [recvData]
          · simp [chkGreetOnly, isGreetOut]
          · simp [chkGreetIf, isSrcGreet]
          · simp [chkTermOnly, isTermOut]
          · simp [chkTermIf, isSrcEnd]
        · exact finish n hb hr' rfl (stuck_panic n _ he) (fun hIX _ => (no_panic hIX.1 he).elim)
      | term =>
        have ha : ∀ e2 : E α, isOpEv e2 = true → arrivals (e2 :: .inp (.srcDown i .term) :: tr) = arrivals tr := by
          intro e2 h2; cases e2 <;> simp_all [isOpEv, arrivals]
        rcases run_e0 n st stk (g.onIn stk.length (.srcDown i .term)) (.inp (.srcDown i .term) :: tr) with ⟨hz, he⟩ | ⟨hz, he⟩
        · refine finish n hb hr' he (stuck_call ..) (fun hIX hrX => ?_)
          have hall := (allEnded_iff hrX hIX.2.1).2 hz
          have hall' : allBelow n (fun j => srcEnded j (.inp (.srcDown i .term) :: tr)) = true := by
            simpa [callCfg, srcEnded] using hall
          have hlv : (g.onIn stk.length (.srcDown i .term : In α)).ph.sinkPh 0 = .live := by
            apply live_of_down _ 0 .term
            have := hIX.2.1.viols
            simpa [callCfg] using this
          refine T_call n (by rw [ha _ rfl]; exact hv) hf1 (fun _ _ _ => hlv) ?_
          refine ht.step _ _ rfl rfl ?_ (by simp [isDataOut]) ?_ ?_ ?_ ?_
          · rw [ha _ rfl]; simpa [recvData] using ht.recv
          · simp [chkGreetOnly, isGreetOut]
          · simp [chkGreetIf, isSrcGreet]
          · simp [chkTermOnly, isTermOut, isSrcEnd, hall']
          · simp [chkTermIf, isTermOut]
        · refine finish n hb hr' he (stuck_ret n _ _ _ _ hctx) (fun hIX hrX => ?_)
          have hall : ¬ allBelow n (fun j => srcEnded j (.inp (.srcDown i .term) :: tr)) = true := by
            intro hc
            apply hz
            apply (allEnded_iff hrX hIX.2.1).1
            simpa [retCfg, srcEnded] using hc
          refine T_ret n (by rw [ha _ rfl]; exact hv) hf1 ?_
          refine ht.step _ _ rfl rfl ?_ (by simp [isDataOut]) ?_ ?_ ?_ ?_
          · rw [ha _ rfl]; simpa [recvData] using ht.recv
          · simp [chkGreetOnly, isGreetOut]
          · simp [chkGreetIf, isSrcGreet]
          · simp [chkTermOnly, isTermOut]
          · simp [chkTermIf, hall]
      | err e =>
        have ha : ∀ e2 : E α, isOpEv e2 = true → arrivals (e2 :: .inp (.srcDown i (.err e)) :: tr) = arrivals tr := by
          intro e2 h2; cases e2 <;> simp_all [isOpEv, arrivals]
        rcases run_e0 n st stk (g.onIn stk.length (.srcDown i (.err e))) (.inp (.srcDown i (.err e)) :: tr) with ⟨hz, he⟩ | ⟨hz, he⟩
        · refine finish n hb hr' he (stuck_call ..) (fun hIX hrX => ?_)
          have hall := (allEnded_iff hrX hIX.2.1).2 hz
          have hall' : allBelow n (fun j => srcEnded j (.inp (.srcDown i (.err e)) :: tr)) = true := by
            simpa [callCfg, srcEnded] using hall
          have hlv : (g.onIn stk.length (.srcDown i (.err e) : In α)).ph.sinkPh 0 = .live := by
            apply live_of_down _ 0 .term
            have := hIX.2.1.viols
            simpa [callCfg] using this
          refine T_call n (by rw [ha _ rfl]; exact hv) hf1 (fun _ _ _ => hlv) ?_
          refine ht.step _ _ rfl rfl ?_ (by simp [isDataOut]) ?_ ?_ ?_ ?_
          · rw [ha _ rfl]; simpa [recvData] using ht.recv
          · simp [chkGreetOnly, isGreetOut]
          · simp [chkGreetIf, isSrcGreet]
          · simp [chkTermOnly, isTermOut, isSrcEnd, hall']
          · simp [chkTermIf, isTermOut]
        · refine finish n hb hr' he (stuck_ret n _ _ _ _ hctx) (fun hIX hrX => ?_)
          have hall : ¬ allBelow n (fun j => srcEnded j (.inp (.srcDown i (.err e)) :: tr)) = true := by
            intro hc
            apply hz
            apply (allEnded_iff hrX hIX.2.1).1
            simpa [retCfg, srcEnded] using hc
          refine T_ret n (by rw [ha _ rfl]; exact hv) hf1 ?_
          refine ht.step _ _ rfl rfl ?_ (by simp [isDataOut]) ?_ ?_ ?_ ?_
          · rw [ha _ rfl]; simpa [recvData] using ht.recv
          · simp [chkGreetOnly, isGreetOut]
          · simp [chkGreetIf, isSrcGreet]
          · simp [chkTermOnly, isTermOut]
          · simp [chkTermIf, hall]
  | @ret st stk g tr o l hl =>
    simp only at hv hf ht hg hm
    obtain ⟨hcont, hctx⟩ := cont_cases hm
    have hf1 : Fin0 g.ph (.retE :: tr) := hf.skip _ (Or.inl rfl)
    obtain ⟨hq, ha⟩ := ht.quiet .retE .retO rfl rfl rfl rfl
    rcases hcont with rfl | ⟨i, rfl⟩ | ⟨j, u, rfl⟩
    · exact finish n hb hr' (run_done n st stk g (.retE :: tr)) (stuck_ret n _ _ _ _ hctx)
        (fun _ _ => T_ret n (by rw [ha]; exact hv) hf1 hq)
    · rcases run_subLoop n i st stk g (.retE :: tr) with ⟨_, he⟩ | ⟨_, he⟩
      · obtain ⟨hq, ha⟩ := ht.quiet .retE (.out (.subSrc i)) rfl rfl rfl rfl
        exact finish n hb hr' he (stuck_call ..) (fun _ _ => T_call n (by rw [ha]; exact hv) hf1 (fun d h => by cases h) hq)
      · exact finish n hb hr' he (stuck_ret n _ _ _ _ hctx) (fun _ _ => T_ret n (by rw [ha]; exact hv) hf1 hq)
    · rcases run_uLoop n j u st stk g (.retE :: tr) with he | he | he
      · obtain ⟨hq, ha⟩ := ht.quiet .retE (.out (.srcUp j u)) rfl rfl rfl rfl
        exact finish n hb hr' he (stuck_call ..) (fun _ _ => T_call n (by rw [ha]; exact hv) hf1 (fun d h => by cases h) hq)
      · exact finish n hb hr' he (stuck_ret n _ _ _ _ hctx) (fun _ _ => T_ret n (by rw [ha]; exact hv) hf1 hq)
      · exact finish n hb hr' rfl (stuck_panic n _ he) (fun hIX _ => (no_panic hIX.1 he).elim)

theorem finv_init (n : Nat) : FInv n (Sys.init (machine α n)) := by
  refine ⟨.init, inv_init n, ?_, ?_, TrOK.nil n⟩
  · show List.replicate n none = latest n (arrivals [])
    simp [arrivals, latest]
  · exact ⟨fun h => by simp [Sys.init] at h, fun _ => rfl⟩

/-- C10: the functional specification of `combine!` holds on the trace of every reachable configuration in which the
environment has control — every arity, history, nesting depth and data value. -/
theorem combine_spec {α : Type} [DecidableEq α] (n : Nat) :
    ∀ s, SReach (Combine.machine α n) s → EnvTurn s → combineOk n s.tr = true := by
  intro s hs ht
  obtain ⟨k, hk⟩ := reach_runs_into_inv (machine α n) anyEnv (FInv n) (finv_init n) (fun s h => (inv_turn n s h.2.1).1)
    (fun s s' m hi he _ => finv_step n s s' m hi he) s hs
  rw [advance_of_envTurn ht] at hk
  obtain ⟨_, _, _, hf, hT⟩ := hk
  rw [combineOk_eq]
  simp only [Bool.and_eq_true, decide_eq_true_eq, beq_iff_eq]
  exact ⟨⟨⟨⟨⟨⟨hT.recv, hT.cause⟩, hT.greetOnly⟩, hT.greetIf⟩, hT.termOnly⟩, hT.termIf⟩, hf.le⟩

end Cb.CombineFun

#print axioms Cb.CombineFun.combine_spec
