import CallbagModel.Fun.FromIter
import CallbagModel.Spec14
/-!
# from_iter: demand conservation (C14) holds on every trace of the model, under the pullable discipline

The invariant of `Fun/FromIter.lean` (`FromIterFun.FInv`) is reused as it is: every configuration reachable under `pullable`
is reachable under `anyEnv` (`SReachR.weaken`), so `finv_of_reach` applies at every environment turn.  What it does not say —
its `owed` clause is an inequality — is the *equality* C14 needs: while the sink has neither disposed nor received its
terminal, `data + gotPull = pulls`, and `gotPull = false` outside the loop.  This is where the discipline enters: a nested
Pull only sets the flag `gotPull`; two nested Pulls inside one delivery would be served once.  `pullable` allows one.

The new invariant carries reachability itself (`DInv s := SReachR … s ∧ EnvTurn s ∧ X …`), so that the generic facts about
traces and phases are available in the step; no confluence argument is needed, the configuration after each macro-step is
computed explicitly.

The first part of the file is generic (any machine): the number of greetings a sink has received is determined by its phase,
hence `promptsTo k tr ≤ 1 + |recvData k tr|`.
-/
namespace Cb

section generic
variable {St Loc α β : Type}

/-- greetings sink `k` has received -/
def greetsTo (k : Nat) : List (Ev α β) → Nat
  | [] => 0
  | .out (.greet k') :: t => (if k' = k then 1 else 0) + greetsTo k t
  | _ :: t => greetsTo k t

theorem promptsTo_eq (k : Nat) (tr : List (Ev α β)) : promptsTo k tr = greetsTo k tr + (recvData k tr).length := by
  induction tr with
  | nil => simp [promptsTo, greetsTo, recvData]
  | cons e t ih =>
    cases e with
    | inp i => simpa [promptsTo, greetsTo, recvData] using ih
    | retE => simpa [promptsTo, greetsTo, recvData] using ih
    | retO => simpa [promptsTo, greetsTo, recvData] using ih
    | panic => simpa [promptsTo, greetsTo, recvData] using ih
    | out o =>
      cases o with
      | greet k' => simp only [promptsTo, greetsTo, recvData, ih]; omega
      | down k' d =>
        cases d with
        | data b =>
          simp only [promptsTo, greetsTo, recvData, ih]
          split <;> simp <;> omega
        | term => simpa [promptsTo, greetsTo, recvData] using ih
        | err e => simpa [promptsTo, greetsTo, recvData] using ih
      | subSrc i => simpa [promptsTo, greetsTo, recvData] using ih
      | srcUp i u => simpa [promptsTo, greetsTo, recvData] using ih
      | app b => simpa [promptsTo, greetsTo, recvData] using ih

/-- greetings received by a sink in a given phase -/
def pastGreet : SinkPh → Nat
  | .idle => 0 | .subscribed => 0 | _ => 1

/-- while no phase-level violation has been recorded, a sink has been greeted exactly once iff it is past `subscribed` -/
def GT (ph : Ph) (tr : List (Ev α β)) : Prop :=
  ph.viols = [] → ∀ k, greetsTo k tr = pastGreet (ph.sinkPh k)

theorem GT.init : GT ({} : Ph) ([] : List (Ev α β)) := by
  intro _ k; simp [greetsTo, pastGreet]

theorem onIn_viols (ph : Ph) (i : In α) : (ph.onIn i).viols = ph.viols := by
  cases i with
  | subscribe k => rfl
  | sinkUp k u => cases u <;> rfl
  | srcGreet i => rfl
  | srcDown i d => cases d <;> rfl

theorem GT.inp {sh : Shape} {ph : Ph} {c : Ctx β} {tr : List (Ev α β)} (h : GT ph tr) (i : In α)
    (hl : legalIn sh ph c i = true) : GT (ph.onIn i) (.inp i :: tr) := by
  intro hv k'
  rw [onIn_viols] at hv
  have := h hv k'
  simp only [greetsTo]
  cases i with
  | subscribe k =>
    have hk := legal_subscribe hl
    simp only [Ph.onIn, Ph.sinkPh_setSink]
    by_cases hj : k' = k
    · subst hj; simpa [hk, pastGreet] using this
    · simpa [hj] using this
  | sinkUp k u =>
    have hk := legal_sinkUp hl
    cases u with
    | pull => exact this
    | term =>
      simp only [Ph.onIn, Ph.sinkPh_setSink]
      by_cases hj : k' = k
      · subst hj; simpa [hk, pastGreet] using this
      · simpa [hj] using this
    | err e =>
      simp only [Ph.onIn, Ph.sinkPh_setSink]
      by_cases hj : k' = k
      · subst hj; simpa [hk, pastGreet] using this
      · simpa [hj] using this
  | srcGreet j => simpa [Ph.onIn] using this
  | srcDown j d => cases d <;> simpa [Ph.onIn] using this

theorem GT.out {ph : Ph} {tr : List (Ev α β)} (h : GT ph tr) (o : Out β) : GT (ph.onOut o) (.out o :: tr) := by
  intro hv k'
  cases o with
  | greet k =>
    simp only [Ph.onOut] at hv ⊢
    split at hv
    · rename_i hk
      have := h (by simpa using hv) k'
      simp only [hk, ↓reduceIte, greetsTo, Ph.sinkPh_setSink]
      by_cases hj : k' = k
      · subst hj; simp [hk, pastGreet] at this; simp [this, pastGreet]
      · have hj' : ¬ k = k' := fun e => hj e.symm
        simpa [hj, hj'] using this
    · simp at hv
  | down k d =>
    cases hp : ph.sinkPh k with
    | live =>
      simp only [Ph.onOut, hp] at hv ⊢
      cases d with
      | data b => simpa [greetsTo, isFinal] using h (by simpa [isFinal] using hv) k'
      | term =>
        have := h (by simpa [isFinal] using hv) k'
        simp only [greetsTo, isFinal, ↓reduceIte, Ph.sinkPh_setSink]
        by_cases hj : k' = k
        · subst hj; simpa [hp, pastGreet] using this
        · simpa [hj] using this
      | err e =>
        have := h (by simpa [isFinal] using hv) k'
        simp only [greetsTo, isFinal, ↓reduceIte, Ph.sinkPh_setSink]
        by_cases hj : k' = k
        · subst hj; simpa [hp, pastGreet] using this
        · simpa [hj] using this
    | idle | subscribed | doneBySrc | doneBySelf => simp [Ph.onOut, hp] at hv
  | subSrc i =>
    simp only [Ph.onOut] at hv ⊢
    split at hv
    · simp at hv
    · split at hv
      · simp at hv
      · rename_i h1 h2
        simpa [greetsTo, h1, h2] using h (by simpa using hv) k'
  | srcUp i u =>
    cases u with
    | pull =>
      simp only [Ph.onOut] at hv ⊢
      split at hv
      · rename_i h1; simpa [greetsTo, h1] using h hv k'
      · simp at hv
    | term =>
      simp only [Ph.onOut] at hv ⊢
      split at hv
      · rename_i h1; simpa [greetsTo, h1] using h (by simpa using hv) k'
      · simp at hv
    | err e =>
      simp only [Ph.onOut] at hv ⊢
      split at hv
      · rename_i h1; simpa [greetsTo, h1] using h (by simpa using hv) k'
      · simp at hv
  | app b => simpa [greetsTo, Ph.onOut] using h (by simpa [Ph.onOut] using hv) k'

theorem GT.skip {ph : Ph} {tr : List (Ev α β)} (h : GT ph tr) (e : Ev α β)
    (he : e = .retE ∨ e = .retO ∨ e = .panic) : GT ph (e :: tr) := by
  intro hv k
  rcases he with rfl | rfl | rfl <;> simpa [greetsTo] using h hv k

theorem GT.opStep {M : Machine St Loc α β} {a b : Sys St Loc α β} (ha : GT a.g.ph a.tr) (h : opStep M a = some b) :
    GT b.g.ph b.tr := by
  unfold Cb.opStep at h
  cases hp : a.panicked with
  | some m => simp [hp] at h
  | none =>
    simp only [hp, Option.isSome_none, Bool.false_eq_true, ↓reduceIte] at h
    cases hs : a.stack with
    | nil => simp [hs] at h
    | cons f r =>
      cases f with
      | wait o l => simp [hs] at h
      | run l =>
        simp only [hs] at h
        cases hst : M.step a.st l with
        | ret =>
          simp only [hst, Option.some.injEq] at h; subst h
          simpa using ha.skip .retO (.inr (.inl rfl))
        | tau s' l' =>
          simp only [hst, Option.some.injEq] at h; subst h
          exact ha
        | call o s' l' =>
          simp only [hst, Option.some.injEq] at h; subst h
          simpa using ha.out o
        | panic m =>
          simp only [hst, Option.some.injEq] at h; subst h
          exact ha.skip .panic (.inr (.inr rfl))

theorem GT.envStep {M : Machine St Loc α β} {m : Move α} {a b : Sys St Loc α β} (ha : GT a.g.ph a.tr)
    (h : EnvStep M m a b) : GT b.g.ph b.tr := by
  cases h with
  | call i hc hl => simpa using ha.inp i hl
  | ret hl => exact ha.skip .retE (.inl rfl)

theorem GT.of_reach {M : Machine St Loc α β} {R : Restr St Loc α β} {s : Sys St Loc α β} (hs : SReachR M R s) :
    GT s.g.ph s.tr := by
  induction hs with
  | init => exact GT.init
  | step _ hab ih =>
    cases hab with
    | op h => exact ih.opStep h
    | env h _ => exact ih.envStep h

/-- a sink is greeted at most once, hence it has received at most `1 + data` messages that entitle it to a Pull -/
theorem promptsTo_le {M : Machine St Loc α β} {R : Restr St Loc α β} {s : Sys St Loc α β} (hs : SReachR M R s)
    (hv : s.g.ph.viols = []) (k : Nat) : promptsTo k s.tr ≤ 1 + (recvData k s.tr).length := by
  rw [promptsTo_eq, GT.of_reach hs hv k]
  cases s.g.ph.sinkPh k <;> simp [pastGreet] <;> omega

/-- running the operator stays within the reachable configurations -/
theorem reach_advance {M : Machine St Loc α β} {R : Restr St Loc α β} (n : Nat) {s : Sys St Loc α β}
    (hs : SReachR M R s) : SReachR M R (advance M n s) := by
  induction n generalizing s with
  | zero => exact hs
  | succ n ih =>
    simp only [advance]
    cases h : opStep M s with
    | none => exact hs
    | some s' => exact ih (.step hs (.op h))

end generic
end Cb

namespace Cb.FromIterDemand
open Cb Cb.FromIter Cb.FromIterFun

variable {ι α α' : Type}

/-- the demand accounting: unless the output is over, `data + gotPull = pulls`, and no Pull is pending outside the loop -/
def X (gp il : Bool) (tr : List (Ev α' α)) : Prop :=
  sinkDisposed 0 tr = true ∨ finalsTo 0 tr = 1 ∨
    ((recvData 0 tr).length + (if gp = true then 1 else 0) = pullsIn 0 tr ∧ (il = false → gp = false))

variable {gp il : Bool} {tr : List (Ev α' α)}

theorem X.init : X false false ([] : List (Ev α' α)) := by
  simp [X, recvData, pullsIn]

/-- A: the sink subscribes and is greeted -/
theorem X.sub (h : X gp il tr) : X gp il (.out (.greet 0) :: .inp (.subscribe 0) :: tr) := by
  simpa [X, sinkDisposed, finalsTo, recvData, pullsIn] using h

/-- G, H, K: a return of the environment followed by a return of the operator, flags unchanged -/
theorem X.rets (h : X gp il tr) : X gp il (.retO :: .retE :: tr) := by
  simpa [X, sinkDisposed, finalsTo, recvData, pullsIn] using h

/-- H: the loop is left with no Pull pending -/
theorem X.exit (h : X false il tr) : X false false (.retO :: .retE :: tr) := by
  have := h.rets
  simp only [X] at this ⊢
  rcases this with h | h | ⟨h, _⟩
  · exact .inl h
  · exact .inr (.inl h)
  · exact .inr (.inr ⟨h, by simp⟩)

/-- the output is over: disposed -/
theorem X.ofDisposed (h : sinkDisposed 0 tr = true) : X gp il tr := .inl h
/-- the output is over: completed -/
theorem X.ofFinal (h : finalsTo 0 tr = 1) : X gp il tr := .inr (.inl h)

/-- D, F: the sink disposes -/
theorem X.quietEnd (u : Up) (hu : u ≠ .pull) (gp' il' : Bool) : X gp' il' (.retO :: .inp (.sinkUp 0 u) :: tr) := by
  cases u with
  | pull => exact absurd rfl hu
  | term => exact .inl (by simp [sinkDisposed])
  | err e => exact .inl (by simp [sinkDisposed])

/-- E: a nested Pull sets `gotPull`; the discipline guarantees that it was not set already -/
theorem X.quietPull (h : X gp true tr) (hd : sinkDisposed 0 tr = false) (hf : finalsTo 0 tr = 0)
    (hp : pullsIn 0 tr < promptsTo 0 tr) (hq : promptsTo 0 tr ≤ 1 + (recvData 0 tr).length) :
    X true true (.retO :: .inp (.sinkUp 0 .pull) :: tr) := by
  rcases h with h | h | ⟨h, _⟩
  · rw [hd] at h; cases h
  · omega
  · refine .inr (.inr ⟨?_, fun h => by cases h⟩)
    simp only [recvData, pullsIn, ↓reduceIte]
    split at h <;> omega

/-- C: a Pull at rest is answered with the next item -/
theorem X.pullData {a : α} (h : X gp false tr) (hd : sinkDisposed 0 tr = false) (hf : finalsTo 0 tr = 0) :
    X false true (.out (.down 0 (.data a)) :: .inp (.sinkUp 0 .pull) :: tr) := by
  rcases h with h | h | ⟨h, h'⟩
  · rw [hd] at h; cases h
  · omega
  · refine .inr (.inr ⟨?_, fun h => by cases h⟩)
    rw [h' rfl] at h
    simp only [recvData, pullsIn, ↓reduceIte, List.length_append, List.length_singleton] at h ⊢
    simp only [Bool.false_eq_true, ↓reduceIte] at h ⊢
    omega

/-- J: the delivery returns, a Pull is pending, the next item is delivered -/
theorem X.retData {a : α} (h : X true true tr) (hd : sinkDisposed 0 tr = false) (hf : finalsTo 0 tr = 0) :
    X false true (.out (.down 0 (.data a)) :: .retE :: tr) := by
  rcases h with h | h | ⟨h, _⟩
  · rw [hd] at h; cases h
  · omega
  · refine .inr (.inr ⟨?_, fun h => by cases h⟩)
    simp only [recvData, pullsIn, ↓reduceIte, List.length_append, List.length_singleton] at h ⊢
    simp only [Bool.false_eq_true, ↓reduceIte] at h ⊢
    omega

/-! ## the invariant -/

/-- reachable under the discipline, at an environment turn, with the demand accounting -/
def DInv (next : ι → Option (α × ι)) (it0 : ι) (s : Sys (St ι α) Loc α' α) : Prop :=
  SReachR (machine α' next it0) pullable s ∧ EnvTurn s ∧ X s.st.gotPull s.st.inLoop s.tr

variable {next : ι → Option (α × ι)} {it0 : ι}

theorem dinv_init : DInv next it0 (Sys.init (machine α' next it0)) :=
  ⟨.init, by simp [EnvTurn, Sys.init, ctxOf], X.init⟩

/-- the configuration after `n` operator steps, described explicitly, satisfies the invariant -/
theorem fin_of {s' : Sys (St ι α) Loc α' α} (hr : SReachR (machine α' next it0) pullable s') (n : Nat)
    {gp il : Bool} {stk : List (Frame Loc α)} {tr : List (Ev α' α)} (hX : X gp il tr) (hc : (ctxOf stk).isSome)
    (hrun : (advance (machine α' next it0) n s').st.gotPull = gp ∧ (advance (machine α' next it0) n s').st.inLoop = il ∧
      (advance (machine α' next it0) n s').stack = stk ∧ (advance (machine α' next it0) n s').tr = tr ∧
      (advance (machine α' next it0) n s').panicked = none) :
    ∃ n, DInv next it0 (advance (machine α' next it0) n s') := by
  obtain ⟨r1, r2, r3, r4, r5⟩ := hrun
  refine ⟨n, reach_advance n hr, ⟨r5, by rw [r3]; exact hc⟩, ?_⟩
  rw [r1, r2, r4]; exact hX

theorem bot_ctx {stk : List (Frame Loc α)} (h : Bot stk) : (ctxOf stk).isSome := by
  rcases h with rfl | rfl <;> simp [ctxOf]

macro "run" : tactic => `(tactic| simp [advance, opStep, machine, enter, step, *])

theorem dinv_step (next : ι → Option (α × ι)) (it0 : ι) (s s' : Sys (St ι α) Loc α' α) (m : Move α')
    (h : DInv next it0 s) (hs : EnvStep (machine α' next it0) m s s') (hR : pullable s m) :
    ∃ n, DInv next it0 (advance (machine α' next it0) n s') := by
  obtain ⟨hr, ht, hX⟩ := h
  have hr' : SReachR (machine α' next it0) pullable s' := .step hr (.env hs hR)
  obtain ⟨hI, hT⟩ := finv_of_reach next it0 s hr.weaken ht
  have hdisp := sinkDisposed_iff hr 0
  obtain ⟨hp, hv, hsrc, hoths, hm⟩ := hI
  have hprompt := promptsTo_le hr hv 0
  cases hs with
  | @call st stk g tr c i hc hl =>
    simp only at hp hv hsrc hoths hm hT hX hdisp hprompt
    have hcs : (ctxOf stk).isSome := by simp [hc]
    cases i with
    | subscribe k =>
      simp only [legalIn, Bool.and_eq_true, beq_iff_eq, machine, Bool.or_false] at hl
      obtain ⟨⟨hc', hidle⟩, rfl⟩ := hl
      cases hm with
      | idle h1 h2 h3 h4 h5 h6 h7 =>
        subst h2
        exact fin_of hr' 1 hX.sub (stk := [.wait (.greet 0) .done]) (by simp [ctxOf]) (by run)
      | _ => simp_all
    | sinkUp k u =>
      simp only [legalIn, Bool.and_eq_true, beq_iff_eq, Bool.or_eq_true] at hl
      obtain ⟨hlive, hctx⟩ := hl
      have hk : k = 0 := by
        by_cases hk : k = 0
        · exact hk
        · rw [hoths k hk] at hlive; cases hlive
      subst hk
      have hnd : sinkDisposed 0 tr = false := by
        cases hd : sinkDisposed 0 tr with
        | false => rfl
        | true => rw [hdisp.1 hd] at hlive; cases hlive
      cases hm with
      | live0 h1 h2 h3 h4 h5 h6 =>
        have hf : finalsTo 0 tr = 0 := by rw [hT.fin, h3]; rfl
        rw [h5] at hX
        cases u with
        | pull =>
          cases hn : next st.it with
          | none =>
            exact fin_of hr' 10 (gp := false) (il := true)
              (tr := .out (.down 0 .term) :: .inp (.sinkUp 0 .pull) :: tr) (X.ofFinal (by simp [finalsTo, hf])) (stk := .wait (.down 0 .term) .lend :: stk)
              (by simp [ctxOf]) (by run)
          | some p =>
            obtain ⟨a, it'⟩ := p
            exact fin_of hr' 10 (hX.pullData (a := a) hnd hf) (stk := .wait (.down 0 (.data a)) .w0 :: stk)
              (by simp [ctxOf]) (by run)
        | term => exact fin_of hr' 3 (X.quietEnd (tr := tr) .term (by simp) st.gotPull false) hcs (by run)
        | err e => exact fin_of hr' 3 (X.quietEnd (tr := tr) (.err e) (by simp) st.gotPull false) hcs (by run)
      | live1 h1 h2 h3 h4 h5 h6 =>
        have hf : finalsTo 0 tr = 0 := by rw [hT.fin, h3]; rfl
        rw [h5] at hX
        cases u with
        | pull =>
          have hpl : pullsIn 0 tr < promptsTo 0 tr := by simpa [pullable, pullableB] using hR
          exact fin_of hr' 3 (hX.quietPull hnd hf hpl hprompt) hcs (by run)
        | term => exact fin_of hr' 3 (X.quietEnd (tr := tr) .term (by simp) st.gotPull true) hcs (by run)
        | err e => exact fin_of hr' 3 (X.quietEnd (tr := tr) (.err e) (by simp) st.gotPull true) hcs (by run)
      | _ => simp_all
    | srcGreet i =>
      simp only [legalIn, Bool.and_eq_true, beq_iff_eq, Bool.or_eq_true] at hl
      simp [hsrc i] at hl
    | srcDown i d =>
      simp only [legalIn, Bool.and_eq_true, beq_iff_eq, Bool.or_eq_true] at hl
      simp [hsrc i] at hl
  | @ret st stk g tr o l hl =>
    simp only at hp hv hsrc hoths hm hT hX hdisp hprompt
    have resume_tail : Tail (Frame.wait o l :: stk) →
        ∃ n, DInv next it0 (advance (machine α' next it0) n ⟨st, .run l :: stk, g, .retE :: tr, none⟩) := by
      intro ht
      obtain ⟨o', he⟩ := ht _ List.mem_cons_self
      simp at he; obtain ⟨rfl, rfl⟩ := he
      exact fin_of hr' 1 hX.rets (ctx_isSome_of_tail (tail_of_cons ht)) (by run)
    cases hm with
    | idle _ h => simp at h
    | live0 h1 h2 h3 h4 h5 h6 => exact resume_tail h6
    | self0 h1 h2 h3 h4 h6 => exact resume_tail h6
    | src0 h1 h2 h3 h4 h6 => exact resume_tail h6
    | live1 h1 h2 h3 h4 h5 h6 =>
      obtain ⟨a, rest, he, hrest⟩ := h6
      simp at he; obtain ⟨⟨rfl, rfl⟩, rfl⟩ := he
      have hcs := ctx_isSome_of_tail hrest
      have hnd : sinkDisposed 0 tr = false := by
        cases hd : sinkDisposed 0 tr with
        | false => rfl
        | true => rw [hdisp.1 hd] at h1; cases h1
      have hf : finalsTo 0 tr = 0 := by rw [hT.fin, h3]; rfl
      rw [h5] at hX
      cases hgp : st.gotPull with
      | false =>
        rw [hgp] at hX
        exact fin_of hr' 3 hX.exit hcs (by run)
      | true =>
        rw [hgp] at hX
        cases hn : next st.it with
        | none =>
          exact fin_of hr' 5 (gp := false) (il := true)
            (tr := .out (.down 0 .term) :: .retE :: tr) (X.ofFinal (by simp [finalsTo, hf])) (stk := .wait (.down 0 .term) .lend :: stk)
            (by simp [ctxOf]) (by run)
        | some p =>
          obtain ⟨b, it'⟩ := p
          exact fin_of hr' 5 (hX.retData (a := b) hnd hf) (stk := .wait (.down 0 (.data b)) .w0 :: stk)
            (by simp [ctxOf]) (by run)
    | self1 h1 h2 h3 h4 h6 =>
      obtain ⟨a, rest, he, hrest⟩ := h6
      simp at he; obtain ⟨⟨rfl, rfl⟩, rfl⟩ := he
      have hcs := ctx_isSome_of_tail hrest
      have hd : sinkDisposed 0 (.retO :: .retE :: tr) = true := by simpa [sinkDisposed] using hdisp.2 h1
      cases hgp : st.gotPull with
      | false => exact fin_of hr' 3 (gp := false) (il := false) (X.ofDisposed hd) hcs (by run)
      | true => exact fin_of hr' 4 (gp := true) (il := false) (X.ofDisposed hd) hcs (by run)
    | src1 h1 h2 h3 h4 h6 =>
      obtain ⟨rest, he, hrest⟩ := h6
      simp at he; obtain ⟨⟨rfl, rfl⟩, rfl⟩ := he
      have hcs := ctx_isSome_of_tail hrest
      have hf : finalsTo 0 (.retO :: .retE :: tr) = 1 := by simp [finalsTo, hT.fin, h3]
      exact fin_of hr' 2 (gp := st.gotPull) (il := false) (X.ofFinal hf) hcs (by run)

/-- every environment turn reachable under the discipline satisfies the demand accounting -/
theorem dinv_of_reach (next : ι → Option (α × ι)) (it0 : ι) (s : Sys (St ι α) Loc α' α)
    (hs : SReachR (machine α' next it0) pullable s) (ht : EnvTurn s) : DInv next it0 s := by
  obtain ⟨n, hn⟩ := reach_runs_into_inv (machine α' next it0) pullable (DInv next it0) dinv_init (fun _ h => h.2.1)
    (dinv_step next it0) s hs
  rwa [advance_of_envTurn ht] at hn

/-- **C14** for `from_iter` (model side): under the pullable discipline, at every reachable configuration where the
environment has control, the sink has never received more Data than it sent Pulls, and a Pull that has not been answered is
either moot (the sink disposed) or will be served by the loop when the delivery in progress returns. -/
theorem fromIter_demand {ι α α' : Type} (next : ι → Option (α × ι)) (it0 : ι) :
    ∀ s, SReachR (FromIter.machine α' next it0) pullable s → EnvTurn s → demandOk s.tr = true := by
  intro s hs ht
  obtain ⟨_, _, hX⟩ := dinv_of_reach next it0 s hs ht
  obtain ⟨_, hT⟩ := finv_of_reach next it0 s hs.weaken ht
  have howed := hT.owed
  have hle : (recvData 0 s.tr).length ≤ pullsIn 0 s.tr := by omega
  unfold demandOk
  simp only [Bool.and_eq_true, decide_eq_true_eq]
  refine ⟨hle, ?_⟩
  split
  · rename_i hc
    simp only [beq_iff_eq] at hc
    obtain ⟨hlt, hf⟩ := hc
    rcases hX with h | h | ⟨h, h'⟩
    · simp [h]
    · omega
    · have hgp : s.st.gotPull = true := by
        cases hg : s.st.gotPull with
        | true => rfl
        | false => rw [hg] at h; simp at h; omega
      have hil : s.st.inLoop = true := by
        cases hi : s.st.inLoop with
        | true => rfl
        | false => rw [h' hi] at hgp; cases hgp
      have hdepth : deliveryDepth 0 s.tr > 0 := by
        unfold deliveryDepth
        rw [hT.oc]
        rcases hT.shp with ⟨hc, _⟩ | ⟨_, d, l, rest, he, _⟩
        · rw [hil] at hc; cases hc
        · rw [he]; simp [framesOf]
      simp [hdepth]
  · rfl

end Cb.FromIterDemand

#print axioms Cb.FromIterDemand.fromIter_demand
