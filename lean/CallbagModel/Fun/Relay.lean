import CallbagModel.Inv.Relay
import CallbagModel.Inv.TraceGhost
import CallbagModel.Spec
/-!
# map / filter / scan / skip: the functional specification `relayOk` (C07) holds on every trace of the model

`FInv s := Relay.Inv k s ∧ T k s.st.priv s.tr ∧ (upstream live → the trace is not empty)`.  The phase-level invariant is
reused as a black box (`finv_of`: an environment turn is a fixpoint of `advance`, so the configuration that `Relay.inv_step`
reaches and the one computed here with the exact step count coincide).  `T` links the private state of the operator to the
trace (`priv` = the transfer function folded over the data received so far) and carries the four clauses of `relayOk`.
-/
namespace Cb.RelayFun
open Cb Cb.Relay

variable {σ α β : Type}

/-! ## pure lemmas about the reference semantics -/

/-- the private state after a list of inputs -/
def xferSt (xfer : σ → α → σ × Option β) : σ → List α → σ
  | s, [] => s
  | s, a :: as => xferSt xfer (xfer s a).1 as

theorem xferSt_append (xfer : σ → α → σ × Option β) (s : σ) (as : List α) (a : α) :
    xferSt xfer s (as ++ [a]) = (xfer (xferSt xfer s as) a).1 := by
  induction as generalizing s with
  | nil => simp [xferSt]
  | cons x xs ih => simp [xferSt, ih]

/-- `xferOut` over an appended input -/
theorem xferOut_append (xfer : σ → α → σ × Option β) (s : σ) (as : List α) (a : α) :
    xferOut xfer s (as ++ [a]) =
      xferOut xfer s as ++ (match (xfer (xferSt xfer s as) a).2 with | some b => [b] | none => []) := by
  induction as generalizing s with
  | nil =>
    simp only [List.nil_append, xferOut, xferSt]
    cases (xfer s a).2 <;> rfl
  | cons x xs ih =>
    simp only [List.cons_append, xferOut, xferSt]
    split <;> simp [ih]

theorem xferOut_map {α β : Type} (f : α → β) (s : Unit) (as : List α) : xferOut (Relay.map f).xfer s as = as.map f := by
  induction as with
  | nil => simp [xferOut]
  | cons a as ih => simp [xferOut, Relay.map] at ih ⊢; exact ih

theorem xferOut_filter {α : Type} (p : α → Bool) (s : Unit) (as : List α) :
    xferOut (Relay.filter p).xfer s as = as.filter p := by
  induction as with
  | nil => simp [xferOut]
  | cons a as ih =>
    simp only [xferOut, Relay.filter] at ih ⊢
    cases hp : p a <;> simp [hp, ih]

theorem xferOut_scan {α β : Type} (r : β → α → β) (seed : β) (s : β) (as : List α) :
    xferOut (Relay.scan r seed).xfer s as = scanF r s as := by
  induction as generalizing s with
  | nil => simp [xferOut, scanF]
  | cons a as ih => simp only [xferOut, Relay.scan, scanF] at ih ⊢; rw [ih]

theorem xferOut_skip {α : Type} (n : Nat) (k : Nat) (as : List α) :
    xferOut (Relay.skip (α := α) n).xfer k as = as.drop (n - k) := by
  induction as generalizing k with
  | nil => simp [xferOut]
  | cons a as ih =>
    simp only [xferOut, Relay.skip] at ih ⊢
    by_cases hk : k < n
    · have : n - k = (n - (k + 1)) + 1 := by omega
      simp [hk, ih, this]
    · have : n - k = 0 := by omega
      simp [hk, ih, this]

/-! ## trace lemmas -/

/-- events the specification of a relay does not look at -/
def neutral : Ev α β → Bool
  | .inp (.srcDown _ _) => false
  | .out (.down _ _) => false
  | _ => true

theorem sentData_neutral (e : Ev α β) (he : neutral e = true) (t : List (Ev α β)) : sentData 0 (e :: t) = sentData 0 t := by
  cases e with
  | inp i => cases i <;> simp_all [neutral, sentData]
  | out o => cases o <;> simp_all [neutral, sentData]
  | _ => simp [sentData]

theorem recvData_neutral (e : Ev α β) (he : neutral e = true) (t : List (Ev α β)) : recvData 0 (e :: t) = recvData 0 t := by
  cases e with
  | inp i => cases i <;> simp_all [neutral, recvData]
  | out o => cases o <;> simp_all [neutral, recvData]
  | _ => simp [recvData]

theorem isDataOut_neutral (e : Ev α β) (he : neutral e = true) : isDataOut 0 e = false := by
  cases e with
  | inp i => cases i <;> simp_all [neutral, isDataOut]
  | out o => cases o <;> simp_all [neutral, isDataOut]
  | _ => simp [isDataOut]

theorem isFinalOut_neutral (e : Ev α β) (he : neutral e = true) : isFinalOut 0 e = false := by
  cases e with
  | inp i => cases i <;> simp_all [neutral, isFinalOut]
  | out o => cases o <;> simp_all [neutral, isFinalOut]
  | _ => simp [isFinalOut]

theorem isFinalIn_neutral (e : Ev α β) (he : neutral e = true) : isFinalIn 0 e = false := by
  cases e with
  | inp i => cases i <;> simp_all [neutral, isFinalIn]
  | out o => cases o <;> simp_all [neutral, isFinalIn]
  | _ => simp [isFinalIn]

theorem epb_cons_of_not {p : Ev α β → Bool} {q : Ev α β → Ev α β → Bool} (e : Ev α β) (tr : List (Ev α β))
    (hp : p e = false) (h : eachPrecededBy p q tr = true) : eachPrecededBy p q (e :: tr) = true := by
  cases tr with
  | nil => simp [eachPrecededBy, hp]
  | cons e1 t => simp [eachPrecededBy, hp, h]

theorem epb_cons_of_rel {p : Ev α β → Bool} {q : Ev α β → Ev α β → Bool} (e2 e1 : Ev α β) (t : List (Ev α β))
    (hq : q e1 e2 = true) (h : eachPrecededBy p q (e1 :: t) = true) : eachPrecededBy p q (e2 :: e1 :: t) = true := by
  simp [eachPrecededBy, hq, h]

theorem efb_cons_of_not {p : Ev α β → Bool} {q : Ev α β → Ev α β → Bool} (e : Ev α β) (tr : List (Ev α β))
    (hp : p e = false) (hh : ∀ e' t, tr = e' :: t → p e' = false) (h : eachFollowedBy p q tr = true) :
    eachFollowedBy p q (e :: tr) = true := by
  cases tr with
  | nil => simp [eachFollowedBy, hp]
  | cons e1 t => simp [eachFollowedBy, hh e1 t rfl, h]

/-- a selected event arrives (the trace before it is not empty and ends with an unselected event) and is answered at once -/
theorem efb_cons_of_rel {p : Ev α β → Bool} {q : Ev α β → Ev α β → Bool} (e2 e1 : Ev α β) (tr : List (Ev α β))
    (hq : q e1 e2 = true) (hne : tr ≠ []) (hh : ∀ e' t, tr = e' :: t → p e' = false) (h : eachFollowedBy p q tr = true) :
    eachFollowedBy p q (e2 :: e1 :: tr) = true := by
  cases tr with
  | nil => exact absurd rfl hne
  | cons e0 t => simp [eachFollowedBy, hh e0 t rfl, h, hq]

/-! ## the trace part of the invariant -/

/-- what is known about the trace (and the private state of the operator) at every environment turn -/
structure T (k : Kind σ α β) (priv : σ) (tr : List (Ev α β)) : Prop where
  st : priv = xferSt k.xfer k.seed (sentData 0 tr)
  io : recvData 0 tr = xferOut k.xfer k.seed (sentData 0 tr)
  c2 : eachPrecededBy (isDataOut 0) (fun e1 _ => isDataIn 0 e1) tr = true
  c3 : eachPrecededBy (isFinalOut 0) (finalPasses 0 0) tr = true
  c4 : eachFollowedBy (isFinalIn 0) (finalPasses 0 0) tr = true
  hd : ∀ e t, tr = e :: t → isFinalIn (β := β) 0 e = false

theorem T.init (k : Kind σ α β) : T k k.seed ([] : List (Ev α β)) where
  st := by simp [sentData, xferSt]
  io := by simp [sentData, recvData, xferOut]
  c2 := by simp [eachPrecededBy]
  c3 := by simp [eachPrecededBy]
  c4 := by simp [eachFollowedBy]
  hd := by intro e t h; cases h

theorem T.neutral {k : Kind σ α β} {priv : σ} {tr : List (Ev α β)} (h : T k priv tr) (e : Ev α β)
    (he : neutral e = true) : T k priv (e :: tr) where
  st := by rw [sentData_neutral e he]; exact h.st
  io := by rw [sentData_neutral e he, recvData_neutral e he]; exact h.io
  c2 := epb_cons_of_not _ _ (isDataOut_neutral e he) h.c2
  c3 := epb_cons_of_not _ _ (isFinalOut_neutral e he) h.c3
  c4 := efb_cons_of_not _ _ (isFinalIn_neutral e he) h.hd h.c4
  hd := by intro e' t h'; cases h'; exact isFinalIn_neutral e he

/-- a datum arrives and its image is delivered inside that delivery -/
theorem T.dataSome {k : Kind σ α β} {priv : σ} {tr : List (Ev α β)} (h : T k priv tr) (a : α) (b : β)
    (hx : (k.xfer priv a).2 = some b) :
    T k (k.xfer priv a).1 (.out (.down 0 (.data b)) :: .inp (.srcDown 0 (.data a)) :: tr) where
  st := by simp [sentData, xferSt_append, ← h.st]
  io := by simp [sentData, recvData, xferOut_append, ← h.st, hx, h.io]
  c2 := epb_cons_of_rel _ _ _ (by simp [isDataIn]) (epb_cons_of_not _ _ (by simp [isDataOut]) h.c2)
  c3 := epb_cons_of_not _ _ (by simp [isFinalOut]) (epb_cons_of_not _ _ (by simp [isFinalOut]) h.c3)
  c4 := efb_cons_of_not _ _ (by simp [isFinalIn]) (by intro e' t h'; cases h'; simp [isFinalIn])
          (efb_cons_of_not _ _ (by simp [isFinalIn]) h.hd h.c4)
  hd := by intro e' t h'; cases h'; simp [isFinalIn]

/-- a datum arrives and is dropped: the operator asks for the next one -/
theorem T.dataNone {k : Kind σ α β} {priv : σ} {tr : List (Ev α β)} (h : T k priv tr) (a : α)
    (hx : (k.xfer priv a).2 = none) :
    T k (k.xfer priv a).1 (.out (.srcUp 0 .pull) :: .inp (.srcDown 0 (.data a)) :: tr) where
  st := by simp [sentData, xferSt_append, ← h.st]
  io := by simp [sentData, recvData, xferOut_append, ← h.st, hx, h.io]
  c2 := epb_cons_of_not _ _ (by simp [isDataOut]) (epb_cons_of_not _ _ (by simp [isDataOut]) h.c2)
  c3 := epb_cons_of_not _ _ (by simp [isFinalOut]) (epb_cons_of_not _ _ (by simp [isFinalOut]) h.c3)
  c4 := efb_cons_of_not _ _ (by simp [isFinalIn]) (by intro e' t h'; cases h'; simp [isFinalIn])
          (efb_cons_of_not _ _ (by simp [isFinalIn]) h.hd h.c4)
  hd := by intro e' t h'; cases h'; simp [isFinalIn]

/-- upstream completes: the sink is completed at once -/
theorem T.term {k : Kind σ α β} {priv : σ} {tr : List (Ev α β)} (h : T k priv tr) (hne : tr ≠ []) :
    T k priv (.out (.down 0 .term) :: .inp (.srcDown 0 .term) :: tr) where
  st := by simp [sentData, ← h.st]
  io := by simp [sentData, recvData, h.io]
  c2 := epb_cons_of_not _ _ (by simp [isDataOut]) (epb_cons_of_not _ _ (by simp [isDataOut]) h.c2)
  c3 := epb_cons_of_rel _ _ _ (by simp [finalPasses]) (epb_cons_of_not _ _ (by simp [isFinalOut]) h.c3)
  c4 := efb_cons_of_rel _ _ _ (by simp [finalPasses]) hne h.hd h.c4
  hd := by intro e' t h'; cases h'; simp [isFinalIn]

/-- upstream fails: the sink receives the same error at once -/
theorem T.err {k : Kind σ α β} {priv : σ} {tr : List (Ev α β)} (h : T k priv tr) (hne : tr ≠ []) (e : Nat) :
    T k priv (.out (.down 0 (.err e)) :: .inp (.srcDown 0 (.err e)) :: tr) where
  st := by simp [sentData, ← h.st]
  io := by simp [sentData, recvData, h.io]
  c2 := epb_cons_of_not _ _ (by simp [isDataOut]) (epb_cons_of_not _ _ (by simp [isDataOut]) h.c2)
  c3 := epb_cons_of_rel _ _ _ (by simp [finalPasses]) (epb_cons_of_not _ _ (by simp [isFinalOut]) h.c3)
  c4 := efb_cons_of_rel _ _ _ (by simp [finalPasses]) hne h.hd h.c4
  hd := by intro e' t h'; cases h'; simp [isFinalIn]

/-! ## combining with the basic invariant: environment turns are fixpoints of `advance` -/

theorem advance_fix {St Loc α β : Type} (M : Machine St Loc α β) (s : Sys St Loc α β) (h : opStep M s = none) (n : Nat) :
    advance M n s = s := by
  cases n with
  | zero => rfl
  | succ n => simp [advance, h]

theorem advance_add {St Loc α β : Type} (M : Machine St Loc α β) (a b : Nat) (s : Sys St Loc α β) :
    advance M (a + b) s = advance M b (advance M a s) := by
  induction a generalizing s with
  | zero => simp [advance]
  | succ a ih =>
    rw [Nat.add_right_comm]
    simp only [advance]
    cases h : opStep M s with
    | none => simp [advance_fix M s h]
    | some s' => simp [ih]

def FInv (k : Kind σ α β) (s : Sys (St σ) (Loc α β) α β) : Prop :=
  Relay.Inv k s ∧ T k s.st.priv s.tr ∧ (s.g.ph.srcPh 0 = .live → s.tr ≠ [])

theorem finv_of (k : Kind σ α β) {s' : Sys (St σ) (Loc α β) α β}
    (hb : ∃ n, Relay.Inv k (advance (machine k) n s')) (n2 : Nat)
    (ht : EnvTurn (advance (machine k) n2 s'))
    (hT : T k (advance (machine k) n2 s').st.priv (advance (machine k) n2 s').tr)
    (hne : (advance (machine k) n2 s').tr ≠ []) :
    ∃ n, FInv k (advance (machine k) n s') := by
  obtain ⟨n1, h1⟩ := hb
  have e1 := (Relay.inv_turn k _ h1).1
  have heq : advance (machine k) n1 s' = advance (machine k) n2 s' := by
    have a := advance_add (machine k) n1 n2 s'
    have b := advance_add (machine k) n2 n1 s'
    rw [advance_of_envTurn e1] at a
    rw [advance_of_envTurn ht, Nat.add_comm] at b
    exact a.symm.trans b
  refine ⟨n2, ?_, hT, fun _ => hne⟩
  rw [← heq]; exact h1

theorem finv_init (k : Kind σ α β) : FInv k (Sys.init (machine k)) :=
  ⟨Relay.inv_init k, by simpa [Sys.init, machine] using T.init k, by simp [Sys.init]⟩

macro "run" : tactic =>
  `(tactic| simp [advance, opStep, machine, enter, step, EnvTurn, ctxOf, *])

theorem finv_step (k : Kind σ α β) (hk : k.slotted = false → ∀ s a, (k.xfer s a).2 ≠ none)
    (s s' : Sys (St σ) (Loc α β) α β) (m : Move α) (h : FInv k s) (hs : EnvStep (machine k) m s s') :
    ∃ n, FInv k (advance (machine k) n s') := by
  obtain ⟨hinv, hT, hne⟩ := h
  have hb := Relay.inv_step k hk s s' m hinv hs
  obtain ⟨hp, hbs, hoth, hoths, hm⟩ := hinv
  cases hs with
  | @call st stk g tr c i hc hl =>
    simp only at hp hbs hoth hoths hm hT hne
    cases i with
    | subscribe j =>
      refine finv_of k hb 1 (by run) ?_ (by run)
      have := (hT.neutral (.inp (.subscribe j)) rfl).neutral (.out (.subSrc 0)) rfl
      run
    | sinkUp j u =>
      simp only [legalIn, Bool.and_eq_true, beq_iff_eq, Bool.or_eq_true] at hl
      obtain ⟨hlive, hctx⟩ := hl
      have hj : j = 0 := by
        by_cases hj : j = 0
        · exact hj
        · rw [hoths j hj] at hlive; cases hlive
      subst hj
      have hslot : (k.slotted && !st.slot) = false := by
        cases hm with
        | m3 h1 h2 h3 h6 =>
          cases hks : k.slotted with
          | false => simp
          | true => simp [h3 hks]
        | _ => simp_all
      refine finv_of k hb 1 (by run) ?_ (by run)
      have := (hT.neutral (.inp (.sinkUp 0 u)) rfl).neutral (.out (.srcUp 0 u)) rfl
      run
    | srcGreet i =>
      have := (hT.neutral (.inp (.srcGreet i)) rfl).neutral (.out (.greet 0)) rfl
      cases hks : k.slotted with
      | false => exact finv_of k hb 2 (by run) (by run) (by run)
      | true => exact finv_of k hb 2 (by run) (by run) (by run)
    | srcDown i d =>
      simp only [legalIn, Bool.and_eq_true, beq_iff_eq, Bool.or_eq_true] at hl
      obtain ⟨hlive, hctx⟩ := hl
      have hi : i = 0 := by
        by_cases hi : i = 0
        · exact hi
        · rw [hoth i hi] at hlive; cases hlive
      subst hi
      have htr := hne hlive
      cases d with
      | data a =>
        cases hx : (k.xfer st.priv a).2 with
        | some b =>
          have := hT.dataSome a b hx
          exact finv_of k hb 2 (by run) (by run) (by run)
        | none =>
          have hsl : st.slot = true := by
            cases hm with
            | m3 h1 h2 h3 h6 =>
              apply h3
              cases hks : k.slotted with
              | true => rfl
              | false => exact absurd hx (hk hks _ _)
            | _ => simp_all
          have := hT.dataNone a hx
          exact finv_of k hb 2 (by run) (by run) (by run)
      | term =>
        have := hT.term htr
        exact finv_of k hb 1 (by run) (by run) (by run)
      | err e =>
        have := hT.err htr e
        exact finv_of k hb 1 (by run) (by run) (by run)
  | @ret st stk g tr o l hl =>
    simp only at hp hbs hoth hoths hm hT hne
    have hl_done : ∀ (_ : ∀ f ∈ Frame.wait o l :: stk, Benign f), l = .done ∧ ∀ f ∈ stk, Benign f := by
      intro h6
      have hben := h6 _ (List.mem_cons_self)
      refine ⟨?_, (List.forall_mem_cons.1 h6).2⟩
      cases l <;> simp_all [Benign]
    have hdone : l = .done ∧ ∀ f ∈ stk, Benign f := by
      cases hm with
      | m1 _ _ h => simp at h
      | m2 h1 h2 h5 =>
        simp at h5; obtain ⟨⟨rfl, rfl⟩, rfl⟩ := h5
        simp [legalRet, h2, machine] at hl
      | m3 h1 h2 h3 h6 => exact hl_done h6
      | m4 h1 h2 h6 => exact hl_done h6
      | m5 h1 h2 h6 => exact hl_done h6
    obtain ⟨rfl, hrest⟩ := hdone
    have hctx := ctx_isSome_of_benign hrest
    have := (hT.neutral .retE rfl).neutral .retO rfl
    exact finv_of k hb 1 (by simp [advance, opStep, machine, step, EnvTurn, hctx]) (by run) (by run)

/-- the strengthened invariant holds at every environment turn that is reachable -/
theorem finv_of_reach (k : Kind σ α β) (hk : k.slotted = false → ∀ s a, (k.xfer s a).2 ≠ none) :
    ∀ s, SReach (machine k) s → EnvTurn s → FInv k s := by
  intro s hs ht
  obtain ⟨n, hn⟩ := reach_runs_into_inv (machine k) anyEnv (FInv k) (finv_init k)
    (fun s h => (Relay.inv_turn k s h.1).1) (fun s s' m hi he _ => finv_step k hk s s' m hi he) s hs
  rwa [advance_of_envTurn ht] at hn

/-! ## the theorems -/

/-- C07 for the generic relay -/
theorem relay_spec {σ α β : Type} [DecidableEq β] (k : Relay.Kind σ α β)
    (hk : k.slotted = false → ∀ s a, (k.xfer s a).2 ≠ none) :
    ∀ s, SReach (Relay.machine k) s → EnvTurn s → relayOk k.xfer k.seed s.tr = true := by
  intro s hs ht
  obtain ⟨_, hT, _⟩ := finv_of_reach k hk s hs ht
  simp only [relayOk, Bool.and_eq_true, beq_iff_eq]
  exact ⟨⟨⟨hT.io, hT.c2⟩, hT.c3⟩, hT.c4⟩

/-- the input/output relation alone -/
theorem relay_io {σ α β : Type} (k : Relay.Kind σ α β)
    (hk : k.slotted = false → ∀ s a, (k.xfer s a).2 ≠ none) :
    ∀ s, SReach (Relay.machine k) s → EnvTurn s → recvData 0 s.tr = xferOut k.xfer k.seed (sentData 0 s.tr) :=
  fun s hs ht => (finv_of_reach k hk s hs ht).2.1.io

/-- the four operators, with their list functions spelled out -/
theorem map_spec {α β : Type} [DecidableEq β] (f : α → β) :
    ∀ s, SReach (Relay.machine (Relay.map f)) s → EnvTurn s →
      relayOk (Relay.map f).xfer () s.tr = true ∧ recvData 0 s.tr = (sentData 0 s.tr).map f := by
  intro s hs ht
  have hk : (Relay.map f).slotted = false → ∀ s a, ((Relay.map f).xfer s a).2 ≠ none := fun _ _ _ => by simp [Relay.map]
  exact ⟨relay_spec (Relay.map f) hk s hs ht, by rw [relay_io (Relay.map f) hk s hs ht, xferOut_map]⟩

theorem filter_spec {α : Type} [DecidableEq α] (p : α → Bool) :
    ∀ s, SReach (Relay.machine (Relay.filter p)) s → EnvTurn s →
      relayOk (Relay.filter p).xfer () s.tr = true ∧ recvData 0 s.tr = (sentData 0 s.tr).filter p := by
  intro s hs ht
  have hk : (Relay.filter p).slotted = false → ∀ s a, ((Relay.filter p).xfer s a).2 ≠ none :=
    fun h => by simp [Relay.filter] at h
  exact ⟨relay_spec (Relay.filter p) hk s hs ht, by rw [relay_io (Relay.filter p) hk s hs ht, xferOut_filter]⟩

theorem scan_spec {α β : Type} [DecidableEq β] (r : β → α → β) (seed : β) :
    ∀ s, SReach (Relay.machine (Relay.scan r seed)) s → EnvTurn s →
      relayOk (Relay.scan r seed).xfer seed s.tr = true ∧ recvData 0 s.tr = scanF r seed (sentData 0 s.tr) := by
  intro s hs ht
  have hk : (Relay.scan r seed).slotted = false → ∀ s a, ((Relay.scan r seed).xfer s a).2 ≠ none :=
    fun _ _ _ => by simp [Relay.scan]
  exact ⟨relay_spec (Relay.scan r seed) hk s hs ht, by rw [relay_io (Relay.scan r seed) hk s hs ht, xferOut_scan]; rfl⟩

theorem skip_spec {α : Type} [DecidableEq α] (n : Nat) :
    ∀ s, SReach (Relay.machine (Relay.skip (α := α) n)) s → EnvTurn s →
      relayOk (Relay.skip (α := α) n).xfer 0 s.tr = true ∧ recvData 0 s.tr = (sentData 0 s.tr).drop n := by
  intro s hs ht
  have hk : (Relay.skip (α := α) n).slotted = false → ∀ s a, ((Relay.skip (α := α) n).xfer s a).2 ≠ none :=
    fun h => by simp [Relay.skip] at h
  exact ⟨relay_spec (Relay.skip n) hk s hs ht, by rw [relay_io (Relay.skip n) hk s hs ht, xferOut_skip]; rfl⟩

end Cb.RelayFun

#print axioms Cb.RelayFun.relay_spec
#print axioms Cb.RelayFun.map_spec
#print axioms Cb.RelayFun.filter_spec
#print axioms Cb.RelayFun.scan_spec
#print axioms Cb.RelayFun.skip_spec
