import CallbagModel.Props
/-!
# Functional specifications of the operators, as executable predicates on traces (C07–C12, C15)

One predicate per operator: `<op>Ok params tr : Bool`, a conjunction of named clauses.  `tr` is a trace as stored in `Sys.tr`
(newest first) cut at a point where the environment has control.  The theorems of `Thm/C07.lean` … say that the predicate is
`true` on every such trace of the model; the driver evaluates the very same predicate on traces recorded from the real crate.

Clause vocabulary: `recvData k`, `sentData i`, `arrivals` (chronological projections, `Props.lean`); adjacency
(`eachPrecededBy p q`: every event selected by `p` has an immediate predecessor related to it by `q`; `eachFollowedBy`: an
immediate successor) — adjacency is how "the output is delivered during the delivery of the input that caused it" and
"immediately after" are made precise: nothing at all happens in between.
-/
namespace Cb
variable {α β : Type}

/-! ## C07: map / filter / scan / skip / take -/

/-- reference semantics of a unary operator given as a transfer function: the list of outputs for a list of inputs -/
def xferOut {σ} (xfer : σ → α → σ × Option β) : σ → List α → List β
  | _, [] => []
  | s, a :: as => match (xfer s a).2 with
    | some b => b :: xferOut xfer (xfer s a).1 as
    | none => xferOut xfer (xfer s a).1 as

/-- a terminal message passes through unchanged: `Terminate ↦ Terminate`, `Error e ↦ Error e` -/
def finalPasses (i k : Nat) (e1 e2 : Ev α β) : Bool :=
  match e1, e2 with
  | .inp (.srcDown i' .term), .out (.down k' .term) => i' == i && k' == k
  | .inp (.srcDown i' (.err e)), .out (.down k' (.err e')) => i' == i && k' == k && e == e'
  | _, _ => false

def isFinalIn (i : Nat) : Ev α β → Bool
  | .inp (.srcDown i' .term) => i' == i
  | .inp (.srcDown i' (.err _)) => i' == i
  | _ => false

/-- C07 for the pass-through operators: incremental list function + causality + completion exactly when upstream completes -/
def relayOk {σ} [BEq β] (xfer : σ → α → σ × Option β) (seed : σ) (tr : List (Ev α β)) : Bool :=
  (recvData 0 tr == xferOut xfer seed (sentData 0 tr))                                  -- incremental list function
  && eachPrecededBy (isDataOut 0) (fun e1 _ => isDataIn 0 e1) tr                        -- each output inside the delivery that caused it
  && eachPrecededBy (isFinalOut 0) (finalPasses 0 0) tr                                 -- completes only when upstream does, same error
  && eachFollowedBy (isFinalIn 0) (finalPasses 0 0) tr                                  -- … and then at once

/-- take's own completion: a `Terminate` sent upstream that is not the relay of the sink's `Terminate` comes right after a
return, when exactly `max` data have been delivered, and is followed — right after its own return — by the sink's `Terminate` -/
def takeSelfCompletion (max : Nat) : List (Ev α β) → Bool
  | e3 :: e2 :: e1 :: e0 :: t =>
      (match e1, e0 with
       | .out (.srcUp 0 .term), .inp (.sinkUp 0 .term) => true
       | .out (.srcUp 0 .term), .retE =>
           (recvData 0 (e0 :: t)).length == max && (match e2, e3 with | .retE, .out (.down 0 .term) => true | _, _ => false)
       | .out (.srcUp 0 .term), _ => false
       | _, _ => true) && takeSelfCompletion max (e2 :: e1 :: e0 :: t)
  | _ => true

/-- a terminal reaches the sink either because upstream ended (pass-through) or as take's own completion -/
def takeFinalCause (e1 e2 : Ev α β) : Bool :=
  finalPasses 0 0 e1 e2 || (match e1, e2 with | .retE, .out (.down 0 .term) => true | _, _ => false)

/-- C07 for take(max) -/
def takeOk [BEq β] (max : Nat) (tr : List (Ev β β)) : Bool :=
  (recvData 0 tr == (sentData 0 tr).take max)
  && eachPrecededBy (isDataOut 0) (fun e1 _ => isDataIn 0 e1) tr
  && eachPrecededBy (isFinalOut 0) takeFinalCause tr
  && takeSelfCompletion max tr
  -- back at top level with all `max ≥ 1` items delivered: the sink has been completed (or had disposed), upstream told to stop once
  && (if (openCalls tr).isEmpty && max > 0 && (recvData 0 tr).length == max
      then (finalsTo 0 tr == 1 || sinkDisposed 0 tr) && upFinals 0 tr == 1 else true)

/-! ## C15: from_iter -/

/-- the first `n` items of the iterator `next` started at `it` -/
def iterList {ι} (next : ι → Option (α × ι)) : Nat → ι → List α
  | 0, _ => []
  | n + 1, it => match next it with
    | some (a, it') => a :: iterList next n it'
    | none => []

/-- the iterator's state after `n` items, if it yields that many -/
def iterAfter {ι} (next : ι → Option (α × ι)) : Nat → ι → Option ι
  | 0, it => some it
  | n + 1, it => match next it with
    | some (_, it') => iterAfter next n it'
    | none => none

/-- C15 (trace part): ordered, one item per Pull, never re-entrant, completion exactly once and only on exhaustion -/
def fromIterOk {ι α'} [BEq α] (next : ι → Option (α × ι)) (it0 : ι) (tr : List (Ev α' α)) : Bool :=
  (recvData 0 tr == iterList next (recvData 0 tr).length it0)                 -- the iterator's items, in order
  && decide ((recvData 0 tr).length + finalsTo 0 tr ≤ pullsIn 0 tr)            -- one answer (item or end) per Pull at most
  && noNestedDelivery 0 tr                                                    -- no delivery begins inside another delivery
  && decide (deliveryDepth 0 tr ≤ 1)
  && decide (finalsTo 0 tr ≤ 1)
  && (if finalsTo 0 tr == 1 then
        (match iterAfter next (recvData 0 tr).length it0 with | some it => (next it).isNone | none => false)
      else true)                                                              -- completion only when the iterator is exhausted

/-! ## C08: merge -/

def isSrcGreet : Ev α β → Bool | .inp (.srcGreet _) => true | _ => false
def isGreetOut (k : Nat) : Ev α β → Bool | .out (.greet k') => k' == k | _ => false
def isTermOut (k : Nat) : Ev α β → Bool | .out (.down k' .term) => k' == k | _ => false
def isSrcTerm : Ev α β → Bool | .inp (.srcDown _ .term) => true | _ => false
def isSrcEnd : Ev α β → Bool | .inp (.srcDown _ .term) => true | .inp (.srcDown _ (.err _)) => true | _ => false

/-- position-aware check: `chk past e` for every event `e` with the trace `past` before it -/
def eachAt (chk : List (Ev α β) → Ev α β → Bool) : List (Ev α β) → Bool
  | [] => true
  | e :: t => chk t e && eachAt chk t

/-- position-aware adjacency: `chk past e next` for every event `e` that has a successor `next` -/
def eachAtNext (chk : List (Ev α β) → Ev α β → Ev α β → Bool) : List (Ev α β) → Bool
  | e2 :: e1 :: t => chk t e1 e2 && eachAtNext chk (e1 :: t)
  | _ => true

def allBelow (n : Nat) (p : Nat → Bool) : Bool := (List.range n).all p

/-- the output is over: the sink disposed, or received its terminal -/
def outputOver (tr : List (Ev α β)) : Bool := sinkDisposed 0 tr || finalsTo 0 tr > 0

/-- C08 -/
def mergeOk [BEq β] (n : Nat) (tr : List (Ev β β)) : Bool :=
  (recvData 0 tr == (arrivals tr).map (·.2))                                               -- every datum once, in arrival order
  && eachPrecededBy (isDataOut 0) (fun e1 _ => match e1 with | .inp (.srcDown _ (.data _)) => true | _ => false) tr
  && eachPrecededBy (isGreetOut 0) (fun e1 _ => isSrcGreet e1) tr                          -- greeted inside a member's greeting …
  && eachAtNext (fun past e1 e2 => match e1 with                                            -- … namely the first one
        | .inp (.srcGreet i) =>
            if outputOver past then (match e2 with | .out (.srcUp i' .term) => i' == i | _ => false)   -- late greeter: disposed at once
            else if !(past.any isSrcGreet) then isGreetOut 0 e2 else !(isGreetOut 0 e2)
        | _ => true) tr
  && eachAtNext (fun past e1 e2 => if isTermOut 0 e2 then                                   -- completes when the last member completes
        isSrcTerm e1 && allBelow n (fun j => srcCompleted j (e1 :: past)) else true) tr
  && eachAtNext (fun past e1 e2 => if isSrcTerm e1 && allBelow n (fun j => srcCompleted j (e1 :: past)) && !outputOver past
        then isTermOut 0 e2 else true) tr

/-! ## C09: concat -/

/-- C09 -/
def concatOk [BEq β] (n : Nat) (tr : List (Ev β β)) : Bool :=
  (subscriptions tr == List.range (subscriptions tr).length) && decide ((subscriptions tr).length ≤ n)  -- members in order, each once
  && eachPrecededBy (fun e => match e with | .out (.subSrc _) => true | _ => false)                     -- k+1 only from k's completion
       (fun e1 e2 => match e1, e2 with
         | .inp (.subscribe _), .out (.subSrc 0) => true
         | .inp (.srcDown k .term), .out (.subSrc k') => k' == k + 1
         | _, _ => false) tr
  && (recvData 0 tr == (arrivals tr).map (·.2))                                                         -- all data, in arrival order …
  && (((arrivals tr).map (·.1)).zip (((arrivals tr).map (·.1)).drop 1)).all (fun p => decide (p.1 ≤ p.2))  -- … which is member order
  && eachAtNext (fun past e1 e2 => match e1 with                                                        -- demand carried across
        | .inp (.srcGreet j) =>
            if j == 0 then isGreetOut 0 e2
            else if pullsIn 0 past > 0 then (match e2 with | .out (.srcUp j' .pull) => j' == j | _ => false)
            else (match e2 with | .retO => true | _ => false)
        | _ => true) tr
  && eachAtNext (fun past e1 e2 => if isTermOut 0 e2 then                                               -- completes after the last member
        (match e1 with | .inp (.srcDown k .term) => k + 1 == n | _ => false) else true) tr

/-! ## C10: combine -/

def allSome : List (Option α) → Option (List α)
  | [] => some []
  | none :: _ => none
  | some a :: r => (allSome r).map (a :: ·)

/-- reference: the tuples emitted for a sequence of arrivals, given the latest values so far -/
def combineRef (n : Nat) : List (Option α) → List (Nat × α) → List (List α)
  | _, [] => []
  | cur, (i, a) :: r =>
    let cur' := if i < n then cur.set i (some a) else cur
    match allSome cur' with
    | some t => t :: combineRef n cur' r
    | none => combineRef n cur' r

/-- C10 (errors count as ends here: the C05 deviation KF1 is judged under C05, not here) -/
def combineOk [BEq α] (n : Nat) (tr : List (Ev α (List α))) : Bool :=
  (recvData 0 tr == combineRef n (List.replicate n none) (arrivals tr))          -- one tuple per datum once all have one; latest values
  && eachPrecededBy (isDataOut 0) (fun e1 _ => match e1 with | .inp (.srcDown _ (.data _)) => true | _ => false) tr
  && eachAtNext (fun past e1 e2 => if isGreetOut 0 e2 then                       -- greeted once all members have greeted
        isSrcGreet e1 && allBelow n (fun j => srcGreeted j (e1 :: past)) else true) tr
  && eachAtNext (fun past e1 e2 => if isSrcGreet e1 && allBelow n (fun j => srcGreeted j (e1 :: past)) then isGreetOut 0 e2 else true) tr
  && eachAtNext (fun past e1 e2 => if isTermOut 0 e2 then                        -- completes once, after all members have ended
        isSrcEnd e1 && allBelow n (fun j => srcEnded j (e1 :: past)) else true) tr
  && eachAtNext (fun past e1 e2 => if isSrcEnd e1 && allBelow n (fun j => srcEnded j (e1 :: past)) && !sinkDisposed 0 past
        then isTermOut 0 e2 else true) tr
  && decide (finalsTo 0 tr ≤ 1)

/-! ## C11: flatten -/

/-- the inner source that is active after the trace (subscribed by flatten, greeted, not ended, not replaced / disposed) -/
def activeInner (tr : List (Ev α β)) : Option Nat :=
  match (subscriptions tr).filter (· ≠ 0) |>.getLast? with
  | some j => if srcGreeted j tr && !srcEnded j tr && upFinals j tr == 0 then some j else none
  | none => none

def outerAlive (tr : List (Ev α β)) : Bool := srcGreeted 0 tr && !srcEnded 0 tr && upFinals 0 tr == 0

/-- C11 -/
def flattenOk [BEq β] (tr : List (Ev β β)) : Bool :=
  -- every outer datum: dispose the previous inner (if active) and subscribe the new one, numbered in order of arrival
  eachAtNext (fun past e1 e2 => match e1 with
      | .inp (.srcDown 0 (.data _)) =>
          (match activeInner past with
           | some k => (match e2 with | .out (.srcUp k' .term) => k' == k | _ => false)
           | none => (match e2 with | .out (.subSrc j) => j == ((subscriptions past).filter (· ≠ 0)).length + 1 | _ => false))
      | _ => true) tr
  -- a new inner is pulled once on greeting
  && eachAtNext (fun _ e1 e2 => match e1 with
      | .inp (.srcGreet (j+1)) => (match e2 with | .out (.srcUp j' .pull) => j' == j + 1 | _ => false)
      | _ => true) tr
  -- only the latest inner speaks: every datum delivered is the datum just received from the active inner
  && eachAtNext (fun past e1 e2 => if isDataOut 0 e2 then
        (match e1 with | .inp (.srcDown j (.data _)) => some j == activeInner past && j != 0 | _ => false) else true) tr
  && (recvData 0 tr == ((arrivals tr).filter (·.1 ≠ 0)).map (·.2))
  -- completion: the outer ends while no inner is active, or the active inner ends after the outer has ended
  && eachAtNext (fun past e1 e2 => if isTermOut 0 e2 then
        (match e1 with
         | .inp (.srcDown 0 .term) => (activeInner past).isNone
         | .inp (.srcDown (j+1) .term) => some (j+1) == activeInner past && !outerAlive past
         | _ => false) else true) tr
  -- Pull routing
  && eachAtNext (fun past e1 e2 => match e1 with
      | .inp (.sinkUp 0 .pull) =>
          (match activeInner past with
           | some k => (match e2 with | .out (.srcUp k' .pull) => k' == k | _ => false)
           | none => if outerAlive past then (match e2 with | .out (.srcUp 0 .pull) => true | _ => false)
                     else (match e2 with | .retO => true | _ => false))
      | _ => true) tr

/-! ## C12: share -/

/-- sinks attached after the trace, in attachment order: subscribed, not detached by themselves, not terminated -/
def attached : List (Ev α β) → List Nat
  | [] => []
  | .inp (.subscribe k) :: t => attached t ++ [k]
  | .inp (.sinkUp k .term) :: t => (attached t).erase k
  | .inp (.sinkUp k (.err _)) :: t => (attached t).erase k
  | .out (.down k .term) :: t => (attached t).erase k
  | .out (.down k (.err _)) :: t => (attached t).erase k
  | _ :: t => attached t

/-- C12 (the fan-out clause is checked through `recvData`: every sink receives exactly the data sent while it was attached) -/
def shareOk [BEq β] (tr : List (Ev β β)) : Bool :=
  -- a sink attaching while none is attached starts an upstream subscription (a fresh one each time); otherwise it is greeted at once
  eachAtNext (fun past e1 e2 => match e1 with
      | .inp (.subscribe k) =>
          if (attached past).isEmpty then (match e2 with | .out (.subSrc i) => i == (subscriptions past).length | _ => false)
          else isGreetOut k e2
      | _ => true) tr
  -- upstream is disposed exactly when the last attached sink detaches
  && eachAtNext (fun past e1 e2 => match e1 with
      | .inp (.sinkUp k .term) =>
          if (attached past).erase k == [] && (attached past).contains k then (match e2 with | .out (.srcUp _ .term) => true | _ => false)
          else (match e2 with | .retO => true | _ => false)
      | .inp (.sinkUp k (.err _)) =>
          if (attached past).erase k == [] && (attached past).contains k then (match e2 with | .out (.srcUp _ .term) => true | _ => false)
          else (match e2 with | .retO => true | _ => false)
      | _ => true) tr
  && eachPrecededBy (fun e => match e with | .out (.srcUp _ .term) => true | _ => false)
       (fun e1 _ => match e1 with | .inp (.sinkUp _ .term) => true | .inp (.sinkUp _ (.err _)) => true | _ => false) tr
  -- at most one upstream subscription is alive
  && eachAtNext (fun past _ e2 => match e2 with
      | .out (.subSrc _) => (subscriptions past).all (fun i => srcEnded i past || upFinals i past > 0)
      | _ => true) tr

end Cb
