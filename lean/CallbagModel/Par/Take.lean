import CallbagModel.Par
import CallbagModel.Ops.Take
import CallbagModel.Par.TakeAbs
/-!
# take(max) under racing deliveries (C19): the machine `Take.machine α max` run by the thread scheduler `pstep`
refines the abstract program-counter model of `Par/TakeAbs.lean`.

* `pstep_refines`   every `pstep` is a stutter or exactly `TakeAbs.stepAt` at the same thread index
* `take_par_safe`   all schedules: ≤ `max` data, upstream / sink terminated at most once, no panic
* `take_par_complete`, `take_par_quiescent`   at quiescent configurations: exactly once, and everything claimed was delivered
* `take_par_legacy_overdelivers`   the code before the fix delivers 2 items through `take(1)` (witness schedule)
* `take_par_term_before_max`, `take_par_data_after_term`   ordering observation (also with the fix): a thread holding a
  ticket `t < max` can be overtaken by the thread holding ticket `max`; the sink is then completed after fewer than
  `max` items and receives the missing item after its `Terminate`.
-/
namespace Cb.Take
open Cb.TakeAbs (PC Cfg stepPC stepAt)

/-! ## Schedules as witnesses -/

/-- run a schedule (a list of thread ids); `none` if some scheduled thread cannot move -/
def runSched {St Loc α β} (M : Machine St Loc α β) (s : PSys St Loc α β) : List Nat → Option (PSys St Loc α β)
  | [] => some s
  | t :: ts => match pstep M s t with
    | none => none
    | some s' => runSched M s' ts

theorem runSched_reach {St Loc α β} (M : Machine St Loc α β) (s0 : PSys St Loc α β) (sched : List Nat) :
    ∀ a s, PReach M s0 a → runSched M a sched = some s → PReach M s0 s := by
  induction sched with
  | nil => intro a s ha h; simp [runSched] at h; exact h ▸ ha
  | cons t ts ih =>
    intro a s ha h
    simp only [runSched] at h
    cases hp : pstep M a t with
    | none => simp [hp] at h
    | some b => rw [hp] at h; exact ih b s (PReach.step t ha hp) h

/-- a schedule whose final configuration passes a boolean test is a reachability witness -/
theorem witness_of_sched {St Loc α β} (M : Machine St Loc α β) (s0 : PSys St Loc α β) (sched : List Nat)
    (p : PSys St Loc α β → Bool) (h : (runSched M s0 sched).map p = some true) :
    ∃ s, PReach M s0 s ∧ p s = true := by
  cases hr : runSched M s0 sched with
  | none => simp [hr] at h
  | some s => exact ⟨s, runSched_reach M s0 sched s0 s PReach.init hr, by simpa [hr] using h⟩

/-! ## Refinement map -/

/-- thread frame ↦ abstract program counter -/
def pcOf {α} : Option (Frame (Loc α) α) → PC
  | some (.run (.d2 _ t)) => .d2 t
  | some (.wait _ (.d3 t)) => .inData t
  | some (.run (.d3 t)) => .d3 t
  | some (.run .d3b) => .d3b
  | some (.run .d4) => .d4
  | some (.run .d5) => .d5
  | some (.wait _ .d6) => .inUp
  | some (.run .d6) => .d6
  | some (.wait _ .done) => .inDown
  | _ => .idle

/-- the frames a thread that only delivers data can be in -/
inductive FrameOK {α} : Option (Frame (Loc α) α) → Prop
  | none : FrameOK none
  | d0 (a : α) : FrameOK (some (.run (.d0 a)))
  | d2 (a : α) (t : Nat) : FrameOK (some (.run (.d2 a t)))
  | inData (a : α) (t : Nat) : FrameOK (some (.wait (.down 0 (.data a)) (.d3 t)))
  | d3 (t : Nat) : FrameOK (some (.run (.d3 t)))
  | d3b : FrameOK (some (.run .d3b))
  | d4 : FrameOK (some (.run .d4))
  | d5 : FrameOK (some (.run .d5))
  | inUp : FrameOK (some (.wait (.srcUp 0 .term) .d6))
  | d6 : FrameOK (some (.run .d6))
  | inDown : FrameOK (some (.wait (.down 0 .term) .done))
  | done : FrameOK (some (.run .done))

def ScriptOK {α} (sc : List (In α)) : Prop := ∀ i ∈ sc, ∃ a, i = In.srcDown 0 (Down.data a)

def ThreadOK {α} (th : Thread (Loc α) α α) : Prop := FrameOK th.frame ∧ ScriptOK th.script

/-- the abstract configuration of a concrete one (`md` is the ghost `maxDone`) -/
def absOf {α} (s : PSys St (Loc α) α α) (md : Nat) : Cfg :=
  { taken := s.st.taken, fin := s.st.fin, pcs := s.threads.map (fun th => pcOf th.frame),
    dataOuts := s.obs.datas.length, upTerms := s.obs.upTerms, downTerms := s.obs.terms, maxDone := md }

/-- what the concrete configuration satisfies besides the abstract invariant -/
structure Side {α} (s : PSys St (Loc α) α α) : Prop where
  tb : s.st.tb = true
  errs : s.obs.errs = 0
  panics : s.obs.panics = 0
  ok : ∀ th ∈ s.threads, ThreadOK th

@[simp] theorem sinkMsg_terms {β} (o : Obs β) : o.sinkMsg.terms = o.terms := by unfold Obs.sinkMsg; split <;> rfl
@[simp] theorem sinkMsg_errs {β} (o : Obs β) : o.sinkMsg.errs = o.errs := by unfold Obs.sinkMsg; split <;> rfl
@[simp] theorem sinkMsg_upTerms {β} (o : Obs β) : o.sinkMsg.upTerms = o.upTerms := by unfold Obs.sinkMsg; split <;> rfl
@[simp] theorem sinkMsg_panics {β} (o : Obs β) : o.sinkMsg.panics = o.panics := by unfold Obs.sinkMsg; split <;> rfl
@[simp] theorem sinkMsg_datas {β} (o : Obs β) : o.sinkMsg.datas = o.datas := by unfold Obs.sinkMsg; split <;> rfl

theorem side_set {α} {s : PSys St (Loc α) α α} (hs : Side s) (t : Nat) (th' : Thread (Loc α) α α) (h : ThreadOK th') :
    ∀ th ∈ s.threads.set t th', ThreadOK th := TakeAbs.forall_set hs.ok h

theorem scriptOK_tail {α} {i : In α} {rest : List (In α)} (h : ScriptOK (i :: rest)) : ScriptOK rest :=
  fun j hj => h j (List.mem_cons_of_mem _ hj)

theorem scriptOK_nil {α} : ScriptOK ([] : List (In α)) := fun _ h => by cases h

theorem map_set_stutter {α β} (f : α → β) (l : List α) (t : Nat) (h : t < l.length) (x : α) (hx : f x = f l[t]) :
    (l.set t x).map f = l.map f := by
  rw [List.map_set, hx]
  have : f l[t] = (l.map f)[t]'(by simpa using h) := by simp
  rw [this, List.set_getElem_self]

/-- Each `pstep` of the fixed machine is a stutter or exactly the abstract step of the same thread. -/
theorem pstep_refines {α} (max : Nat) (s s' : PSys St (Loc α) α α) (t md : Nat) (hs : Side s)
    (hp : pstep (machine α max) s t = some s') :
    Side s' ∧ (absOf s' md = absOf s md ∨
      ∃ h : t < (absOf s md).pcs.length, absOf s' (stepAt max (absOf s md) t h).maxDone = stepAt max (absOf s md) t h) := by
  unfold pstep at hp
  cases hget : s.threads[t]? with
  | none => simp [hget] at hp
  | some th =>
    obtain ⟨hlt, hth⟩ := List.getElem?_eq_some_iff.mp hget
    have hok := hs.ok th (hth ▸ List.getElem_mem hlt)
    obtain ⟨script, frame⟩ := th
    obtain ⟨hf, hsc⟩ := hok
    simp only at hf hsc
    have hpc : (absOf s md).pcs.length = s.threads.length := by simp [absOf]
    cases hf with
    | none =>
      cases script with
      | nil => simp [hget] at hp
      | cons i rest =>
        obtain ⟨a, rfl⟩ := hsc i (List.mem_cons_self ..)
        simp only [hget, memberOf] at hp
        by_cases hd : 0 ∈ s.obs.disposed
        · simp [hd] at hp; subst hp
          refine ⟨⟨hs.tb, hs.errs, hs.panics, side_set hs t _ ⟨FrameOK.none, scriptOK_nil⟩⟩, Or.inl ?_⟩
          simp only [absOf]
          rw [map_set_stutter _ _ _ hlt _ (by simp [hth, pcOf])]
        · simp [hd] at hp; subst hp
          refine ⟨⟨hs.tb, hs.errs, hs.panics, side_set hs t _ ⟨FrameOK.d0 a, scriptOK_tail hsc⟩⟩, Or.inl ?_⟩
          simp only [absOf]
          rw [map_set_stutter _ _ _ hlt _ (by simp [hth, pcOf, machine, enter])]
    | d0 a =>
      simp only [hget, machine, step] at hp
      by_cases hm : s.st.taken < max
      · simp [hm] at hp; subst hp
        refine ⟨⟨hs.tb, hs.errs, hs.panics, side_set hs t _ ⟨FrameOK.d2 _ _, hsc⟩⟩, Or.inr ⟨hpc ▸ hlt, ?_⟩⟩
        simp [absOf, stepAt, stepPC, hth, pcOf, List.map_set, hm]
      · simp [hm] at hp; subst hp
        refine ⟨⟨hs.tb, hs.errs, hs.panics, side_set hs t _ ⟨FrameOK.none, hsc⟩⟩, Or.inl ?_⟩
        simp only [absOf]
        rw [map_set_stutter _ _ _ hlt _ (by simp [hth, pcOf])]
    | d2 a tk =>
      simp [hget, machine, step] at hp; subst hp
      refine ⟨⟨hs.tb, by simp [Obs.onOut, hs.errs], by simp [Obs.onOut, hs.panics],
        side_set hs t _ ⟨FrameOK.inData _ _, hsc⟩⟩, Or.inr ⟨hpc ▸ hlt, ?_⟩⟩
      simp [absOf, stepAt, stepPC, hth, pcOf, List.map_set, Obs.onOut]
    | inData a tk =>
      simp [hget] at hp; subst hp
      refine ⟨⟨hs.tb, by simp [Obs.onRet, hs.errs], by simp [Obs.onRet, hs.panics],
        side_set hs t _ ⟨FrameOK.d3 _, hsc⟩⟩, Or.inr ⟨hpc ▸ hlt, ?_⟩⟩
      simp [absOf, stepAt, stepPC, hth, pcOf, List.map_set, Obs.onRet]
    | d3 tk =>
      simp only [hget, machine, step] at hp
      by_cases hm : tk = max
      · simp [hm] at hp; subst hp
        refine ⟨⟨hs.tb, hs.errs, hs.panics, side_set hs t _ ⟨FrameOK.d3b, hsc⟩⟩, Or.inr ⟨hpc ▸ hlt, ?_⟩⟩
        simp [absOf, stepAt, stepPC, hth, pcOf, List.map_set, hm]
      · simp [hm] at hp; subst hp
        refine ⟨⟨hs.tb, hs.errs, hs.panics, side_set hs t _ ⟨FrameOK.none, hsc⟩⟩, Or.inr ⟨hpc ▸ hlt, ?_⟩⟩
        simp [absOf, stepAt, stepPC, hth, pcOf, List.map_set, hm]
    | d3b =>
      simp only [hget, machine, step] at hp
      by_cases hm : s.st.fin = true
      · simp [hm] at hp; subst hp
        refine ⟨⟨hs.tb, hs.errs, hs.panics, side_set hs t _ ⟨FrameOK.none, hsc⟩⟩, Or.inr ⟨hpc ▸ hlt, ?_⟩⟩
        simp [absOf, stepAt, stepPC, hth, pcOf, List.map_set, hm]
      · simp [hm] at hp; subst hp
        refine ⟨⟨hs.tb, hs.errs, hs.panics, side_set hs t _ ⟨FrameOK.d4, hsc⟩⟩, Or.inr ⟨hpc ▸ hlt, ?_⟩⟩
        simp [absOf, stepAt, stepPC, hth, pcOf, List.map_set, hm]
    | d4 =>
      simp [hget, machine, step] at hp; subst hp
      refine ⟨⟨hs.tb, hs.errs, hs.panics, side_set hs t _ ⟨FrameOK.d5, hsc⟩⟩, Or.inr ⟨hpc ▸ hlt, ?_⟩⟩
      simp [absOf, stepAt, stepPC, hth, pcOf, List.map_set]
    | d5 =>
      simp [hget, machine, step, hs.tb] at hp; subst hp
      refine ⟨⟨hs.tb, by simp [Obs.onOut, hs.errs], by simp [Obs.onOut, hs.panics],
        side_set hs t _ ⟨FrameOK.inUp, hsc⟩⟩, Or.inr ⟨hpc ▸ hlt, ?_⟩⟩
      simp [absOf, stepAt, stepPC, hth, pcOf, List.map_set, Obs.onOut]
    | inUp =>
      simp [hget] at hp; subst hp
      refine ⟨⟨hs.tb, by simp [Obs.onRet, hs.errs], by simp [Obs.onRet, hs.panics],
        side_set hs t _ ⟨FrameOK.d6, hsc⟩⟩, Or.inr ⟨hpc ▸ hlt, ?_⟩⟩
      simp [absOf, stepAt, stepPC, hth, pcOf, List.map_set, Obs.onRet]
    | d6 =>
      simp [hget, machine, step] at hp; subst hp
      refine ⟨⟨hs.tb, by simp [Obs.onOut, hs.errs], by simp [Obs.onOut, hs.panics],
        side_set hs t _ ⟨FrameOK.inDown, hsc⟩⟩, Or.inr ⟨hpc ▸ hlt, ?_⟩⟩
      simp [absOf, stepAt, stepPC, hth, pcOf, List.map_set, Obs.onOut]
    | inDown =>
      simp [hget] at hp; subst hp
      refine ⟨⟨hs.tb, by simp [Obs.onRet, hs.errs], by simp [Obs.onRet, hs.panics],
        side_set hs t _ ⟨FrameOK.done, hsc⟩⟩, Or.inr ⟨hpc ▸ hlt, ?_⟩⟩
      simp [absOf, stepAt, stepPC, hth, pcOf, List.map_set, Obs.onRet]
    | done =>
      simp [hget, machine, step] at hp; subst hp
      refine ⟨⟨hs.tb, hs.errs, hs.panics, side_set hs t _ ⟨FrameOK.none, hsc⟩⟩, Or.inl ?_⟩
      simp only [absOf]
      rw [map_set_stutter _ _ _ hlt _ (by simp [hth, pcOf])]

/-! ## A second abstract invariant: lower bounds (for "exactly once") -/

open Cb.TakeAbs (atD2 onMaxPath afterUp afterDown cnt_set)

/-- on the n-th-item path, before `end.store(true)` has been executed -/
def early (max : Nat) : PC → Bool
  | .d2 t => t == max | .inData t => t == max | .d3 t => t == max
  | .d3b | .d4 => true
  | _ => false
/-- on the n-th-item path, after `end.store(true)` -/
def late : PC → Bool | .d5 | .inUp | .d6 | .inDown => true | _ => false

theorem countP_onMax (max : Nat) (l : List PC) :
    l.countP (onMaxPath max) = l.countP (early max) + l.countP late := by
  induction l with
  | nil => simp
  | cons pc l ih =>
    simp only [List.countP_cons, ih]
    cases pc <;> simp [onMaxPath, early, late] <;> (try split) <;> omega

structure Inv2 (max : Nat) (c : Cfg) : Prop where
  fin : c.pcs.countP late + c.maxDone = if c.fin = true then 1 else 0
  upEq : c.upTerms = c.pcs.countP afterUp + c.maxDone
  downEq : c.downTerms = c.pcs.countP afterDown + c.maxDone

theorem onMax_le_one {max : Nat} {c : Cfg} (hi : TakeAbs.Inv max c) : c.pcs.countP (onMaxPath max) + c.maxDone ≤ 1 := by
  rcases Nat.lt_or_ge c.taken max with hlt | hge
  · have := hi.uniq0 (Or.inl hlt); omega
  · have hEq : c.taken = max := by have := hi.le; omega
    rcases Nat.eq_zero_or_pos max with hz | hp
    · have := hi.uniq0 (Or.inr hz); omega
    · have := hi.uniq1 hEq hp; omega

theorem inv2_stepAt (max : Nat) (c : Cfg) (i : Nat) (h : i < c.pcs.length) (hi : TakeAbs.Inv max c) (h2 : Inv2 max c) :
    Inv2 max (stepAt max c i h) := by
  have hle1 := onMax_le_one hi
  rw [countP_onMax] at hle1
  have hE : (if early max c.pcs[i] = true then 1 else 0) ≤ c.pcs.countP (early max) :=
    List.boole_getElem_le_countP (p := early max) h
  have e1 := fun x => cnt_set late c.pcs i h x
  have e3 := fun x => cnt_set afterUp c.pcs i h x
  have e4 := fun x => cnt_set afterDown c.pcs i h x
  obtain ⟨hfin, hup, hdown⟩ := h2
  unfold stepAt
  generalize c.pcs[i] = pc at *
  cases pc with
  | idle =>
    by_cases hlt : c.taken < max
    · have e1 := e1 (.d2 (c.taken + 1)); have e3 := e3 (.d2 (c.taken + 1)); have e4 := e4 (.d2 (c.taken + 1))
      simp only [stepPC, hlt, if_true]
      simp [late, afterUp, afterDown] at e1 e3 e4
      constructor <;> simp only [] <;> omega
    · have e1 := e1 .idle; have e3 := e3 .idle; have e4 := e4 .idle
      simp only [stepPC, hlt, if_false]
      simp [late, afterUp, afterDown] at e1 e3 e4
      constructor <;> simp only [] <;> omega
  | d2 t =>
    have e1 := e1 (.inData t); have e3 := e3 (.inData t); have e4 := e4 (.inData t)
    simp only [stepPC]
    simp [late, afterUp, afterDown] at e1 e3 e4
    constructor <;> simp only [] <;> omega
  | inData t =>
    have e1 := e1 (.d3 t); have e3 := e3 (.d3 t); have e4 := e4 (.d3 t)
    simp only [stepPC]
    simp [late, afterUp, afterDown] at e1 e3 e4
    constructor <;> simp only [] <;> omega
  | d3 t =>
    by_cases ht : t = max
    · have e1 := e1 .d3b; have e3 := e3 .d3b; have e4 := e4 .d3b
      simp only [stepPC, ht, if_true]
      simp [late, afterUp, afterDown] at e1 e3 e4
      constructor <;> simp only [] <;> omega
    · have e1 := e1 .idle; have e3 := e3 .idle; have e4 := e4 .idle
      simp only [stepPC, ht, if_false]
      simp [late, afterUp, afterDown] at e1 e3 e4
      constructor <;> simp only [] <;> omega
  | d3b =>
    simp only [early, ↓reduceIte] at hE
    by_cases hf : c.fin = true
    · simp [hf] at hfin; omega
    · have e1 := e1 .d4; have e3 := e3 .d4; have e4 := e4 .d4
      have hf' : c.fin = false := by simpa using hf
      simp only [stepPC, hf', Bool.false_eq_true, if_false]
      simp [late, afterUp, afterDown] at e1 e3 e4
      rw [hf'] at hfin; simp only [Bool.false_eq_true, ↓reduceIte] at hfin
      constructor <;> simp only [] <;> first | omega | (simp only [Bool.false_eq_true, ↓reduceIte]; omega)
  | d4 =>
    simp only [early, ↓reduceIte] at hE
    have e1 := e1 .d5; have e3 := e3 .d5; have e4 := e4 .d5
    simp only [stepPC]
    simp [late, afterUp, afterDown] at e1 e3 e4
    by_cases hf : c.fin = true
    · simp [hf] at hfin; omega
    · have hf' : c.fin = false := by simpa using hf
      rw [hf'] at hfin; simp only [Bool.false_eq_true, ↓reduceIte] at hfin
      constructor <;> simp only [] <;> first | omega | (simp only [↓reduceIte]; omega)
  | d5 =>
    have e1 := e1 .inUp; have e3 := e3 .inUp; have e4 := e4 .inUp
    simp only [stepPC]
    simp [late, afterUp, afterDown] at e1 e3 e4
    constructor <;> simp only [] <;> omega
  | inUp =>
    have e1 := e1 .d6; have e3 := e3 .d6; have e4 := e4 .d6
    simp only [stepPC]
    simp [late, afterUp, afterDown] at e1 e3 e4
    constructor <;> simp only [] <;> omega
  | d6 =>
    have e1 := e1 .inDown; have e3 := e3 .inDown; have e4 := e4 .inDown
    simp only [stepPC]
    simp [late, afterUp, afterDown] at e1 e3 e4
    constructor <;> simp only [] <;> omega
  | inDown =>
    have e1 := e1 .idle; have e3 := e3 .idle; have e4 := e4 .idle
    simp only [stepPC]
    simp [late, afterUp, afterDown] at e1 e3 e4
    constructor <;> simp only [] <;> omega

/-! ## The invariant on `PSys` and the theorems -/

/-- every thread only delivers data from upstream 0, and no delivery is in progress -/
def DataOnly {α : Type} (ths : List (Thread (Loc α) α α)) : Prop :=
  ∀ th ∈ ths, th.frame = none ∧ ∀ i ∈ th.script, ∃ a, i = In.srcDown 0 (Down.data a)

/-- the configuration in which the race starts: sink and source greeted, nothing taken, nothing observed -/
def start {α : Type} (ths : List (Thread (Loc α) α α)) : PSys St (Loc α) α α :=
  { st := { taken := 0, tb := true, fin := false }, threads := ths, obs := {} }

def PInv {α} (max : Nat) (s : PSys St (Loc α) α α) : Prop :=
  Side s ∧ ∃ md, TakeAbs.Inv max (absOf s md) ∧ Inv2 max (absOf s md)

theorem pinv_step {α} (max : Nat) (s s' : PSys St (Loc α) α α) (t : Nat) (hi : PInv max s)
    (hp : pstep (machine α max) s t = some s') : PInv max s' := by
  obtain ⟨hs, md, h1, h2⟩ := hi
  obtain ⟨hs', hst | ⟨h, hst⟩⟩ := pstep_refines max s s' t md hs hp
  · exact ⟨hs', md, hst ▸ h1, hst ▸ h2⟩
  · exact ⟨hs', _, hst ▸ TakeAbs.inv_stepAt max _ t h h1, hst ▸ inv2_stepAt max _ t h h1 h2⟩

theorem pinv_start {α} (max : Nat) (ths : List (Thread (Loc α) α α)) (h : DataOnly ths) : PInv max (start ths) := by
  have hpcs : ths.map (fun th => pcOf th.frame) = List.replicate ths.length PC.idle := by
    rw [List.eq_replicate_iff]
    refine ⟨by simp, ?_⟩
    intro b hb
    obtain ⟨th, hth, rfl⟩ := List.mem_map.mp hb
    rw [(h th hth).1]; rfl
  have habs : absOf (start ths) 0 = ⟨0, false, List.replicate ths.length .idle, 0, 0, 0, 0⟩ := by
    simp [absOf, start, hpcs]
  refine ⟨⟨rfl, rfl, rfl, fun th hth => ⟨?_, (h th hth).2⟩⟩, 0, habs ▸ TakeAbs.inv_init max ths.length, ?_⟩
  · rw [(h th hth).1]; exact FrameOK.none
  · rw [habs]
    constructor <;> simp [List.countP_replicate, late, afterUp, afterDown]

theorem pinv_reach {α} (max : Nat) (ths : List (Thread (Loc α) α α)) (h : DataOnly ths) :
    ∀ s, PReach (machine α max) (start ths) s → PInv max s := by
  intro s hr
  induction hr with
  | init => exact pinv_start max ths h
  | step t _ hp ih => exact pinv_step max _ _ t ih hp

theorem abs_bounds {max : Nat} {c : Cfg} (hi : TakeAbs.Inv max c) :
    c.dataOuts ≤ max ∧ c.upTerms ≤ 1 ∧ c.downTerms ≤ 1 ∧ (c.downTerms = 1 → c.taken = max) := by
  have h1 := onMax_le_one hi
  obtain ⟨hle, hdata, hu1, hu0, hup, hdown, haU, _⟩ := hi
  have hUM : c.pcs.countP afterUp ≤ c.pcs.countP (onMaxPath max) :=
    List.countP_mono_left (fun pc hp hq => haU pc hp hq)
  have hDU : c.pcs.countP afterDown ≤ c.pcs.countP afterUp :=
    List.countP_mono_left (fun pc _ hq => by cases pc <;> simp_all [afterDown, afterUp])
  refine ⟨by omega, by omega, by omega, fun hd => ?_⟩
  rcases Nat.lt_or_ge c.taken max with hlt | hge
  · have := hu0 (Or.inl hlt); omega
  · omega

/-- C19: whatever the number of threads, their scripts and the schedule, `take(max)` delivers at most `max` data, terminates
its upstream at most once and its sink at most once, never panics, and completes the sink only after all `max` slots have been
claimed. (NOT: "only after `max` items have been delivered" — see `take_par_term_before_max` below.) -/
theorem take_par_safe {α : Type} (max : Nat) (ths : List (Thread (Loc α) α α)) (h : DataOnly ths) :
    ∀ s, PReach (machine α max) (start ths) s →
      s.obs.datas.length ≤ max ∧ s.obs.upTerms ≤ 1 ∧ s.obs.terms ≤ 1 ∧ s.obs.errs = 0 ∧ s.obs.panics = 0 ∧
      (s.obs.terms = 1 → s.st.taken = max) := by
  intro s hr
  obtain ⟨hs, md, h1, _⟩ := pinv_reach max ths h s hr
  obtain ⟨a, b, c, d⟩ := abs_bounds h1
  exact ⟨a, b, c, hs.errs, hs.panics, d⟩

/-- a configuration in which no thread can move: every thread is idle with an empty script -/
theorem quiescent {St Loc α β} (M : Machine St Loc α β) (s : PSys St Loc α β) (hq : ∀ t, pstep M s t = none) :
    ∀ th ∈ s.threads, th.frame = none ∧ th.script = [] := by
  intro th hth
  obtain ⟨t, ht⟩ := List.mem_iff_getElem?.mp hth
  have hp := hq t
  unfold pstep at hp
  obtain ⟨script, frame⟩ := th
  simp only [ht] at hp
  cases frame with
  | none =>
    cases script with
    | nil => exact ⟨rfl, rfl⟩
    | cons i rest => simp only at hp; split at hp <;> simp at hp
  | some f =>
    cases f with
    | wait o l => simp at hp
    | run l => simp only at hp; split at hp <;> simp at hp

theorem countP_idle {α} (s : PSys St (Loc α) α α) (hq : ∀ th ∈ s.threads, th.frame = none ∧ th.script = [])
    (p : PC → Bool) (hp : p .idle = false) : (s.threads.map (fun th => pcOf th.frame)).countP p = 0 := by
  rw [List.countP_eq_zero]
  intro pc hpc
  obtain ⟨th, hth, rfl⟩ := List.mem_map.mp hpc
  rw [(hq th hth).1]; simp [pcOf, hp]

/-- When no thread can move any more, everything claimed has been delivered; if the sink was completed, it got `max` items. -/
theorem take_par_quiescent {α : Type} (max : Nat) (ths : List (Thread (Loc α) α α)) (h : DataOnly ths) :
    ∀ s, PReach (machine α max) (start ths) s → (∀ t, pstep (machine α max) s t = none) →
      s.obs.datas.length = s.st.taken ∧ (s.obs.terms = 1 → s.obs.datas.length = max) := by
  intro s hr hq
  obtain ⟨hs, md, h1, _⟩ := pinv_reach max ths h s hr
  have hidle := quiescent _ s hq
  have hd := h1.data
  have h0 := countP_idle s hidle atD2 rfl
  have hb := (abs_bounds h1).2.2.2
  simp only [absOf] at hd hb
  exact ⟨by omega, fun ht => by have := hb ht; omega⟩

/-- … and exactly once each: when no thread can move any more and `max ≥ 1` items were delivered, upstream and sink have been
terminated exactly once. -/
theorem take_par_complete {α : Type} (max : Nat) (hmax : 0 < max) (ths : List (Thread (Loc α) α α)) (h : DataOnly ths) :
    ∀ s, PReach (machine α max) (start ths) s → (∀ t, pstep (machine α max) s t = none) →
      s.obs.datas.length = max → s.obs.upTerms = 1 ∧ s.obs.terms = 1 := by
  intro s hr hq hlen
  obtain ⟨hs, md, h1, h2⟩ := pinv_reach max ths h s hr
  have hidle := quiescent _ s hq
  have hd := h1.data
  have hu := h1.uniq1
  have hup := h2.upEq
  have hdown := h2.downEq
  have c1 := countP_idle s hidle atD2 rfl
  have c2 := countP_idle s hidle (onMaxPath max) rfl
  have c3 := countP_idle s hidle afterUp rfl
  have c4 := countP_idle s hidle afterDown rfl
  simp only [absOf] at hd hu hup hdown
  have := hu (by omega) hmax
  omega

/-- The code BEFORE the fix (`load` then `fetch_add`) over-delivers: `take(1)` fed by two threads delivers 2 items
(both threads pass the test `taken < max` before either increments). -/
theorem take_par_legacy_overdelivers :
    ∃ s, PReach (machine Nat 1 false) (start [⟨[.srcDown 0 (.data 1)], none⟩, ⟨[.srcDown 0 (.data 2)], none⟩]) s ∧
      s.obs.datas.length = 2 := by
  obtain ⟨s, hr, hp⟩ := witness_of_sched (machine Nat 1 false)
    (start [⟨[.srcDown 0 (.data 1)], none⟩, ⟨[.srcDown 0 (.data 2)], none⟩])
    [0, 0, 1, 1, 0, 0, 0, 0, 1, 1, 1, 1] (fun s => decide (s.obs.datas.length = 2)) (by decide)
  exact ⟨s, hr, by simpa using hp⟩

/-- FINDING (also with the fix): the sink can be completed BEFORE `max` items were delivered, and receives the missing
item after its `Terminate`. `take(2)`, two threads: thread 0 claims slot 1 and is preempted before `sink(Data)`;
thread 1 claims slot 2 = max, delivers, terminates upstream and sink; then thread 0 delivers. -/
theorem take_par_term_before_max :
    ∃ s, PReach (machine Nat 2) (start [⟨[.srcDown 0 (.data 1)], none⟩, ⟨[.srcDown 0 (.data 2)], none⟩]) s ∧
      s.obs.terms = 1 ∧ s.obs.datas.length = 1 := by
  obtain ⟨s, hr, hp⟩ := witness_of_sched (machine Nat 2)
    (start [⟨[.srcDown 0 (.data 1)], none⟩, ⟨[.srcDown 0 (.data 2)], none⟩])
    [0, 0, 1, 1, 1, 1, 1, 1, 1, 1, 1, 1, 1] (fun s => decide (s.obs.terms = 1 ∧ s.obs.datas.length = 1)) (by decide)
  exact ⟨s, hr, by simpa using hp⟩

theorem take_par_data_after_term :
    ∃ s, PReach (machine Nat 2) (start [⟨[.srcDown 0 (.data 1)], none⟩, ⟨[.srcDown 0 (.data 2)], none⟩]) s ∧
      s.obs.afterTerm = 1 ∧ s.obs.datas = [2, 1] := by
  obtain ⟨s, hr, hp⟩ := witness_of_sched (machine Nat 2)
    (start [⟨[.srcDown 0 (.data 1)], none⟩, ⟨[.srcDown 0 (.data 2)], none⟩])
    [0, 0, 1, 1, 1, 1, 1, 1, 1, 1, 1, 1, 1, 0] (fun s => decide (s.obs.afterTerm = 1 ∧ s.obs.datas = [2, 1])) (by decide)
  exact ⟨s, hr, by simpa using hp⟩

end Cb.Take
#print axioms Cb.Take.take_par_safe
#print axioms Cb.Take.take_par_quiescent
#print axioms Cb.Take.take_par_complete
#print axioms Cb.Take.take_par_legacy_overdelivers
#print axioms Cb.Take.take_par_term_before_max
#print axioms Cb.Take.take_par_data_after_term
