import CallbagModel.Par
import CallbagModel.Ops.Merge
/-!
# merge! under racing member threads (C18, merge part)

Thread `i` plays member `i` of `merge!`: greeting, data, at most one terminal; every interleaving of the micro-steps of
`Merge.step` (`pstep`).  Proof: one global invariant (`Inv`) relating the shared counters `startCount` / `endCount` and the
observation counters to the NUMBER of threads at certain program points (Owicki–Gries with counting, as in `Par/TakeAbs.lean`),
proved directly on `PSys` (program counter of a thread = its `frame`).
-/
namespace Cb.Merge
open List

/-- script of member `i`: greet, then data, then at most one terminal (`fails = false`: only `Terminate` allowed) -/
def MemberScript {α : Type} (i : Nat) (fails : Bool) : List (In α) → Prop
  | [] => False
  | g :: rest => g = In.srcGreet i ∧ ∃ (ds : List α) (fin : List (In α)),
      rest = ds.map (fun a => In.srcDown i (Down.data a)) ++ fin ∧
      (fin = [] ∨ fin = [In.srcDown i Down.term] ∨ (fails = true ∧ ∃ e, fin = [In.srcDown i (Down.err e)]))

/-- one thread per member, thread `i` plays member `i`; nobody fails unless `fails` -/
def Members {α : Type} (n : Nat) (fails : Bool) (ths : List (Thread (Loc α) α α)) : Prop :=
  ths.length = n ∧ ∀ i (h : i < ths.length), ths[i].frame = none ∧ MemberScript i fails ths[i].script

def start {α : Type} (n : Nat) (ths : List (Thread (Loc α) α α)) : PSys St (Loc α) α α :=
  { st := { slots := List.replicate n false, startCount := 0, endCount := 0, ended := false }, threads := ths, obs := {} }

/-! ## Concrete schedules (for counterexamples) -/

def runSched {St Loc α β} (M : Machine St Loc α β) (s : PSys St Loc α β) : List Nat → Option (PSys St Loc α β)
  | [] => some s
  | t :: ts => match pstep M s t with
    | none => none
    | some s' => runSched M s' ts

theorem preach_trans_step {St Loc α β} {M : Machine St Loc α β} {s0 a : PSys St Loc α β}
    (h : PReach M s0 a) : ∀ (sched : List Nat) (s : PSys St Loc α β), runSched M a sched = some s → PReach M s0 s := by
  intro sched
  induction sched generalizing a with
  | nil => intro s hs; simp [runSched] at hs; exact hs ▸ h
  | cons t ts ih =>
    intro s hs
    simp only [runSched] at hs
    cases hp : pstep M a t with
    | none => simp [hp] at hs
    | some b =>
      simp only [hp] at hs
      exact ih (PReach.step t h hp) s hs

theorem runSched_reach {St Loc α β} (M : Machine St Loc α β) (s0 s : PSys St Loc α β) (sched : List Nat)
    (h : runSched M s0 sched = some s) : PReach M s0 s :=
  preach_trans_step PReach.init sched s h

/-- two members, each greets and then fails -/
def twoFail : List (Thread (Loc Nat) Nat Nat) :=
  [ { script := [.srcGreet 0, .srcDown 0 (.err 7)] }, { script := [.srcGreet 1, .srcDown 1 (.err 8)] } ]

/-- both greetings run to completion, then both `Error` handlers are entered before either has set `ended`; both run through -/
def twoFailSched : List Nat :=
  [0,0,0,0,0,0, 1,1,1,1, 0,1, 0,0,0,0,0,0,0,0, 1,1,1,1,1,1,1,1]

def obsOf {St Loc α β} (o : Option (PSys St Loc α β)) : Option (Nat × Nat × Nat × Nat × Nat) :=
  o.map fun s => (s.obs.greets, s.obs.terms, s.obs.errs, s.obs.afterTerm, s.obs.upTerms)

-- #eval obsOf (runSched (machine Nat 2) (start 2 twoFail) twoFailSched)   -- some (1, 0, 2, 1, 2)

/-! ## Per-thread predicates -/

abbrev Th (α : Type) := Thread (Loc α) α α
abbrev Fr (α : Type) := Option (Frame (Loc α) α)

def isTermIn {α} : In α → Bool | .srcDown _ .term => true | _ => false
def isErrIn {α} : In α → Bool | .srcDown _ (.err _) => true | _ => false
def hasTerm {α} : List (In α) → Bool
  | [] => false
  | x :: r => isTermIn x || hasTerm r
def hasErr {α} : List (In α) → Bool
  | [] => false
  | x :: r => isErrIn x || hasErr r
@[simp] theorem isTermIn_greet {α} (i : Nat) : isTermIn (α := α) (.srcGreet i) = false := rfl
@[simp] theorem isTermIn_data {α} (i : Nat) (a : α) : isTermIn (.srcDown i (.data a)) = false := rfl
@[simp] theorem isTermIn_term {α} (i : Nat) : isTermIn (α := α) (.srcDown i .term) = true := rfl
@[simp] theorem isTermIn_err {α} (i e : Nat) : isTermIn (α := α) (.srcDown i (.err e)) = false := rfl
@[simp] theorem isErrIn_greet {α} (i : Nat) : isErrIn (α := α) (.srcGreet i) = false := rfl
@[simp] theorem isErrIn_data {α} (i : Nat) (a : α) : isErrIn (.srcDown i (.data a)) = false := rfl
@[simp] theorem isErrIn_term {α} (i : Nat) : isErrIn (α := α) (.srcDown i .term) = false := rfl
@[simp] theorem isErrIn_err {α} (i e : Nat) : isErrIn (α := α) (.srcDown i (.err e)) = true := rfl

/-- only member deliveries, a terminal only as the last item -/
def okScript {α} : List (In α) → Prop
  | [] => True
  | .srcGreet _ :: r => okScript r
  | .srcDown _ (.data _) :: r => okScript r
  | .srcDown _ .term :: r => r = []
  | .srcDown _ (.err _) :: r => r = []
  | _ :: _ => False

/-- program points a member thread can be at; inside the `Terminate` / `Error` handlers the script is exhausted -/
def okLoc {α} : Loc α → List (In α) → Prop
  | .done, _ | .g0 _, _ | .g1 _, _ | .g2, _ | .data _, _ => True
  | .e0 .., sc | .eLoop .., sc | .eOut _, sc | .t0 _, sc | .t1, sc | .t2, sc => sc = []
  | _, _ => False

def okWait {α} : Loc α → List (In α) → Prop
  | .done, _ => True
  | .eLoop .., sc => sc = []
  | _, _ => False

def okFrame {α} : Fr α → List (In α) → Prop
  | none, _ => True
  | some (.run l), sc => okLoc l sc
  | some (.wait _ l), sc => okWait l sc

def okThread {α} (th : Th α) : Prop := okScript th.script ∧ okFrame th.frame th.script

def fG2 {α} : Fr α → Bool | some (.run .g2) => true | _ => false
def fT2 {α} : Fr α → Bool | some (.run .t2) => true | _ => false
def fPreT1 {α} : Fr α → Bool | some (.run (.t0 _)) | some (.run .t1) => true | _ => false
def fErr {α} : Fr α → Bool
  | some (.run (.e0 ..)) | some (.run (.eLoop ..)) | some (.run (.eOut _)) | some (.wait _ (.eLoop ..)) => true
  | _ => false
def isDataOut {α} : Out α → Bool | .down _ (.data _) => true | _ => false
@[simp] theorem isDataOut_greet {α} (k : Nat) : isDataOut (α := α) (.greet k) = false := rfl
@[simp] theorem isDataOut_data {α} (k : Nat) (a : α) : isDataOut (.down k (.data a)) = true := rfl
@[simp] theorem isDataOut_term {α} (k : Nat) : isDataOut (α := α) (.down k .term) = false := rfl
@[simp] theorem isDataOut_err {α} (k e : Nat) : isDataOut (α := α) (.down k (.err e)) = false := rfl
@[simp] theorem isDataOut_srcUp {α} (k : Nat) (u : Up) : isDataOut (α := α) (.srcUp k u) = false := rfl
def fLive {α} : Fr α → Bool
  | some (.run (.g0 _)) | some (.run (.g1 _)) | some (.run .g2) | some (.run (.data _))
  | some (.run (.t0 _)) | some (.run .t1) => true
  | some (.wait o _) => isDataOut o
  | _ => false
def fData {α} : Fr α → Bool | some (.wait o _) => isDataOut o | _ => false

/-- about to greet the sink (holds the ticket `startCount = 1`) -/
def atG2 {α} (th : Th α) : Bool := fG2 th.frame
/-- about to complete the sink (holds the ticket `endCount = n`) -/
def atT2 {α} (th : Th α) : Bool := fT2 th.frame
/-- will still increment `endCount` -/
def preT1 {α} (th : Th α) : Bool := hasTerm th.script || fPreT1 th.frame
/-- will still deliver `Error` to the sink -/
def mayErr {α} (th : Th α) : Bool := hasErr th.script || fErr th.frame
/-- has not incremented `endCount` and has something left to do before (a delivery to start, a call to make or to return from) -/
def liveR {α} (th : Th α) : Bool := !th.script.isEmpty || fLive th.frame
/-- inside a data delivery to the sink -/
def inData {α} (th : Th α) : Bool := fData th.frame

/-- number of threads satisfying `p` (a wrapper that `simp` does not look into) -/
def cnt {α} (p : α → Bool) (l : List α) : Nat := l.countP p

structure Inv {α} (n E0 : Nat) (s : PSys St (Loc α) α α) : Prop where
  wf : ∀ th ∈ s.threads, okThread th
  pan : s.obs.panics = 0
  g1 : s.obs.greets + cnt atG2 s.threads ≤ 1
  g0 : s.st.startCount = 0 → s.obs.greets + cnt atG2 s.threads = 0
  t1 : s.obs.terms + cnt atT2 s.threads ≤ 1
  t0 : s.st.endCount < n → s.obs.terms + cnt atT2 s.threads = 0
  x : s.st.endCount + cnt preT1 s.threads + s.obs.errs + cnt mayErr s.threads ≤ n
  e : s.obs.errs + cnt mayErr s.threads ≤ E0
  r : s.st.endCount + cnt liveR s.threads ≤ n
  f : s.obs.inFlight = cnt inData s.threads
  o : E0 = 0 → s.st.ended = false ∧ s.obs.upTerms = 0 ∧ s.obs.afterTerm = 0 ∧ s.obs.termWhileData = false

theorem cnt_set {α} (p : α → Bool) (l : List α) (i : Nat) (h : i < l.length) (x : α) :
    cnt p (l.set i x) + (if p l[i] then 1 else 0) = cnt p l + (if p x then 1 else 0) ∧
    (if p l[i] then 1 else 0) ≤ cnt p l ∧ (if p l[i] then 1 else 0) ≤ 1 ∧ (if p x then 1 else 0) ≤ 1 := by
  unfold cnt
  have h1 := List.countP_set (p := p) (l := l) (i := i) (a := x) h
  have h2 : (if p l[i] = true then 1 else 0) ≤ l.countP p := List.boole_getElem_le_countP (p := p) h
  refine ⟨by omega, h2, ?_, ?_⟩ <;> split <;> omega

theorem forall_set {α} {P : α → Prop} {l : List α} {i : Nat} {x : α}
    (hl : ∀ a ∈ l, P a) (hx : P x) : ∀ a ∈ l.set i x, P a := by
  intro a ha
  rcases List.mem_or_eq_of_mem_set ha with h | h
  · exact hl a h
  · exact h ▸ hx

section obs
variable {β : Type} (o : Obs β)
@[simp] theorem sinkMsg_greets : o.sinkMsg.greets = o.greets := by unfold Obs.sinkMsg; split <;> rfl
@[simp] theorem sinkMsg_datas : o.sinkMsg.datas = o.datas := by unfold Obs.sinkMsg; split <;> rfl
@[simp] theorem sinkMsg_terms : o.sinkMsg.terms = o.terms := by unfold Obs.sinkMsg; split <;> rfl
@[simp] theorem sinkMsg_errs : o.sinkMsg.errs = o.errs := by unfold Obs.sinkMsg; split <;> rfl
@[simp] theorem sinkMsg_upTerms : o.sinkMsg.upTerms = o.upTerms := by unfold Obs.sinkMsg; split <;> rfl
@[simp] theorem sinkMsg_inFlight : o.sinkMsg.inFlight = o.inFlight := by unfold Obs.sinkMsg; split <;> rfl
@[simp] theorem sinkMsg_twd : o.sinkMsg.termWhileData = o.termWhileData := by unfold Obs.sinkMsg; split <;> rfl
@[simp] theorem sinkMsg_panics : o.sinkMsg.panics = o.panics := by unfold Obs.sinkMsg; split <;> rfl
@[simp] theorem sinkMsg_disposed : o.sinkMsg.disposed = o.disposed := by unfold Obs.sinkMsg; split <;> rfl
theorem sinkMsg_afterTerm (h1 : o.terms = 0) (h2 : o.errs = 0) : o.sinkMsg.afterTerm = o.afterTerm := by
  unfold Obs.sinkMsg; simp [h1, h2]
theorem onRet_eq (x : Out β) :
    o.onRet x = { o with inFlight := if isDataOut x then o.inFlight - 1 else o.inFlight } := by
  cases x with
  | down k d => cases d <;> simp [Obs.onRet, isDataOut]
  | _ => simp [Obs.onRet, isDataOut]
end obs

theorem inData_le_liveR {α} (l : List (Th α)) : cnt inData l ≤ cnt liveR l := by
  unfold cnt
  apply List.countP_mono_left
  intro th _ h
  obtain ⟨sc, fr⟩ := th
  simp only [inData, liveR] at *
  cases fr with
  | none => simp [fData] at h
  | some f => cases f with
    | run l => simp [fData] at h
    | wait o l => simp_all [fData, fLive]

--STEP--
end Cb.Merge
