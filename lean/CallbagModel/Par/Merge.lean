import CallbagModel.Par
import CallbagModel.Ops.Merge
/-!
# merge! under racing member threads (C18, merge part)

Thread `i` plays member `i` of `merge!`: greeting, data, at most one terminal; every interleaving of the micro-steps of
`Merge.step` (`pstep`).  Proof: one global invariant (`Inv`) relating the shared counters `startCount` / `endCount` and the
observation counters to the NUMBER of threads at certain program points (Owicki–Gries with counting, as in `Par/TakeAbs.lean`),
proved directly on `PSys` (program counter of a thread = its `frame`).
-/
namespace Cb.Merge
open List

/-- script of member `i`: greet, then data, then at most one terminal (`fails = false`: only `Terminate` allowed) -/
def MemberScript {α : Type} (i : Nat) (fails : Bool) : List (In α) → Prop
  | [] => False
  | g :: rest => g = In.srcGreet i ∧ ∃ (ds : List α) (fin : List (In α)),
      rest = ds.map (fun a => In.srcDown i (Down.data a)) ++ fin ∧
      (fin = [] ∨ fin = [In.srcDown i Down.term] ∨ (fails = true ∧ ∃ e, fin = [In.srcDown i (Down.err e)]))

/-- one thread per member, thread `i` plays member `i`; nobody fails unless `fails` -/
def Members {α : Type} (n : Nat) (fails : Bool) (ths : List (Thread (Loc α) α α)) : Prop :=
  ths.length = n ∧ ∀ i (h : i < ths.length), ths[i].frame = none ∧ MemberScript i fails ths[i].script

def start {α : Type} (n : Nat) (ths : List (Thread (Loc α) α α)) : PSys St (Loc α) α α :=
  { st := { slots := List.replicate n false, startCount := 0, endCount := 0, ended := false }, threads := ths, obs := {} }

/-! ## Concrete schedules (for counterexamples) -/

def runSched {St Loc α β} (M : Machine St Loc α β) (s : PSys St Loc α β) : List Nat → Option (PSys St Loc α β)
  | [] => some s
  | t :: ts => match pstep M s t with
    | none => none
    | some s' => runSched M s' ts

theorem preach_trans_step {St Loc α β} {M : Machine St Loc α β} {s0 a : PSys St Loc α β}
    (h : PReach M s0 a) : ∀ (sched : List Nat) (s : PSys St Loc α β), runSched M a sched = some s → PReach M s0 s := by
  intro sched
  induction sched generalizing a with
  | nil => intro s hs; simp [runSched] at hs; exact hs ▸ h
  | cons t ts ih =>
    intro s hs
    simp only [runSched] at hs
    cases hp : pstep M a t with
    | none => simp [hp] at hs
    | some b =>
      simp only [hp] at hs
      exact ih (PReach.step t h hp) s hs

theorem runSched_reach {St Loc α β} (M : Machine St Loc α β) (s0 s : PSys St Loc α β) (sched : List Nat)
    (h : runSched M s0 sched = some s) : PReach M s0 s :=
  preach_trans_step PReach.init sched s h

/-- two members, each greets and then fails -/
def twoFail : List (Thread (Loc Nat) Nat Nat) :=
  [ { script := [.srcGreet 0, .srcDown 0 (.err 7)] }, { script := [.srcGreet 1, .srcDown 1 (.err 8)] } ]

/-- both greetings run to completion, then both `Error` handlers are entered before either has set `ended`; both run through -/
def twoFailSched : List Nat :=
  [0,0,0,0,0,0, 1,1,1,1, 0,1, 0,0,0,0,0,0,0,0, 1,1,1,1,1,1,1,1]

def obsOf {St Loc α β} (o : Option (PSys St Loc α β)) : Option (Nat × Nat × Nat × Nat × Nat) :=
  o.map fun s => (s.obs.greets, s.obs.terms, s.obs.errs, s.obs.afterTerm, s.obs.upTerms)

-- #eval obsOf (runSched (machine Nat 2) (start 2 twoFail) twoFailSched)   -- some (1, 0, 2, 1, 2)

/-! ## Per-thread predicates -/

abbrev Th (α : Type) := Thread (Loc α) α α
abbrev Fr (α : Type) := Option (Frame (Loc α) α)

def isTermIn {α} : In α → Bool | .srcDown _ .term => true | _ => false
def isErrIn {α} : In α → Bool | .srcDown _ (.err _) => true | _ => false
def hasTerm {α} : List (In α) → Bool
  | [] => false
  | x :: r => isTermIn x || hasTerm r
def hasErr {α} : List (In α) → Bool
  | [] => false
  | x :: r => isErrIn x || hasErr r
@[simp] theorem isTermIn_greet {α} (i : Nat) : isTermIn (α := α) (.srcGreet i) = false := rfl
@[simp] theorem isTermIn_data {α} (i : Nat) (a : α) : isTermIn (.srcDown i (.data a)) = false := rfl
@[simp] theorem isTermIn_term {α} (i : Nat) : isTermIn (α := α) (.srcDown i .term) = true := rfl
@[simp] theorem isTermIn_err {α} (i e : Nat) : isTermIn (α := α) (.srcDown i (.err e)) = false := rfl
@[simp] theorem isErrIn_greet {α} (i : Nat) : isErrIn (α := α) (.srcGreet i) = false := rfl
@[simp] theorem isErrIn_data {α} (i : Nat) (a : α) : isErrIn (.srcDown i (.data a)) = false := rfl
@[simp] theorem isErrIn_term {α} (i : Nat) : isErrIn (α := α) (.srcDown i .term) = false := rfl
@[simp] theorem isErrIn_err {α} (i e : Nat) : isErrIn (α := α) (.srcDown i (.err e)) = true := rfl

/-- only member deliveries, a terminal only as the last item -/
def okScript {α} : List (In α) → Prop
  | [] => True
  | .srcGreet _ :: r => okScript r
  | .srcDown _ (.data _) :: r => okScript r
  | .srcDown _ .term :: r => r = []
  | .srcDown _ (.err _) :: r => r = []
  | _ :: _ => False

/-- program points a member thread can be at; inside the `Terminate` / `Error` handlers the script is exhausted -/
def okLoc {α} : Loc α → List (In α) → Prop
  | .done, _ | .g0 _, _ | .g1 _, _ | .g2, _ | .data _, _ => True
  | .e0 .., sc | .eLoop .., sc | .eOut _, sc | .t0 _, sc | .t1, sc | .t2, sc => sc = []
  | _, _ => False

def okWait {α} : Loc α → List (In α) → Prop
  | .done, _ => True
  | .eLoop .., sc => sc = []
  | _, _ => False

def okFrame {α} : Fr α → List (In α) → Prop
  | none, _ => True
  | some (.run l), sc => okLoc l sc
  | some (.wait _ l), sc => okWait l sc

def okThread {α} (th : Th α) : Prop := okScript th.script ∧ okFrame th.frame th.script

def fG2 {α} : Fr α → Bool | some (.run .g2) => true | _ => false
def fT2 {α} : Fr α → Bool | some (.run .t2) => true | _ => false
def fPreT1 {α} : Fr α → Bool | some (.run (.t0 _)) | some (.run .t1) => true | _ => false
def fErr {α} : Fr α → Bool
  | some (.run (.e0 ..)) | some (.run (.eLoop ..)) | some (.run (.eOut _)) | some (.wait _ (.eLoop ..)) => true
  | _ => false
def isDataOut {α} : Out α → Bool | .down _ (.data _) => true | _ => false
@[simp] theorem isDataOut_greet {α} (k : Nat) : isDataOut (α := α) (.greet k) = false := rfl
@[simp] theorem isDataOut_data {α} (k : Nat) (a : α) : isDataOut (.down k (.data a)) = true := rfl
@[simp] theorem isDataOut_term {α} (k : Nat) : isDataOut (α := α) (.down k .term) = false := rfl
@[simp] theorem isDataOut_err {α} (k e : Nat) : isDataOut (α := α) (.down k (.err e)) = false := rfl
@[simp] theorem isDataOut_srcUp {α} (k : Nat) (u : Up) : isDataOut (α := α) (.srcUp k u) = false := rfl
def fLive {α} : Fr α → Bool
  | some (.run (.g0 _)) | some (.run (.g1 _)) | some (.run .g2) | some (.run (.data _))
  | some (.run (.t0 _)) | some (.run .t1) => true
  | some (.wait o _) => isDataOut o
  | _ => false
def fData {α} : Fr α → Bool | some (.wait o _) => isDataOut o | _ => false

/-- about to greet the sink (holds the ticket `startCount = 1`) -/
def atG2 {α} (th : Th α) : Bool := fG2 th.frame
/-- about to complete the sink (holds the ticket `endCount = n`) -/
def atT2 {α} (th : Th α) : Bool := fT2 th.frame
/-- will still increment `endCount` -/
def preT1 {α} (th : Th α) : Bool := hasTerm th.script || fPreT1 th.frame
/-- will still deliver `Error` to the sink -/
def mayErr {α} (th : Th α) : Bool := hasErr th.script || fErr th.frame
/-- has not incremented `endCount` and has something left to do before (a delivery to start, a call to make or to return from) -/
def liveR {α} (th : Th α) : Bool := !th.script.isEmpty || fLive th.frame
/-- inside a data delivery to the sink -/
def inData {α} (th : Th α) : Bool := fData th.frame

/-- number of threads satisfying `p` (a wrapper that `simp` does not look into) -/
def cnt {α} (p : α → Bool) (l : List α) : Nat := l.countP p

structure Inv {α} (n E0 : Nat) (s : PSys St (Loc α) α α) : Prop where
  wf : ∀ th ∈ s.threads, okThread th
  pan : s.obs.panics = 0
  g1 : s.obs.greets + cnt atG2 s.threads ≤ 1
  g0 : s.st.startCount = 0 → s.obs.greets + cnt atG2 s.threads = 0
  t1 : s.obs.terms + cnt atT2 s.threads ≤ 1
  t0 : s.st.endCount < n → s.obs.terms + cnt atT2 s.threads = 0
  x : s.st.endCount + cnt preT1 s.threads + s.obs.errs + cnt mayErr s.threads ≤ n
  e : s.obs.errs + cnt mayErr s.threads ≤ E0
  r : s.st.endCount + cnt liveR s.threads ≤ n
  f : s.obs.inFlight = cnt inData s.threads
  o : E0 = 0 → s.st.ended = false ∧ s.obs.upTerms = 0 ∧ s.obs.afterTerm = 0 ∧ s.obs.termWhileData = false

theorem cnt_set {α} (p : α → Bool) (l : List α) (i : Nat) (h : i < l.length) (x : α) :
    cnt p (l.set i x) + (if p l[i] then 1 else 0) = cnt p l + (if p x then 1 else 0) ∧
    (if p l[i] then 1 else 0) ≤ cnt p l ∧ (if p l[i] then 1 else 0) ≤ 1 ∧ (if p x then 1 else 0) ≤ 1 := by
  unfold cnt
  have h1 := List.countP_set (p := p) (l := l) (i := i) (a := x) h
  have h2 : (if p l[i] = true then 1 else 0) ≤ l.countP p := List.boole_getElem_le_countP (p := p) h
  refine ⟨by omega, h2, ?_, ?_⟩ <;> split <;> omega

theorem forall_set {α} {P : α → Prop} {l : List α} {i : Nat} {x : α}
    (hl : ∀ a ∈ l, P a) (hx : P x) : ∀ a ∈ l.set i x, P a := by
  intro a ha
  rcases List.mem_or_eq_of_mem_set ha with h | h
  · exact hl a h
  · exact h ▸ hx

section obs
variable {β : Type} (o : Obs β)
@[simp] theorem sinkMsg_greets : o.sinkMsg.greets = o.greets := by unfold Obs.sinkMsg; split <;> rfl
@[simp] theorem sinkMsg_datas : o.sinkMsg.datas = o.datas := by unfold Obs.sinkMsg; split <;> rfl
@[simp] theorem sinkMsg_terms : o.sinkMsg.terms = o.terms := by unfold Obs.sinkMsg; split <;> rfl
@[simp] theorem sinkMsg_errs : o.sinkMsg.errs = o.errs := by unfold Obs.sinkMsg; split <;> rfl
@[simp] theorem sinkMsg_upTerms : o.sinkMsg.upTerms = o.upTerms := by unfold Obs.sinkMsg; split <;> rfl
@[simp] theorem sinkMsg_inFlight : o.sinkMsg.inFlight = o.inFlight := by unfold Obs.sinkMsg; split <;> rfl
@[simp] theorem sinkMsg_twd : o.sinkMsg.termWhileData = o.termWhileData := by unfold Obs.sinkMsg; split <;> rfl
@[simp] theorem sinkMsg_panics : o.sinkMsg.panics = o.panics := by unfold Obs.sinkMsg; split <;> rfl
@[simp] theorem sinkMsg_disposed : o.sinkMsg.disposed = o.disposed := by unfold Obs.sinkMsg; split <;> rfl
theorem sinkMsg_afterTerm (h1 : o.terms = 0) (h2 : o.errs = 0) : o.sinkMsg.afterTerm = o.afterTerm := by
  unfold Obs.sinkMsg; simp [h1, h2]
theorem onRet_eq (x : Out β) :
    o.onRet x = { o with inFlight := if isDataOut x then o.inFlight - 1 else o.inFlight } := by
  cases x with
  | down k d => cases d <;> simp [Obs.onRet, isDataOut]
  | _ => simp [Obs.onRet, isDataOut]
end obs

theorem inData_le_liveR {α} (l : List (Th α)) : cnt inData l ≤ cnt liveR l := by
  unfold cnt
  apply List.countP_mono_left
  intro th _ h
  obtain ⟨sc, fr⟩ := th
  simp only [inData, liveR] at *
  cases fr with
  | none => simp [fData] at h
  | some f => cases f with
    | run l => simp [fData] at h
    | wait o l => simp_all [fData, fLive]

set_option hygiene false in
macro "leaf " x:term : tactic => `(tactic| (
  have e1 := e1 $x; have e2 := e2 $x; have e3 := e3 $x; have e4 := e4 $x; have e5 := e5 $x; have e6 := e6 $x
  simp [atG2, atT2, preT1, mayErr, liveR, inData, fG2, fT2, fPreT1, fErr, fLive, fData, hasTerm, hasErr]
    at e1 e2 e3 e4 e5 e6))

set_option hygiene false in
macro "wfset" : tactic => `(tactic| (
  apply forall_set hwf
  simp_all [okThread, okScript, okFrame, okLoc, okWait]))

set_option hygiene false in
macro "fin" "[" ts:Lean.Parser.Tactic.simpLemma,* "]" : tactic => `(tactic| (
  constructor <;> simp only [$ts,*, if_true, if_false, Bool.false_eq_true, machine, enter, Obs.onOut, onRet_eq, sinkMsg_greets, sinkMsg_datas, sinkMsg_terms, sinkMsg_errs,
      sinkMsg_upTerms, sinkMsg_inFlight, sinkMsg_twd, sinkMsg_panics, sinkMsg_disposed] <;> first
    | omega
    | wfset
    | assumption
    | (simpa using ho)))

set_option linter.unusedSimpArgs false in
theorem inv_pstep {α} (n E0 : Nat) (s s' : PSys St (Loc α) α α) (t : Nat) (hi : Inv n E0 s)
    (hs : pstep (machine α n) s t = some s') : Inv n E0 s' := by
  unfold pstep at hs
  cases hth : s.threads[t]? with
  | none => simp [hth] at hs
  | some th =>
    obtain ⟨hlt, hget⟩ := List.getElem?_eq_some_iff.mp hth
    simp only [hth] at hs
    have hmem : th ∈ s.threads := hget ▸ List.getElem_mem hlt
    have hok := hi.wf _ hmem
    have e1 := fun x => cnt_set atG2 s.threads t hlt x
    have e2 := fun x => cnt_set atT2 s.threads t hlt x
    have e3 := fun x => cnt_set preT1 s.threads t hlt x
    have e4 := fun x => cnt_set mayErr s.threads t hlt x
    have e5 := fun x => cnt_set liveR s.threads t hlt x
    have e6 := fun x => cnt_set inData s.threads t hlt x
    simp only [hget] at e1 e2 e3 e4 e5 e6
    obtain ⟨hwf, hpan, hg1, hg0, ht1, ht0, hx, he, hr, hf, ho⟩ := hi
    clear hth hget hmem
    have hdl := inData_le_liveR s.threads
    have hO : E0 = 0 → s.st.ended = false ∧ s.obs.upTerms = 0 ∧ s.obs.afterTerm = 0 ∧ s.obs.termWhileData = false ∧
        s.obs.errs = 0 ∧ cnt mayErr s.threads = 0 := fun h => by
      obtain ⟨a, b, c, d⟩ := ho h; exact ⟨a, b, c, d, by omega, by omega⟩
    obtain ⟨script, frame⟩ := th
    cases frame with
    | none =>
      cases script with
      | nil => simp at hs
      | cons i rest =>
        simp only [] at hs
        split at hs
        · cases hs
          leaf ⟨[], none⟩
          constructor <;> simp only [] <;> first
            | omega
            | wfset
            | assumption
        · cases hs
          cases i with
          | subscribe k => simp [okThread, okScript] at hok
          | sinkUp k u => simp [okThread, okScript] at hok
          | srcGreet i =>
            leaf ⟨rest, some (.run (.g0 i))⟩
            constructor <;> simp only [machine, enter] <;> first
              | omega
              | wfset
              | assumption
          | srcDown i d =>
            cases d with
            | data a =>
              leaf ⟨rest, some (.run (.data a))⟩
              constructor <;> simp only [machine, enter] <;> first
                | omega
                | wfset
                | assumption
            | term =>
              obtain rfl : rest = [] := by simpa [okThread, okScript, okFrame] using hok
              leaf ⟨[], some (.run (.t0 i))⟩
              constructor <;> simp only [machine, enter] <;> first
                | omega
                | wfset
                | assumption
            | err e =>
              obtain rfl : rest = [] := by simpa [okThread, okScript, okFrame] using hok
              leaf ⟨[], some (.run (.e0 i e))⟩
              constructor <;> simp only [machine, enter] <;> first
                | omega
                | wfset
                | assumption
    | some fr =>
      cases fr with
      | wait o l =>
        cases hs
        cases l
        all_goals try (exfalso; simp [okThread, okFrame, okWait] at hok; done)
        · -- continuation `done`
          leaf ⟨script, some (.run .done)⟩
          by_cases hd : isDataOut o = true
          · simp [hd] at e5 e6
            fin [hd]
          · simp [hd] at e5 e6
            fin [hd]
        · -- continuation `eLoop`
          rename_i i j e
          obtain rfl : script = [] := by simp [okThread, okFrame, okWait] at hok; exact hok.2
          leaf ⟨[], some (.run (.eLoop i j e))⟩
          by_cases hd : isDataOut o = true
          · simp [hd] at e5 e6
            fin [hd]
          · simp [hd] at e5 e6
            fin [hd]
      | run l =>
        cases l
        all_goals try (exfalso; simp [okThread, okFrame, okLoc] at hok; done)
        case done =>
          simp [machine, step] at hs
          cases hs
          leaf ⟨script, none⟩
          fin [if_true]
        case g0 i =>
          simp only [machine, step, Bool.true_and] at hs
          by_cases hen : s.st.ended = true
          · rw [if_pos hen] at hs
            cases hs
            leaf ⟨script, some (.wait (.srcUp i .term) .done)⟩
            have hE0 : E0 ≠ 0 := fun h => by simp [(hO h).1] at hen
            fin [if_true]
          · rw [if_neg hen] at hs
            cases hs
            leaf ⟨script, some (.run (.g1 i))⟩
            fin [if_true]
        case g1 i =>
          simp only [machine, step] at hs
          cases hs
          by_cases h0 : s.st.startCount = 0
          · have : (s.st.startCount + 1 == 1) = true := by simp [h0]
            simp only [this, if_true]
            leaf ⟨script, some (.run .g2)⟩
            fin [if_true]
          · have : (s.st.startCount + 1 == 1) = false := by simp [h0]
            simp only [this]
            leaf ⟨script, some (.run .done)⟩
            fin [if_true]
        case t0 i =>
          simp only [machine, step] at hs
          cases hs
          obtain rfl : script = [] := by simp [okThread, okFrame, okLoc] at hok; exact hok.2
          leaf ⟨[], some (.run .t1)⟩
          fin [if_true]
        case t1 =>
          simp only [machine, step] at hs
          cases hs
          obtain rfl : script = [] := by simp [okThread, okFrame, okLoc] at hok; exact hok.2
          by_cases h0 : s.st.endCount + 1 = n
          · have : (s.st.endCount + 1 == n) = true := by simp [h0]
            simp only [this, if_true]
            leaf ⟨[], some (.run .t2)⟩
            fin [if_true]
          · have : (s.st.endCount + 1 == n) = false := by simp [h0]
            simp only [this]
            leaf ⟨[], some (.run .done)⟩
            fin [if_true]
        case e0 i e =>
          simp only [machine, step] at hs
          cases hs
          obtain rfl : script = [] := by simp [okThread, okFrame, okLoc] at hok; exact hok.2
          leaf ⟨[], some (.run (.eLoop i 0 e))⟩
          have hE0 : E0 ≠ 0 := by omega
          fin [if_true]
        case eLoop i j e =>
          simp only [machine, step] at hs
          obtain rfl : script = [] := by simp [okThread, okFrame, okLoc] at hok; exact hok.2
          by_cases hj : j < n
          · by_cases hc : (j != i && phAt s.st.slots j) = true
            · rw [if_pos hj, if_pos hc] at hs
              cases hs
              leaf ⟨[], some (.wait (.srcUp j .term) (.eLoop i (j + 1) e))⟩
              have hE0 : E0 ≠ 0 := by omega
              fin [if_true]
            · rw [if_pos hj, if_neg hc] at hs
              cases hs
              leaf ⟨[], some (.run (.eLoop i (j + 1) e))⟩
              have hE0 : E0 ≠ 0 := by omega
              fin [if_true]
          · rw [if_neg hj] at hs
            cases hs
            leaf ⟨[], some (.run (.eOut e))⟩
            have hE0 : E0 ≠ 0 := by omega
            fin [if_true]
        case eOut e =>
          simp only [machine, step] at hs
          cases hs
          obtain rfl : script = [] := by simp [okThread, okFrame, okLoc] at hok; exact hok.2
          leaf ⟨[], some (.wait (.down 0 (.err e)) .done)⟩
          have hE0 : E0 ≠ 0 := by omega
          fin [if_true]
        case g2 =>
          simp only [machine, step] at hs
          cases hs
          leaf ⟨script, some (.wait (.greet 0) .done)⟩
          have hat : E0 = 0 → s.obs.sinkMsg.afterTerm = 0 := fun h => by
            rw [sinkMsg_afterTerm _ (by omega) (hO h).2.2.2.2.1]; exact (hO h).2.2.1
          constructor <;> simp only [Obs.onOut, sinkMsg_greets, sinkMsg_datas, sinkMsg_terms, sinkMsg_errs,
              sinkMsg_upTerms, sinkMsg_inFlight, sinkMsg_twd, sinkMsg_panics, sinkMsg_disposed] <;> first
            | omega
            | wfset
            | assumption
            | exact fun h => ⟨(ho h).1, (ho h).2.1, hat h, (ho h).2.2.2⟩
        case data a =>
          simp only [machine, step] at hs
          cases hs
          leaf ⟨script, some (.wait (.down 0 (.data a)) .done)⟩
          have hat : E0 = 0 → s.obs.sinkMsg.afterTerm = 0 := fun h => by
            rw [sinkMsg_afterTerm _ (by omega) (hO h).2.2.2.2.1]; exact (hO h).2.2.1
          constructor <;> simp only [Obs.onOut, sinkMsg_greets, sinkMsg_datas, sinkMsg_terms, sinkMsg_errs,
              sinkMsg_upTerms, sinkMsg_inFlight, sinkMsg_twd, sinkMsg_panics, sinkMsg_disposed] <;> first
            | omega
            | wfset
            | assumption
            | exact fun h => ⟨(ho h).1, (ho h).2.1, hat h, (ho h).2.2.2⟩
        case t2 =>
          simp only [machine, step] at hs
          cases hs
          obtain rfl : script = [] := by simp [okThread, okFrame, okLoc] at hok; exact hok.2
          leaf ⟨[], some (.wait (.down 0 .term) .done)⟩
          have hat : E0 = 0 → s.obs.sinkMsg.afterTerm = 0 := fun h => by
            rw [sinkMsg_afterTerm _ (by omega) (hO h).2.2.2.2.1]; exact (hO h).2.2.1
          have hfl : s.obs.inFlight = 0 := by omega
          constructor <;> simp only [Obs.onOut, sinkMsg_greets, sinkMsg_datas, sinkMsg_terms, sinkMsg_errs,
              sinkMsg_upTerms, sinkMsg_inFlight, sinkMsg_twd, sinkMsg_panics, sinkMsg_disposed] <;> first
            | omega
            | wfset
            | assumption
            | exact fun h => ⟨(ho h).1, (ho h).2.1, hat h, by simp [hfl, (ho h).2.2.2]⟩

/-! ## The initial configuration -/

theorem hasTerm_map_data {α} (i : Nat) (ds : List α) (fin : List (In α)) :
    hasTerm (ds.map (fun a => In.srcDown i (Down.data a)) ++ fin) = hasTerm fin := by
  induction ds with
  | nil => rfl
  | cons a ds ih => simp [hasTerm, ih]

theorem hasErr_map_data {α} (i : Nat) (ds : List α) (fin : List (In α)) :
    hasErr (ds.map (fun a => In.srcDown i (Down.data a)) ++ fin) = hasErr fin := by
  induction ds with
  | nil => rfl
  | cons a ds ih => simp [hasErr, ih]

theorem okScript_map_data {α} (i : Nat) (ds : List α) (fin : List (In α)) (h : okScript fin) :
    okScript (ds.map (fun a => In.srcDown i (Down.data a)) ++ fin) := by
  induction ds with
  | nil => exact h
  | cons a ds ih => simpa [okScript] using ih

theorem memberScript_facts {α} {i : Nat} {fails : Bool} {sc : List (In α)} (h : MemberScript i fails sc) :
    okScript sc ∧ (hasTerm sc && hasErr sc) = false ∧ (fails = false → hasErr sc = false) := by
  cases sc with
  | nil => exact h.elim
  | cons g rest =>
    obtain ⟨rfl, ds, fin, rfl, hfin⟩ := h
    simp only [okScript, hasTerm, hasErr, isTermIn_greet, isErrIn_greet, Bool.false_or, hasTerm_map_data, hasErr_map_data]
    rcases hfin with rfl | rfl | ⟨hf, e, rfl⟩
    · exact ⟨okScript_map_data i ds [] trivial, rfl, fun _ => rfl⟩
    · exact ⟨okScript_map_data i ds _ rfl, rfl, fun _ => rfl⟩
    · refine ⟨okScript_map_data i ds _ rfl, rfl, fun h => ?_⟩
      rw [hf] at h; cases h

theorem members_mem {α} {n : Nat} {fails : Bool} {ths : List (Th α)} (h : Members n fails ths) :
    ∀ th ∈ ths, th.frame = none ∧ ∃ i, MemberScript i fails th.script := by
  intro th hth
  obtain ⟨i, hi, rfl⟩ := List.mem_iff_getElem.mp hth
  exact ⟨(h.2 i hi).1, i, (h.2 i hi).2⟩

theorem cnt_eq_zero {α} (p : α → Bool) (l : List α) (h : ∀ a ∈ l, p a = false) : cnt p l = 0 := by
  unfold cnt
  rw [List.countP_eq_zero]
  intro a ha; simp [h a ha]

theorem cnt_excl {α} (p q : α → Bool) (l : List α) (h : ∀ a ∈ l, (p a && q a) = false) :
    cnt p l + cnt q l ≤ l.length := by
  unfold cnt
  induction l with
  | nil => simp
  | cons a l ih =>
    have ha := h a (List.mem_cons_self ..)
    have ih := ih (fun b hb => h b (List.mem_cons_of_mem _ hb))
    simp only [List.countP_cons, List.length_cons]
    cases hp : p a <;> cases hq : q a <;> simp_all <;> omega

/-- number of members whose script ends with `Error` -/
def nFail {α} (ths : List (Th α)) : Nat := ths.countP (fun th => hasErr th.script)

theorem cnt_mayErr_start {α} {n : Nat} {fails : Bool} {ths : List (Th α)} (h : Members n fails ths) :
    cnt mayErr ths = nFail ths := by
  unfold cnt nFail
  apply List.countP_congr
  intro th hth
  have := (members_mem h th hth).1
  simp [mayErr, this, fErr]

theorem nFail_nofail {α} {n : Nat} {ths : List (Th α)} (h : Members n false ths) : nFail ths = 0 := by
  unfold nFail
  rw [List.countP_eq_zero]
  intro th hth
  obtain ⟨_, i, hm⟩ := members_mem h th hth
  simp [(memberScript_facts hm).2.2 rfl]

theorem inv_init {α} (n : Nat) (fails : Bool) (ths : List (Th α)) (h : Members n fails ths) :
    Inv n (nFail ths) (start n ths) := by
  have hm := members_mem h
  have z1 : cnt atG2 ths = 0 := cnt_eq_zero _ _ (fun th hth => by simp [atG2, (hm th hth).1, fG2])
  have z2 : cnt atT2 ths = 0 := cnt_eq_zero _ _ (fun th hth => by simp [atT2, (hm th hth).1, fT2])
  have z3 : cnt inData ths = 0 := cnt_eq_zero _ _ (fun th hth => by simp [inData, (hm th hth).1, fData])
  have z4 : cnt preT1 ths + cnt mayErr ths ≤ ths.length := cnt_excl _ _ _ (fun th hth => by
    obtain ⟨hf, i, hs⟩ := hm th hth
    simpa [preT1, mayErr, hf, fPreT1, fErr] using (memberScript_facts hs).2.1)
  have z5 : cnt liveR ths ≤ ths.length := List.countP_le_length
  have z6 := cnt_mayErr_start h
  have hl := h.1
  constructor <;> simp only [start] <;> first
    | omega
    | rfl
    | (intro th hth
       obtain ⟨hf, i, hs⟩ := hm th hth
       exact ⟨(memberScript_facts hs).1, by simp [hf, okFrame]⟩)
    | (intro _; simp; done)

theorem merge_par_inv {α : Type} (n : Nat) (fails : Bool) (ths : List (Thread (Loc α) α α)) (h : Members n fails ths) :
    ∀ s, PReach (machine α n) (start n ths) s → Inv n (nFail ths) s := by
  intro s hr
  induction hr with
  | init => exact inv_init n fails ths h
  | step t _ hs ih => exact inv_pstep n _ _ _ t ih hs

/-! ## C18 (merge) -/

/-- C18 (merge), safety.  For every member count, all scripts and every schedule: the sink is greeted at most once, completed
(`Terminate`) at most once, never both completed and failed, receives at most as many `Error`s as there are failing members,
nothing panics.  NOTE: `terms + errs ≤ 1` does NOT hold when two members fail concurrently (`merge_par_two_errors`). -/
theorem merge_par_safe {α : Type} (n : Nat) (fails : Bool) (ths : List (Thread (Loc α) α α)) (h : Members n fails ths) :
    ∀ s, PReach (machine α n) (start n ths) s →
      s.obs.greets ≤ 1 ∧ s.obs.terms ≤ 1 ∧ (s.obs.terms = 0 ∨ s.obs.errs = 0) ∧ s.obs.errs ≤ nFail ths ∧
      s.obs.panics = 0 ∧ (fails = false → s.obs.errs = 0) := by
  intro s hr
  obtain ⟨_, hpan, hg1, _, ht1, ht0, hx, he, _, _, _⟩ := merge_par_inv n fails ths h s hr
  refine ⟨by omega, by omega, by omega, by omega, hpan, fun hf => ?_⟩
  subst hf
  have := nFail_nofail h
  omega

/-- C18 (merge), safety as originally stated, for at most one failing member (in particular when nobody fails). -/
theorem merge_par_safe_one {α : Type} (n : Nat) (fails : Bool) (ths : List (Thread (Loc α) α α)) (h : Members n fails ths)
    (h1 : nFail ths ≤ 1) :
    ∀ s, PReach (machine α n) (start n ths) s →
      s.obs.greets ≤ 1 ∧ s.obs.terms + s.obs.errs ≤ 1 ∧ s.obs.panics = 0 ∧ (fails = false → s.obs.errs = 0) := by
  intro s hr
  obtain ⟨a, b, c, d, e, f⟩ := merge_par_safe n fails ths h s hr
  exact ⟨a, by omega, e, f⟩

theorem merge_par_safe_nofail {α : Type} (n : Nat) (ths : List (Thread (Loc α) α α)) (h : Members n false ths) :
    ∀ s, PReach (machine α n) (start n ths) s →
      s.obs.greets ≤ 1 ∧ s.obs.terms + s.obs.errs ≤ 1 ∧ s.obs.panics = 0 ∧ s.obs.errs = 0 := by
  intro s hr
  obtain ⟨a, b, c, d⟩ := merge_par_safe_one n false ths h (by rw [nFail_nofail h]; omega) s hr
  exact ⟨a, b, c, d rfl⟩

/-- C18 (merge), no failing member: completion is delivered only after every data delivery has returned, nothing follows it,
and no member is ever disposed. -/
theorem merge_par_order {α : Type} (n : Nat) (ths : List (Thread (Loc α) α α)) (h : Members n false ths) :
    ∀ s, PReach (machine α n) (start n ths) s →
      s.obs.termWhileData = false ∧ s.obs.afterTerm = 0 ∧ s.obs.upTerms = 0 := by
  intro s hr
  obtain ⟨_, b, c, d⟩ := (merge_par_inv n false ths h s hr).o (nFail_nofail h)
  exact ⟨d, c, b⟩

/-! ## Counterexamples -/

theorem twoFail_members : Members 2 true twoFail := by
  refine ⟨rfl, fun i hi => ?_⟩
  have : i = 0 ∨ i = 1 := by simp [twoFail] at hi; omega
  rcases this with rfl | rfl
  · exact ⟨rfl, rfl, [], [.srcDown 0 (.err 7)], rfl, Or.inr (Or.inr ⟨rfl, 7, rfl⟩)⟩
  · exact ⟨rfl, rfl, [], [.srcDown 1 (.err 8)], rfl, Or.inr (Or.inr ⟨rfl, 8, rfl⟩)⟩

/-- `terms + errs ≤ 1` is FALSE with two failing members: both `Error` handlers are entered before either has stored `ended`;
the sink receives two `Error`s (the second one after its terminal). -/
theorem merge_par_two_errors :
    ∃ ths, Members 2 true ths ∧ ∃ s, PReach (machine Nat 2) (start 2 ths) s ∧ s.obs.errs = 2 ∧ s.obs.afterTerm = 1 := by
  have h : ∃ s, runSched (machine Nat 2) (start 2 twoFail) twoFailSched = some s ∧ s.obs.errs = 2 ∧ s.obs.afterTerm = 1 :=
    ⟨_, rfl, rfl, rfl⟩
  obtain ⟨s, h1, h2⟩ := h
  exact ⟨twoFail, twoFail_members, s, runSched_reach _ _ _ _ h1, h2⟩

end Cb.Merge

#print axioms Cb.Merge.merge_par_safe
#print axioms Cb.Merge.merge_par_safe_one
#print axioms Cb.Merge.merge_par_safe_nofail
#print axioms Cb.Merge.merge_par_order
#print axioms Cb.Merge.merge_par_two_errors
