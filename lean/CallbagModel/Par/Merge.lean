import CallbagModel.Par
import CallbagModel.Ops.Merge
/-!
# merge! under racing member threads (C18, merge part)

Thread `i` plays member `i` of `merge!`: greeting, data, at most one terminal; every interleaving of the micro-steps of
`Merge.step` (`pstep`).  Proof: one global invariant (`Inv`) relating the shared counters `startCount` / `endCount` and the
observation counters to the NUMBER of threads at certain program points (Owicki–Gries with counting, as in `Par/TakeAbs.lean`),
proved directly on `PSys` (program counter of a thread = its `frame`).

Results (all for every member count `n`, all scripts, every schedule):
* `merge_par_safe`: `greets ≤ 1`, `terms ≤ 1`, never both a `Terminate` and an `Error`, `errs ≤` number of failing members,
  no panic; `merge_par_safe_one` / `merge_par_safe_nofail`: with at most one failing member `terms + errs ≤ 1`.
* `merge_par_order` (nobody fails): `Terminate` only when no data delivery is in progress, nothing after it, nobody disposed.
* `merge_par_data`, `merge_par_data_done` (nobody fails): no datum lost or duplicated (count form).
* FALSE, with machine-checked schedules: `terms + errs ≤ 1` when two members fail (`merge_par_two_errors`: two `Error`s);
  "the sink is greeted before anything else" (`merge_par_data_before_greet`: `Data` before the greeting);
  `afterTerm = 0` with one failing member (`merge_par_data_after_error`).

The invariant's counting predicates on threads: `atG2` / `atT2` (holder of the ticket `startCount = 1` / `endCount = n`, before
its call), `preT1` (will still increment `endCount`), `mayErr` (will still send `Error`), `liveR` (has not incremented
`endCount` and still has work to do before), `inData` (inside `sink(Data)`); `pend` counts data not yet passed on.
-/
namespace Cb.MergePar
open Cb Cb.Merge
open List

/-- script of member `i`: greet, then data, then at most one terminal (`fails = false`: only `Terminate` allowed) -/
def MemberScript {α : Type} (i : Nat) (fails : Bool) : List (In α) → Prop
  | [] => False
  | g :: rest => g = In.srcGreet i ∧ ∃ (ds : List α) (fin : List (In α)),
      rest = ds.map (fun a => In.srcDown i (Down.data a)) ++ fin ∧
      (fin = [] ∨ fin = [In.srcDown i Down.term] ∨ (fails = true ∧ ∃ e, fin = [In.srcDown i (Down.err e)]))

/-- one thread per member, thread `i` plays member `i`; nobody fails unless `fails` -/
def Members {α : Type} (n : Nat) (fails : Bool) (ths : List (Thread (Loc α) α α)) : Prop :=
  ths.length = n ∧ ∀ i (h : i < ths.length), ths[i].frame = none ∧ MemberScript i fails ths[i].script

def start {α : Type} (n : Nat) (ths : List (Thread (Loc α) α α)) : PSys St (Loc α) α α :=
  { st := { slots := List.replicate n false, startCount := 0, endCount := 0, ended := false }, threads := ths, obs := {} }

/-! ## Concrete schedules (for counterexamples) -/

def runSched {St Loc α β} (M : Machine St Loc α β) (s : PSys St Loc α β) : List Nat → Option (PSys St Loc α β)
  | [] => some s
  | t :: ts => match pstep M s t with
    | none => none
    | some s' => runSched M s' ts

theorem preach_trans_step {St Loc α β} {M : Machine St Loc α β} {s0 a : PSys St Loc α β}
    (h : PReach M s0 a) : ∀ (sched : List Nat) (s : PSys St Loc α β), runSched M a sched = some s → PReach M s0 s := by
  intro sched
  induction sched generalizing a with
  | nil => intro s hs; simp [runSched] at hs; exact hs ▸ h
  | cons t ts ih =>
    intro s hs
    simp only [runSched] at hs
    cases hp : pstep M a t with
    | none => simp [hp] at hs
    | some b =>
      simp only [hp] at hs
      exact ih (PReach.step t h hp) s hs

theorem runSched_reach {St Loc α β} (M : Machine St Loc α β) (s0 s : PSys St Loc α β) (sched : List Nat)
    (h : runSched M s0 sched = some s) : PReach M s0 s :=
  preach_trans_step PReach.init sched s h

/-- two members, each greets and then fails -/
def twoFail : List (Thread (Loc Nat) Nat Nat) :=
  [ { script := [.srcGreet 0, .srcDown 0 (.err 7)] }, { script := [.srcGreet 1, .srcDown 1 (.err 8)] } ]

/-- both greetings run to completion, then both `Error` handlers are entered before either has set `ended`; both run through -/
def twoFailSched : List Nat :=
  [0,0,0,0,0,0, 1,1,1,1, 0,1, 0,0,0,0,0,0,0,0, 1,1,1,1,1,1,1,1]

def obsOf {St Loc α β} (o : Option (PSys St Loc α β)) : Option (Nat × Nat × Nat × Nat × Nat) :=
  o.map fun s => (s.obs.greets, s.obs.terms, s.obs.errs, s.obs.afterTerm, s.obs.upTerms)

-- #eval obsOf (runSched (machine Nat 2) (start 2 twoFail) twoFailSched)   -- some (1, 0, 2, 1, 2)

/-! ## Per-thread predicates -/

abbrev Th (α : Type) := Thread (Loc α) α α
abbrev Fr (α : Type) := Option (Frame (Loc α) α)

def isTermIn {α} : In α → Bool | .srcDown _ .term => true | _ => false
def isErrIn {α} : In α → Bool | .srcDown _ (.err _) => true | _ => false
def hasTerm {α} : List (In α) → Bool
  | [] => false
  | x :: r => isTermIn x || hasTerm r
def hasErr {α} : List (In α) → Bool
  | [] => false
  | x :: r => isErrIn x || hasErr r
@[simp] theorem isTermIn_greet {α} (i : Nat) : isTermIn (α := α) (.srcGreet i) = false := rfl
@[simp] theorem isTermIn_data {α} (i : Nat) (a : α) : isTermIn (.srcDown i (.data a)) = false := rfl
@[simp] theorem isTermIn_term {α} (i : Nat) : isTermIn (α := α) (.srcDown i .term) = true := rfl
@[simp] theorem isTermIn_err {α} (i e : Nat) : isTermIn (α := α) (.srcDown i (.err e)) = false := rfl
@[simp] theorem isErrIn_greet {α} (i : Nat) : isErrIn (α := α) (.srcGreet i) = false := rfl
@[simp] theorem isErrIn_data {α} (i : Nat) (a : α) : isErrIn (.srcDown i (.data a)) = false := rfl
@[simp] theorem isErrIn_term {α} (i : Nat) : isErrIn (α := α) (.srcDown i .term) = false := rfl
@[simp] theorem isErrIn_err {α} (i e : Nat) : isErrIn (α := α) (.srcDown i (.err e)) = true := rfl

/-- only member deliveries, a terminal only as the last item -/
def okScript {α} : List (In α) → Prop
  | [] => True
  | .srcGreet _ :: r => okScript r
  | .srcDown _ (.data _) :: r => okScript r
  | .srcDown _ .term :: r => r = []
  | .srcDown _ (.err _) :: r => r = []
  | _ :: _ => False

/-- program points a member thread can be at; inside the `Terminate` / `Error` handlers the script is exhausted -/
def okLoc {α} : Loc α → List (In α) → Prop
  | .done, _ | .g0 _, _ | .g1 _, _ | .g2, _ | .data _, _ => True
  | .e0 .., sc | .eLoop .., sc | .eOut _, sc | .t0 _, sc | .t1, sc | .t2, sc => sc = []
  | _, _ => False

def okWait {α} : Loc α → List (In α) → Prop
  | .done, _ => True
  | .eLoop .., sc => sc = []
  | _, _ => False

def okFrame {α} : Fr α → List (In α) → Prop
  | none, _ => True
  | some (.run l), sc => okLoc l sc
  | some (.wait _ l), sc => okWait l sc

def okThread {α} (th : Th α) : Prop := okScript th.script ∧ okFrame th.frame th.script

def fG2 {α} : Fr α → Bool | some (.run .g2) => true | _ => false
def fT2 {α} : Fr α → Bool | some (.run .t2) => true | _ => false
def fPreT1 {α} : Fr α → Bool | some (.run (.t0 _)) | some (.run .t1) => true | _ => false
def fErr {α} : Fr α → Bool
  | some (.run (.e0 ..)) | some (.run (.eLoop ..)) | some (.run (.eOut _)) | some (.wait _ (.eLoop ..)) => true
  | _ => false
def isDataOut {α} : Out α → Bool | .down _ (.data _) => true | _ => false
@[simp] theorem isDataOut_greet {α} (k : Nat) : isDataOut (α := α) (.greet k) = false := rfl
@[simp] theorem isDataOut_data {α} (k : Nat) (a : α) : isDataOut (.down k (.data a)) = true := rfl
@[simp] theorem isDataOut_term {α} (k : Nat) : isDataOut (α := α) (.down k .term) = false := rfl
@[simp] theorem isDataOut_err {α} (k e : Nat) : isDataOut (α := α) (.down k (.err e)) = false := rfl
@[simp] theorem isDataOut_srcUp {α} (k : Nat) (u : Up) : isDataOut (α := α) (.srcUp k u) = false := rfl
def fLive {α} : Fr α → Bool
  | some (.run (.g0 _)) | some (.run (.g1 _)) | some (.run .g2) | some (.run (.data _))
  | some (.run (.t0 _)) | some (.run .t1) => true
  | some (.wait o _) => isDataOut o
  | _ => false
def fData {α} : Fr α → Bool | some (.wait o _) => isDataOut o | _ => false

/-- about to greet the sink (holds the ticket `startCount = 1`) -/
def atG2 {α} (th : Th α) : Bool := fG2 th.frame
/-- about to complete the sink (holds the ticket `endCount = n`) -/
def atT2 {α} (th : Th α) : Bool := fT2 th.frame
/-- will still increment `endCount` -/
def preT1 {α} (th : Th α) : Bool := hasTerm th.script || fPreT1 th.frame
/-- will still deliver `Error` to the sink -/
def mayErr {α} (th : Th α) : Bool := hasErr th.script || fErr th.frame
/-- has not incremented `endCount` and has something left to do before (a delivery to start, a call to make or to return from) -/
def liveR {α} (th : Th α) : Bool := !th.script.isEmpty || fLive th.frame
/-- inside a data delivery to the sink -/
def inData {α} (th : Th α) : Bool := fData th.frame

def isDataIn {α} : In α → Bool | .srcDown _ (.data _) => true | _ => false
@[simp] theorem isDataIn_greet {α} (i : Nat) : isDataIn (α := α) (.srcGreet i) = false := rfl
@[simp] theorem isDataIn_data {α} (i : Nat) (a : α) : isDataIn (.srcDown i (.data a)) = true := rfl
@[simp] theorem isDataIn_term {α} (i : Nat) : isDataIn (α := α) (.srcDown i .term) = false := rfl
@[simp] theorem isDataIn_err {α} (i e : Nat) : isDataIn (α := α) (.srcDown i (.err e)) = false := rfl
/-- number of data deliveries in a script -/
def nData {α} : List (In α) → Nat
  | [] => 0
  | x :: r => (if isDataIn x then 1 else 0) + nData r
def fPend {α} : Fr α → Nat | some (.run (.data _)) => 1 | _ => 0
/-- data handed (or still to be handed) to merge by this thread and not yet passed on to the sink -/
def pend {α} (th : Th α) : Nat := nData th.script + fPend th.frame

/-- sum of `f` over the threads (a wrapper that `simp` does not look into) -/
def tot {α} (f : α → Nat) (l : List α) : Nat := (l.map f).sum

theorem tot_set {α} (f : α → Nat) (l : List α) (i : Nat) (h : i < l.length) (x : α) :
    tot f (l.set i x) + f l[i] = tot f l + f x := by
  unfold tot
  induction l generalizing i with
  | nil => simp at h
  | cons a l ih =>
    cases i with
    | zero => simp; omega
    | succ i =>
      have := ih i (by simpa using h)
      simp only [List.set_cons_succ, List.map_cons, List.sum_cons, List.getElem_cons_succ]
      omega

/-- number of threads satisfying `p` (a wrapper that `simp` does not look into) -/
def cnt {α} (p : α → Bool) (l : List α) : Nat := l.countP p

structure Inv {α} (n E0 D0 : Nat) (s : PSys St (Loc α) α α) : Prop where
  wf : ∀ th ∈ s.threads, okThread th
  pan : s.obs.panics = 0
  g1 : s.obs.greets + cnt atG2 s.threads ≤ 1
  g0 : s.st.startCount = 0 → s.obs.greets + cnt atG2 s.threads = 0
  t1 : s.obs.terms + cnt atT2 s.threads ≤ 1
  t0 : s.st.endCount < n → s.obs.terms + cnt atT2 s.threads = 0
  x : s.st.endCount + cnt preT1 s.threads + s.obs.errs + cnt mayErr s.threads ≤ n
  e : s.obs.errs + cnt mayErr s.threads ≤ E0
  r : s.st.endCount + cnt liveR s.threads ≤ n
  f : s.obs.inFlight = cnt inData s.threads
  o : E0 = 0 → s.st.ended = false ∧ s.obs.upTerms = 0 ∧ s.obs.afterTerm = 0 ∧ s.obs.termWhileData = false
  d : E0 = 0 → s.obs.disposed = [] ∧ s.obs.datas.length + tot pend s.threads = D0

theorem cnt_set {α} (p : α → Bool) (l : List α) (i : Nat) (h : i < l.length) (x : α) :
    cnt p (l.set i x) + (if p l[i] then 1 else 0) = cnt p l + (if p x then 1 else 0) ∧
    (if p l[i] then 1 else 0) ≤ cnt p l ∧ (if p l[i] then 1 else 0) ≤ 1 ∧ (if p x then 1 else 0) ≤ 1 := by
  unfold cnt
  have h1 := List.countP_set (p := p) (l := l) (i := i) (a := x) h
  have h2 : (if p l[i] = true then 1 else 0) ≤ l.countP p := List.boole_getElem_le_countP (p := p) h
  refine ⟨by omega, h2, ?_, ?_⟩ <;> split <;> omega

theorem forall_set {α} {P : α → Prop} {l : List α} {i : Nat} {x : α}
    (hl : ∀ a ∈ l, P a) (hx : P x) : ∀ a ∈ l.set i x, P a := by
  intro a ha
  rcases List.mem_or_eq_of_mem_set ha with h | h
  · exact hl a h
  · exact h ▸ hx

section obs
variable {β : Type} (o : Obs β)
@[simp] theorem sinkMsg_greets : o.sinkMsg.greets = o.greets := by unfold Obs.sinkMsg; split <;> rfl
@[simp] theorem sinkMsg_datas : o.sinkMsg.datas = o.datas := by unfold Obs.sinkMsg; split <;> rfl
@[simp] theorem sinkMsg_terms : o.sinkMsg.terms = o.terms := by unfold Obs.sinkMsg; split <;> rfl
@[simp] theorem sinkMsg_errs : o.sinkMsg.errs = o.errs := by unfold Obs.sinkMsg; split <;> rfl
@[simp] theorem sinkMsg_upTerms : o.sinkMsg.upTerms = o.upTerms := by unfold Obs.sinkMsg; split <;> rfl
@[simp] theorem sinkMsg_inFlight : o.sinkMsg.inFlight = o.inFlight := by unfold Obs.sinkMsg; split <;> rfl
@[simp] theorem sinkMsg_twd : o.sinkMsg.termWhileData = o.termWhileData := by unfold Obs.sinkMsg; split <;> rfl
@[simp] theorem sinkMsg_panics : o.sinkMsg.panics = o.panics := by unfold Obs.sinkMsg; split <;> rfl
@[simp] theorem sinkMsg_disposed : o.sinkMsg.disposed = o.disposed := by unfold Obs.sinkMsg; split <;> rfl
theorem sinkMsg_afterTerm (h1 : o.terms = 0) (h2 : o.errs = 0) : o.sinkMsg.afterTerm = o.afterTerm := by
  unfold Obs.sinkMsg; simp [h1, h2]
theorem onRet_eq (x : Out β) :
    o.onRet x = { o with inFlight := if isDataOut x then o.inFlight - 1 else o.inFlight } := by
  cases x with
  | down k d => cases d <;> simp [Obs.onRet, isDataOut]
  | _ => simp [Obs.onRet, isDataOut]
end obs

theorem inData_le_liveR {α} (l : List (Th α)) : cnt inData l ≤ cnt liveR l := by
  unfold cnt
  apply List.countP_mono_left
  intro th _ h
  obtain ⟨sc, fr⟩ := th
  simp only [inData, liveR] at *
  cases fr with
  | none => simp [fData] at h
  | some f => cases f with
    | run l => simp [fData] at h
    | wait o l => simp_all [fData, fLive]

/-! ## One step of one thread preserves the invariant

`prep` unfolds `pstep` for the thread `t` whose state is given by `hth`, instantiates the counting lemmas for that thread
(`e1`…`e7`, functions of the thread's new state) and takes the invariant apart; `leaf x` evaluates them for the new state `x`;
`fin` re-establishes the invariant field by field. -/

set_option hygiene false in
macro "prep" : tactic => `(tactic| (
  unfold pstep at hs
  obtain ⟨hlt, hget⟩ := List.getElem?_eq_some_iff.mp hth
  simp only [hth] at hs
  have hok := hi.wf _ (hget ▸ List.getElem_mem hlt)
  have e1 := fun x => cnt_set atG2 s.threads t hlt x
  have e2 := fun x => cnt_set atT2 s.threads t hlt x
  have e3 := fun x => cnt_set preT1 s.threads t hlt x
  have e4 := fun x => cnt_set mayErr s.threads t hlt x
  have e5 := fun x => cnt_set liveR s.threads t hlt x
  have e6 := fun x => cnt_set inData s.threads t hlt x
  have e7 := fun x => tot_set pend s.threads t hlt x
  simp only [hget] at e1 e2 e3 e4 e5 e6 e7
  obtain ⟨hwf, hpan, hg1, hg0, ht1, ht0, hx, he, hr, hf, ho, hd0⟩ := hi
  clear hth hget
  have hdl := inData_le_liveR s.threads
  have hO : E0 = 0 → s.st.ended = false ∧ s.obs.upTerms = 0 ∧ s.obs.afterTerm = 0 ∧ s.obs.termWhileData = false ∧
      s.obs.errs = 0 ∧ cnt mayErr s.threads = 0 := fun h => by
    obtain ⟨a, b, c, d⟩ := ho h; exact ⟨a, b, c, d, by omega, by omega⟩))

set_option hygiene false in
macro "leaf " x:term : tactic => `(tactic| (
  have e1 := e1 $x; have e2 := e2 $x; have e3 := e3 $x; have e4 := e4 $x; have e5 := e5 $x; have e6 := e6 $x; have e7 := e7 $x
  simp [atG2, atT2, preT1, mayErr, liveR, inData, fG2, fT2, fPreT1, fErr, fLive, fData, hasTerm, hasErr, pend, nData, fPend]
    at e1 e2 e3 e4 e5 e6 e7))

set_option hygiene false in
macro "wfset" : tactic => `(tactic| (
  apply forall_set hwf
  simp_all [okThread, okScript, okFrame, okLoc, okWait]))

set_option hygiene false in
macro "fin" "[" ts:Lean.Parser.Tactic.simpLemma,* "]" : tactic => `(tactic| (
  constructor <;> simp only [$ts,*, if_true, if_false, Bool.false_eq_true, machine, enter, Obs.onOut, onRet_eq, sinkMsg_greets,
      sinkMsg_datas, sinkMsg_terms, sinkMsg_errs, sinkMsg_upTerms, sinkMsg_inFlight, sinkMsg_twd, sinkMsg_panics,
      sinkMsg_disposed] <;> first
    | omega
    | wfset
    | assumption
    | (simpa using ho)
    | (intro hE; obtain ⟨d1, d2⟩ := hd0 hE; exact ⟨d1, by omega⟩)))

section steps
variable {α : Type} {n E0 D0 : Nat} {s s' : PSys St (Loc α) α α} {t : Nat} {script : List (In α)}
set_option linter.unusedSimpArgs false

/-- the thread starts its next delivery (or stops because its member has been disposed) -/
theorem inv_start (hi : Inv n E0 D0 s) (hth : s.threads[t]? = some ⟨script, none⟩)
    (hs : pstep (machine α n) s t = some s') : Inv n E0 D0 s' := by
  prep
  cases script with
  | nil => simp at hs
  | cons i rest =>
    simp only [] at hs
    split at hs
    · cases hs
      leaf ⟨[], none⟩
      have hE0 : E0 ≠ 0 := fun h => by
        have := (hd0 h).1
        simp_all
      fin [if_true]
    · cases hs
      cases i with
      | subscribe k => simp [okThread, okScript] at hok
      | sinkUp k u => simp [okThread, okScript] at hok
      | srcGreet i =>
        leaf ⟨rest, some (.run (.g0 i))⟩
        fin [if_true]
      | srcDown i d =>
        cases d with
        | data a =>
          leaf ⟨rest, some (.run (.data a))⟩
          fin [if_true]
        | term =>
          obtain rfl : rest = [] := by simpa [okThread, okScript, okFrame] using hok
          leaf ⟨[], some (.run (.t0 i))⟩
          fin [if_true]
        | err e =>
          obtain rfl : rest = [] := by simpa [okThread, okScript, okFrame] using hok
          leaf ⟨[], some (.run (.e0 i e))⟩
          fin [if_true]

/-- a call to the environment returns -/
theorem inv_ret {o : Out α} {l : Loc α} (hi : Inv n E0 D0 s) (hth : s.threads[t]? = some ⟨script, some (.wait o l)⟩)
    (hs : pstep (machine α n) s t = some s') : Inv n E0 D0 s' := by
  prep
  cases hs
  cases l
  all_goals try (exfalso; simp [okThread, okFrame, okWait] at hok; done)
  · -- continuation `done`
    leaf ⟨script, some (.run .done)⟩
    by_cases hd : isDataOut o = true
    · simp [hd] at e5 e6
      fin [hd]
    · simp [hd] at e5 e6
      fin [hd]
  · -- continuation `eLoop`
    rename_i i j e
    obtain rfl : script = [] := by simp [okThread, okFrame, okWait] at hok; exact hok.2
    leaf ⟨[], some (.run (.eLoop i j e))⟩
    by_cases hd : isDataOut o = true
    · simp [hd] at e5 e6
      fin [hd]
    · simp [hd] at e5 e6
      fin [hd]

theorem inv_done (hi : Inv n E0 D0 s) (hth : s.threads[t]? = some ⟨script, some (.run .done)⟩)
    (hs : pstep (machine α n) s t = some s') : Inv n E0 D0 s' := by
  prep
  simp [machine, step] at hs
  cases hs
  leaf ⟨script, none⟩
  fin [if_true]

theorem inv_g0 {i : Nat} (hi : Inv n E0 D0 s) (hth : s.threads[t]? = some ⟨script, some (.run (.g0 i))⟩)
    (hs : pstep (machine α n) s t = some s') : Inv n E0 D0 s' := by
  prep
  simp only [machine, step, Bool.true_and] at hs
  by_cases hen : s.st.ended = true
  · rw [if_pos hen] at hs
    cases hs
    leaf ⟨script, some (.wait (.srcUp i .term) .done)⟩
    have hE0 : E0 ≠ 0 := fun h => by simp [(hO h).1] at hen
    fin [if_true]
  · rw [if_neg hen] at hs
    cases hs
    leaf ⟨script, some (.run (.g1 i))⟩
    fin [if_true]

theorem inv_g1 {i : Nat} (hi : Inv n E0 D0 s) (hth : s.threads[t]? = some ⟨script, some (.run (.g1 i))⟩)
    (hs : pstep (machine α n) s t = some s') : Inv n E0 D0 s' := by
  prep
  simp only [machine, step] at hs
  cases hs
  by_cases h0 : s.st.startCount = 0
  · have : (s.st.startCount + 1 == 1) = true := by simp [h0]
    simp only [this, if_true]
    leaf ⟨script, some (.run .g2)⟩
    fin [if_true]
  · have : (s.st.startCount + 1 == 1) = false := by simp [h0]
    simp only [this]
    leaf ⟨script, some (.run .done)⟩
    fin [if_true]

set_option hygiene false in
macro "callfin" : tactic => `(tactic| (
  constructor <;> simp only [Obs.onOut, sinkMsg_greets, sinkMsg_datas, sinkMsg_terms, sinkMsg_errs,
    sinkMsg_upTerms, sinkMsg_inFlight, sinkMsg_twd, sinkMsg_panics, sinkMsg_disposed]))

theorem inv_g2 (hi : Inv n E0 D0 s) (hth : s.threads[t]? = some ⟨script, some (.run .g2)⟩)
    (hs : pstep (machine α n) s t = some s') : Inv n E0 D0 s' := by
  prep
  simp only [machine, step] at hs
  cases hs
  leaf ⟨script, some (.wait (.greet 0) .done)⟩
  have hat : E0 = 0 → s.obs.sinkMsg.afterTerm = 0 := fun h => by
    rw [sinkMsg_afterTerm _ (by omega) (hO h).2.2.2.2.1]; exact (hO h).2.2.1
  callfin
  case o => exact fun h => ⟨(ho h).1, (ho h).2.1, hat h, (ho h).2.2.2⟩
  case d => exact fun h => ⟨(hd0 h).1, by have := (hd0 h).2; omega⟩
  all_goals first
    | omega
    | wfset
    | assumption

theorem inv_data {a : α} (hi : Inv n E0 D0 s) (hth : s.threads[t]? = some ⟨script, some (.run (.data a))⟩)
    (hs : pstep (machine α n) s t = some s') : Inv n E0 D0 s' := by
  prep
  simp only [machine, step] at hs
  cases hs
  leaf ⟨script, some (.wait (.down 0 (.data a)) .done)⟩
  have hat : E0 = 0 → s.obs.sinkMsg.afterTerm = 0 := fun h => by
    rw [sinkMsg_afterTerm _ (by omega) (hO h).2.2.2.2.1]; exact (hO h).2.2.1
  callfin
  case o => exact fun h => ⟨(ho h).1, (ho h).2.1, hat h, (ho h).2.2.2⟩
  case d =>
    refine fun h => ⟨(hd0 h).1, ?_⟩
    have := (hd0 h).2
    simp only [List.length_append, List.length_singleton]; omega
  all_goals first
    | omega
    | wfset
    | assumption

theorem inv_t0 {i : Nat} (hi : Inv n E0 D0 s) (hth : s.threads[t]? = some ⟨script, some (.run (.t0 i))⟩)
    (hs : pstep (machine α n) s t = some s') : Inv n E0 D0 s' := by
  prep
  simp only [machine, step] at hs
  cases hs
  obtain rfl : script = [] := by simp [okThread, okFrame, okLoc] at hok; exact hok.2
  leaf ⟨[], some (.run .t1)⟩
  fin [if_true]

theorem inv_t1 (hi : Inv n E0 D0 s) (hth : s.threads[t]? = some ⟨script, some (.run .t1)⟩)
    (hs : pstep (machine α n) s t = some s') : Inv n E0 D0 s' := by
  prep
  simp only [machine, step] at hs
  cases hs
  obtain rfl : script = [] := by simp [okThread, okFrame, okLoc] at hok; exact hok.2
  by_cases h0 : s.st.endCount + 1 = n
  · have : (s.st.endCount + 1 == n) = true := by simp [h0]
    simp only [this, if_true]
    leaf ⟨[], some (.run .t2)⟩
    fin [if_true]
  · have : (s.st.endCount + 1 == n) = false := by simp [h0]
    simp only [this]
    leaf ⟨[], some (.run .done)⟩
    fin [if_true]

theorem inv_t2 (hi : Inv n E0 D0 s) (hth : s.threads[t]? = some ⟨script, some (.run .t2)⟩)
    (hs : pstep (machine α n) s t = some s') : Inv n E0 D0 s' := by
  prep
  simp only [machine, step] at hs
  cases hs
  obtain rfl : script = [] := by simp [okThread, okFrame, okLoc] at hok; exact hok.2
  leaf ⟨[], some (.wait (.down 0 .term) .done)⟩
  have hat : E0 = 0 → s.obs.sinkMsg.afterTerm = 0 := fun h => by
    rw [sinkMsg_afterTerm _ (by omega) (hO h).2.2.2.2.1]; exact (hO h).2.2.1
  have hfl : s.obs.inFlight = 0 := by omega
  callfin
  case o => exact fun h => ⟨(ho h).1, (ho h).2.1, hat h, by simp [hfl, (ho h).2.2.2]⟩
  case d => exact fun h => ⟨(hd0 h).1, by have := (hd0 h).2; omega⟩
  all_goals first
    | omega
    | wfset
    | assumption

theorem inv_e0 {i e : Nat} (hi : Inv n E0 D0 s) (hth : s.threads[t]? = some ⟨script, some (.run (.e0 i e))⟩)
    (hs : pstep (machine α n) s t = some s') : Inv n E0 D0 s' := by
  prep
  simp only [machine, step] at hs
  cases hs
  obtain rfl : script = [] := by simp [okThread, okFrame, okLoc] at hok; exact hok.2
  leaf ⟨[], some (.run (.eLoop i 0 e))⟩
  have hE0 : E0 ≠ 0 := by omega
  fin [if_true]

theorem inv_eLoop {i j e : Nat} (hi : Inv n E0 D0 s) (hth : s.threads[t]? = some ⟨script, some (.run (.eLoop i j e))⟩)
    (hs : pstep (machine α n) s t = some s') : Inv n E0 D0 s' := by
  prep
  simp only [machine, step] at hs
  obtain rfl : script = [] := by simp [okThread, okFrame, okLoc] at hok; exact hok.2
  by_cases hj : j < n
  · by_cases hc : (j != i && phAt s.st.slots j) = true
    · rw [if_pos hj, if_pos hc] at hs
      cases hs
      leaf ⟨[], some (.wait (.srcUp j .term) (.eLoop i (j + 1) e))⟩
      have hE0 : E0 ≠ 0 := by omega
      fin [if_true]
    · rw [if_pos hj, if_neg hc] at hs
      cases hs
      leaf ⟨[], some (.run (.eLoop i (j + 1) e))⟩
      have hE0 : E0 ≠ 0 := by omega
      fin [if_true]
  · rw [if_neg hj] at hs
    cases hs
    leaf ⟨[], some (.run (.eOut e))⟩
    have hE0 : E0 ≠ 0 := by omega
    fin [if_true]

theorem inv_eOut {e : Nat} (hi : Inv n E0 D0 s) (hth : s.threads[t]? = some ⟨script, some (.run (.eOut e))⟩)
    (hs : pstep (machine α n) s t = some s') : Inv n E0 D0 s' := by
  prep
  simp only [machine, step] at hs
  cases hs
  obtain rfl : script = [] := by simp [okThread, okFrame, okLoc] at hok; exact hok.2
  leaf ⟨[], some (.wait (.down 0 (.err e)) .done)⟩
  have hE0 : E0 ≠ 0 := by omega
  fin [if_true]

end steps

theorem inv_pstep {α} (n E0 D0 : Nat) (s s' : PSys St (Loc α) α α) (t : Nat) (hi : Inv n E0 D0 s)
    (hs : pstep (machine α n) s t = some s') : Inv n E0 D0 s' := by
  cases hth : s.threads[t]? with
  | none => simp [pstep, hth] at hs
  | some th =>
    have hok := hi.wf _ (List.mem_of_getElem? hth)
    obtain ⟨script, frame⟩ := th
    cases frame with
    | none => exact inv_start hi hth hs
    | some fr =>
      cases fr with
      | wait o l => exact inv_ret hi hth hs
      | run l =>
        cases l with
        | done => exact inv_done hi hth hs
        | g0 i => exact inv_g0 hi hth hs
        | g1 i => exact inv_g1 hi hth hs
        | g2 => exact inv_g2 hi hth hs
        | data a => exact inv_data hi hth hs
        | t0 i => exact inv_t0 hi hth hs
        | t1 => exact inv_t1 hi hth hs
        | t2 => exact inv_t2 hi hth hs
        | e0 i e => exact inv_e0 hi hth hs
        | eLoop i j e => exact inv_eLoop hi hth hs
        | eOut e => exact inv_eOut hi hth hs
        | _ => simp [okThread, okFrame, okLoc] at hok

/-! ## The initial configuration -/

theorem hasTerm_map_data {α} (i : Nat) (ds : List α) (fin : List (In α)) :
    hasTerm (ds.map (fun a => In.srcDown i (Down.data a)) ++ fin) = hasTerm fin := by
  induction ds with
  | nil => rfl
  | cons a ds ih => simp [hasTerm, ih]

theorem hasErr_map_data {α} (i : Nat) (ds : List α) (fin : List (In α)) :
    hasErr (ds.map (fun a => In.srcDown i (Down.data a)) ++ fin) = hasErr fin := by
  induction ds with
  | nil => rfl
  | cons a ds ih => simp [hasErr, ih]

theorem okScript_map_data {α} (i : Nat) (ds : List α) (fin : List (In α)) (h : okScript fin) :
    okScript (ds.map (fun a => In.srcDown i (Down.data a)) ++ fin) := by
  induction ds with
  | nil => exact h
  | cons a ds ih => simpa [okScript] using ih

theorem memberScript_facts {α} {i : Nat} {fails : Bool} {sc : List (In α)} (h : MemberScript i fails sc) :
    okScript sc ∧ (hasTerm sc && hasErr sc) = false ∧ (fails = false → hasErr sc = false) := by
  cases sc with
  | nil => exact h.elim
  | cons g rest =>
    obtain ⟨rfl, ds, fin, rfl, hfin⟩ := h
    simp only [okScript, hasTerm, hasErr, isTermIn_greet, isErrIn_greet, Bool.false_or, hasTerm_map_data, hasErr_map_data]
    rcases hfin with rfl | rfl | ⟨hf, e, rfl⟩
    · exact ⟨okScript_map_data i ds [] trivial, rfl, fun _ => rfl⟩
    · exact ⟨okScript_map_data i ds _ rfl, rfl, fun _ => rfl⟩
    · refine ⟨okScript_map_data i ds _ rfl, rfl, fun h => ?_⟩
      rw [hf] at h; cases h

theorem members_mem {α} {n : Nat} {fails : Bool} {ths : List (Th α)} (h : Members n fails ths) :
    ∀ th ∈ ths, th.frame = none ∧ ∃ i, MemberScript i fails th.script := by
  intro th hth
  obtain ⟨i, hi, rfl⟩ := List.mem_iff_getElem.mp hth
  exact ⟨(h.2 i hi).1, i, (h.2 i hi).2⟩

theorem cnt_eq_zero {α} (p : α → Bool) (l : List α) (h : ∀ a ∈ l, p a = false) : cnt p l = 0 := by
  unfold cnt
  rw [List.countP_eq_zero]
  intro a ha; simp [h a ha]

theorem cnt_excl {α} (p q : α → Bool) (l : List α) (h : ∀ a ∈ l, (p a && q a) = false) :
    cnt p l + cnt q l ≤ l.length := by
  unfold cnt
  induction l with
  | nil => simp
  | cons a l ih =>
    have ha := h a (List.mem_cons_self ..)
    have ih := ih (fun b hb => h b (List.mem_cons_of_mem _ hb))
    simp only [List.countP_cons, List.length_cons]
    cases hp : p a <;> cases hq : q a <;> simp_all <;> omega

/-- number of members whose script ends with `Error` -/
def nFail {α} (ths : List (Th α)) : Nat := ths.countP (fun th => hasErr th.script)

theorem cnt_mayErr_start {α} {n : Nat} {fails : Bool} {ths : List (Th α)} (h : Members n fails ths) :
    cnt mayErr ths = nFail ths := by
  unfold cnt nFail
  apply List.countP_congr
  intro th hth
  have := (members_mem h th hth).1
  simp [mayErr, this, fErr]

theorem nFail_nofail {α} {n : Nat} {ths : List (Th α)} (h : Members n false ths) : nFail ths = 0 := by
  unfold nFail
  rw [List.countP_eq_zero]
  intro th hth
  obtain ⟨_, i, hm⟩ := members_mem h th hth
  simp [(memberScript_facts hm).2.2 rfl]

theorem inv_init {α} (n : Nat) (fails : Bool) (ths : List (Th α)) (h : Members n fails ths) :
    Inv n (nFail ths) (tot pend ths) (start n ths) := by
  have hm := members_mem h
  have z1 : cnt atG2 ths = 0 := cnt_eq_zero _ _ (fun th hth => by simp [atG2, (hm th hth).1, fG2])
  have z2 : cnt atT2 ths = 0 := cnt_eq_zero _ _ (fun th hth => by simp [atT2, (hm th hth).1, fT2])
  have z3 : cnt inData ths = 0 := cnt_eq_zero _ _ (fun th hth => by simp [inData, (hm th hth).1, fData])
  have z4 : cnt preT1 ths + cnt mayErr ths ≤ ths.length := cnt_excl _ _ _ (fun th hth => by
    obtain ⟨hf, i, hs⟩ := hm th hth
    simpa [preT1, mayErr, hf, fPreT1, fErr] using (memberScript_facts hs).2.1)
  have z5 : cnt liveR ths ≤ ths.length := List.countP_le_length
  have z6 := cnt_mayErr_start h
  have hl := h.1
  constructor <;> simp only [start] <;> first
    | omega
    | rfl
    | (intro th hth
       obtain ⟨hf, i, hs⟩ := hm th hth
       exact ⟨(memberScript_facts hs).1, by simp [hf, okFrame]⟩)
    | (intro _; simp; done)
    | (intro _; exact ⟨rfl, by simp⟩)

theorem merge_par_inv {α : Type} (n : Nat) (fails : Bool) (ths : List (Thread (Loc α) α α)) (h : Members n fails ths) :
    ∀ s, PReach (machine α n) (start n ths) s → Inv n (nFail ths) (tot pend ths) s := by
  intro s hr
  induction hr with
  | init => exact inv_init n fails ths h
  | step t _ hs ih => exact inv_pstep n _ _ _ _ t ih hs

/-! ## C18 (merge) -/

/-- C18 (merge), safety.  For every member count, all scripts and every schedule: the sink is greeted at most once, completed
(`Terminate`) at most once, never both completed and failed, receives at most as many `Error`s as there are failing members,
nothing panics.  NOTE: `terms + errs ≤ 1` does NOT hold when two members fail concurrently (`merge_par_two_errors`). -/
theorem merge_par_safe {α : Type} (n : Nat) (fails : Bool) (ths : List (Thread (Loc α) α α)) (h : Members n fails ths) :
    ∀ s, PReach (machine α n) (start n ths) s →
      s.obs.greets ≤ 1 ∧ s.obs.terms ≤ 1 ∧ (s.obs.terms = 0 ∨ s.obs.errs = 0) ∧ s.obs.errs ≤ nFail ths ∧
      s.obs.panics = 0 ∧ (fails = false → s.obs.errs = 0) := by
  intro s hr
  obtain ⟨_, hpan, hg1, _, ht1, ht0, hx, he, _, _, _, _⟩ := merge_par_inv n fails ths h s hr
  refine ⟨by omega, by omega, by omega, by omega, hpan, fun hf => ?_⟩
  subst hf
  have := nFail_nofail h
  omega

/-- C18 (merge), safety as originally stated, for at most one failing member (in particular when nobody fails). -/
theorem merge_par_safe_one {α : Type} (n : Nat) (fails : Bool) (ths : List (Thread (Loc α) α α)) (h : Members n fails ths)
    (h1 : nFail ths ≤ 1) :
    ∀ s, PReach (machine α n) (start n ths) s →
      s.obs.greets ≤ 1 ∧ s.obs.terms + s.obs.errs ≤ 1 ∧ s.obs.panics = 0 ∧ (fails = false → s.obs.errs = 0) := by
  intro s hr
  obtain ⟨a, b, c, d, e, f⟩ := merge_par_safe n fails ths h s hr
  exact ⟨a, by omega, e, f⟩

theorem merge_par_safe_nofail {α : Type} (n : Nat) (ths : List (Thread (Loc α) α α)) (h : Members n false ths) :
    ∀ s, PReach (machine α n) (start n ths) s →
      s.obs.greets ≤ 1 ∧ s.obs.terms + s.obs.errs ≤ 1 ∧ s.obs.panics = 0 ∧ s.obs.errs = 0 := by
  intro s hr
  obtain ⟨a, b, c, d⟩ := merge_par_safe_one n false ths h (by rw [nFail_nofail h]; omega) s hr
  exact ⟨a, b, c, d rfl⟩

/-- C18 (merge), no failing member: completion is delivered only after every data delivery has returned, nothing follows it,
and no member is ever disposed. -/
theorem merge_par_order {α : Type} (n : Nat) (ths : List (Thread (Loc α) α α)) (h : Members n false ths) :
    ∀ s, PReach (machine α n) (start n ths) s →
      s.obs.termWhileData = false ∧ s.obs.afterTerm = 0 ∧ s.obs.upTerms = 0 := by
  intro s hr
  obtain ⟨_, b, c, d⟩ := (merge_par_inv n false ths h s hr).o (nFail_nofail h)
  exact ⟨d, c, b⟩

theorem tot_eq_zero {α} (f : α → Nat) (l : List α) (h : ∀ a ∈ l, f a = 0) : tot f l = 0 := by
  unfold tot
  induction l with
  | nil => rfl
  | cons a l ih =>
    simp only [List.map_cons, List.sum_cons, h a (List.mem_cons_self ..)]
    simpa using ih (fun b hb => h b (List.mem_cons_of_mem _ hb))

theorem tot_congr {α} (f g : α → Nat) (l : List α) (h : ∀ a ∈ l, f a = g a) : tot f l = tot g l := by
  unfold tot
  induction l with
  | nil => rfl
  | cons a l ih =>
    simp only [List.map_cons, List.sum_cons, h a (List.mem_cons_self ..)]
    rw [ih (fun b hb => h b (List.mem_cons_of_mem _ hb))]

/-- number of data deliveries in the members' scripts -/
def nDataAll {α} (ths : List (Th α)) : Nat := tot (fun th => nData th.script) ths

/-- C18 (merge), no failing member, count form of "no datum is lost or duplicated": no member is ever disposed, and at every
moment (data delivered to the sink) + (data still in the scripts or handed to merge and not yet passed on) is the number of
data in the scripts. -/
theorem merge_par_data {α : Type} (n : Nat) (ths : List (Thread (Loc α) α α)) (h : Members n false ths) :
    ∀ s, PReach (machine α n) (start n ths) s →
      s.obs.disposed = [] ∧ s.obs.datas.length + tot pend s.threads = nDataAll ths := by
  intro s hr
  have h0 : tot pend ths = nDataAll ths :=
    tot_congr _ _ _ (fun th hth => by simp [pend, (members_mem h th hth).1, fPend])
  rw [← h0]
  exact (merge_par_inv n false ths h s hr).d (nFail_nofail h)

/-- … in particular, once every thread has finished, the sink has received exactly as many data as the scripts contained. -/
theorem merge_par_data_done {α : Type} (n : Nat) (ths : List (Thread (Loc α) α α)) (h : Members n false ths) :
    ∀ s, PReach (machine α n) (start n ths) s → (∀ th ∈ s.threads, th.script = [] ∧ th.frame = none) →
      s.obs.datas.length = nDataAll ths := by
  intro s hr hfin
  have h1 := (merge_par_data n ths h s hr).2
  have h2 : tot pend s.threads = 0 :=
    tot_eq_zero _ _ (fun th hth => by simp [pend, (hfin th hth).1, (hfin th hth).2, nData, fPend])
  omega

/-! ## Counterexamples -/

theorem twoFail_members : Members 2 true twoFail := by
  refine ⟨rfl, fun i hi => ?_⟩
  have : i = 0 ∨ i = 1 := by simp [twoFail] at hi; omega
  rcases this with rfl | rfl
  · exact ⟨rfl, rfl, [], [.srcDown 0 (.err 7)], rfl, Or.inr (Or.inr ⟨rfl, 7, rfl⟩)⟩
  · exact ⟨rfl, rfl, [], [.srcDown 1 (.err 8)], rfl, Or.inr (Or.inr ⟨rfl, 8, rfl⟩)⟩

/-- `terms + errs ≤ 1` is FALSE with two failing members: both `Error` handlers are entered before either has stored `ended`;
the sink receives two `Error`s (the second one after its terminal). -/
theorem merge_par_two_errors :
    ∃ ths, Members 2 true ths ∧ ∃ s, PReach (machine Nat 2) (start 2 ths) s ∧ s.obs.errs = 2 ∧ s.obs.afterTerm = 1 := by
  have h : ∃ s, runSched (machine Nat 2) (start 2 twoFail) twoFailSched = some s ∧ s.obs.errs = 2 ∧ s.obs.afterTerm = 1 :=
    ⟨_, rfl, rfl, rfl⟩
  obtain ⟨s, h1, h2⟩ := h
  exact ⟨twoFail, twoFail_members, s, runSched_reach _ _ _ _ h1, h2⟩

/-- member 0 greets; member 1 greets and delivers one datum -/
def earlyData : List (Thread (Loc Nat) Nat Nat) :=
  [ { script := [.srcGreet 0] }, { script := [.srcGreet 1, .srcDown 1 (.data 5)] } ]
/-- member 0 obtains the ticket `startCount = 1` and is preempted before it greets the sink; member 1's greeting returns,
its datum is delivered -/
def earlyDataSched : List Nat := [0,0,0, 1,1,1,1, 1,1]

/-- member 0 greets and fails; member 1 greets and delivers one datum -/
def lateData : List (Thread (Loc Nat) Nat Nat) :=
  [ { script := [.srcGreet 0, .srcDown 0 (.err 7)] }, { script := [.srcGreet 1, .srcDown 1 (.data 5)] } ]
/-- member 1's data delivery has entered merge when member 0's `Error` is handled (member 1 is disposed, the sink gets `Error`);
then member 1's delivery goes on -/
def lateDataSched : List Nat := [0,0,0,0,0,0, 1,1,1,1, 1, 0,0,0,0,0,0,0, 1]

theorem earlyData_members : Members 2 false earlyData := by
  refine ⟨rfl, fun i hi => ?_⟩
  have : i = 0 ∨ i = 1 := by simp [earlyData] at hi; omega
  rcases this with rfl | rfl
  · exact ⟨rfl, rfl, [], [], rfl, Or.inl rfl⟩
  · exact ⟨rfl, rfl, [5], [], rfl, Or.inl rfl⟩

theorem lateData_members : Members 2 true lateData := by
  refine ⟨rfl, fun i hi => ?_⟩
  have : i = 0 ∨ i = 1 := by simp [lateData] at hi; omega
  rcases this with rfl | rfl
  · exact ⟨rfl, rfl, [], [.srcDown 0 (.err 7)], rfl, Or.inr (Or.inr ⟨rfl, 7, rfl⟩)⟩
  · exact ⟨rfl, rfl, [5], [], rfl, Or.inl rfl⟩

/-- The sink can receive `Data` BEFORE its greeting (nobody fails): the member holding the ticket `startCount = 1` has not
yet called `sink(Handshake)` when another member, whose own greeting has returned, delivers.  So "greeted exactly once as soon
as any member's greeting has returned" is FALSE; only `greets ≤ 1` holds. -/
theorem merge_par_data_before_greet :
    ∃ ths, Members 2 false ths ∧ ∃ s, PReach (machine Nat 2) (start 2 ths) s ∧ s.obs.greets = 0 ∧ s.obs.datas = [5] := by
  have h : ∃ s, runSched (machine Nat 2) (start 2 earlyData) earlyDataSched = some s ∧ s.obs.greets = 0 ∧ s.obs.datas = [5] :=
    ⟨_, rfl, rfl, rfl⟩
  obtain ⟨s, h1, h2⟩ := h
  exact ⟨earlyData, earlyData_members, s, runSched_reach _ _ _ _ h1, h2⟩

/-- With ONE failing member the sink can receive `Data` after the `Error` (a delivery already inside merge is not stopped):
this is why `merge_par_order` is stated for `fails = false`. -/
theorem merge_par_data_after_error :
    ∃ ths, Members 2 true ths ∧ nFail ths = 1 ∧
      ∃ s, PReach (machine Nat 2) (start 2 ths) s ∧ s.obs.errs = 1 ∧ s.obs.afterTerm = 1 ∧ s.obs.datas = [5] := by
  have h : ∃ s, runSched (machine Nat 2) (start 2 lateData) lateDataSched = some s ∧
      s.obs.errs = 1 ∧ s.obs.afterTerm = 1 ∧ s.obs.datas = [5] := ⟨_, rfl, rfl, rfl, rfl⟩
  obtain ⟨s, h1, h2⟩ := h
  exact ⟨lateData, lateData_members, rfl, s, runSched_reach _ _ _ _ h1, h2⟩

end Cb.MergePar

#print axioms Cb.MergePar.merge_par_safe
#print axioms Cb.MergePar.merge_par_safe_one
#print axioms Cb.MergePar.merge_par_safe_nofail
#print axioms Cb.MergePar.merge_par_order
#print axioms Cb.MergePar.merge_par_data
#print axioms Cb.MergePar.merge_par_data_done
#print axioms Cb.MergePar.merge_par_two_errors
#print axioms Cb.MergePar.merge_par_data_before_greet
#print axioms Cb.MergePar.merge_par_data_after_error
