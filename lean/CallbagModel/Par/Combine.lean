import CallbagModel.Par
import CallbagModel.Ops.Combine
/-!
# combine! under racing members (C18, combine part)

The `n` members deliver from `n` threads, every interleaving of the machine's micro-steps (`pstep`).

* `combine_par_counts_partial`: for every arity, all member scripts and every schedule the sink is greeted at most once,
  completed at most once and never receives an `Error` (ticket argument on `n_start` / `n_end`).
* `combine_par_panics`: two members whose first data race make `unwrap()` panic (known finding KF4).

The invariant is stated directly on `PSys`: every thread carries a WEIGHT for each shared counter (the number of decrements
of that counter it may still perform = matching deliveries left in its script + 1 if its handler is before the decrement);
the sum of the weights never exceeds the counter, so truncated subtraction never bites, and the thread that obtains 0 is
unique. Inequalities (instead of equalities) make thread death (panic, disposal) harmless.
-/
namespace Cb.CombinePar
open Cb Cb.Combine
open Cb

/-! ## Statement vocabulary -/

/-- script of member `i`: greet, then data, then at most one terminal -/
def MemberScript {α : Type} (i : Nat) : List (In α) → Prop
  | [] => False
  | g :: rest => g = In.srcGreet i ∧ ∃ (ds : List α) (fin : List (In α)),
      rest = ds.map (fun a => In.srcDown i (Down.data a)) ++ fin ∧
      (fin = [] ∨ fin = [In.srcDown i Down.term] ∨ ∃ e, fin = [In.srcDown i (Down.err e)])

def Members {α : Type} (n : Nat) (ths : List (Thread (Loc α) α (List α))) : Prop :=
  ths.length = n ∧ ∀ i (h : i < ths.length), ths[i].frame = none ∧ MemberScript i ths[i].script

def start {α : Type} (n : Nat) (ths : List (Thread (Loc α) α (List α))) : PSys (St α) (Loc α) α (List α) :=
  { st := { nStart := n, nData := n, nEnd := n, vals := List.replicate n none, slots := List.replicate n false },
    threads := ths, obs := {} }

/-! ## Weights -/

def isGreet {α} : In α → Bool
  | .srcGreet _ => true
  | _ => false

def isFin {α} : In α → Bool
  | .srcDown _ .term => true
  | .srcDown _ (.err _) => true
  | _ => false

/-- the program point of a thread (the continuation, while a call is in progress) -/
def locOf {α} : Option (Frame (Loc α) (List α)) → Option (Loc α)
  | none => none
  | some (.run l) => some l
  | some (.wait _ l) => some l

/-- before the `n_start.fetch_sub` -/
def lG {α} : Option (Loc α) → Nat
  | some (.g0 _) => 1
  | some .g1 => 1
  | _ => 0
/-- holds the ticket `n_start == 0`, has not greeted yet -/
def lG2 {α} : Option (Loc α) → Nat
  | some .g2 => 1
  | _ => 0
/-- before the `n_end.fetch_sub` -/
def lE {α} : Option (Loc α) → Nat
  | some .e0 => 1
  | _ => 0
/-- holds the ticket `n_end == 0`, has not completed the sink yet -/
def lE1 {α} : Option (Loc α) → Nat
  | some .e1 => 1
  | _ => 0

abbrev Th (α : Type) := Thread (Loc α) α (List α)

def wG {α} (th : Th α) : Nat := th.script.countP isGreet + lG (locOf th.frame)
def wG2 {α} (th : Th α) : Nat := lG2 (locOf th.frame)
def wE {α} (th : Th α) : Nat := th.script.countP isFin + lE (locOf th.frame)
def wE1 {α} (th : Th α) : Nat := lE1 (locOf th.frame)

structure Inv {α} (s : PSys (St α) (Loc α) α (List α)) : Prop where
  gs : (s.threads.map wG).sum ≤ s.st.nStart
  g2 : s.obs.greets + (s.threads.map wG2).sum + min s.st.nStart 1 ≤ 1
  es : (s.threads.map wE).sum ≤ s.st.nEnd
  e1 : s.obs.terms + (s.threads.map wE1).sum + min s.st.nEnd 1 ≤ 1
  er : s.obs.errs = 0

/-! ## General lemmas -/

theorem sum_set {T} (f : T → Nat) (l : List T) (i : Nat) (h : i < l.length) (x : T) :
    ((l.set i x).map f).sum + f l[i] = (l.map f).sum + f x := by
  induction l generalizing i with
  | nil => simp at h
  | cons a l ih =>
    cases i with
    | zero => simp; omega
    | succ i =>
      have := ih i (by simpa using h)
      simp at this ⊢; omega

theorem sum_le_length {T} (f : T → Nat) (l : List T) (h : ∀ x ∈ l, f x ≤ 1) : (l.map f).sum ≤ l.length := by
  induction l with
  | nil => simp
  | cons a l ih =>
    have h1 := h a (by simp)
    have h2 := ih (fun x hx => h x (by simp [hx]))
    simp; omega

theorem sum_eq_zero {T} (f : T → Nat) (l : List T) (h : ∀ x ∈ l, f x = 0) : (l.map f).sum = 0 := by
  induction l with
  | nil => simp
  | cons a l ih =>
    have h1 := h a (by simp)
    have h2 := ih (fun x hx => h x (by simp [hx]))
    simp; omega

/-! ## What the recorder counts -/

theorem sinkMsg_greets {β} (o : Obs β) : o.sinkMsg.greets = o.greets := by unfold Obs.sinkMsg; split <;> rfl
theorem sinkMsg_terms {β} (o : Obs β) : o.sinkMsg.terms = o.terms := by unfold Obs.sinkMsg; split <;> rfl
theorem sinkMsg_errs {β} (o : Obs β) : o.sinkMsg.errs = o.errs := by unfold Obs.sinkMsg; split <;> rfl

def outGreet {β} : Out β → Nat
  | .greet _ => 1
  | _ => 0
def outTerm {β} : Out β → Nat
  | .down _ .term => 1
  | _ => 0
def outErr {β} : Out β → Nat
  | .down _ (.err _) => 1
  | _ => 0

theorem onOut_counts {β} (ob : Obs β) (o : Out β) :
    (ob.onOut o).greets = ob.greets + outGreet o ∧ (ob.onOut o).terms = ob.terms + outTerm o ∧
    (ob.onOut o).errs = ob.errs + outErr o := by
  cases o with
  | greet k => simp [Obs.onOut, outGreet, outTerm, outErr, sinkMsg_terms, sinkMsg_errs]
  | down k d => cases d <;> simp [Obs.onOut, outGreet, outTerm, outErr, sinkMsg_terms, sinkMsg_errs, sinkMsg_greets]
  | subSrc i => simp [Obs.onOut, outGreet, outTerm, outErr]
  | srcUp i u => cases u <;> simp [Obs.onOut, outGreet, outTerm, outErr]
  | app b => simp [Obs.onOut, outGreet, outTerm, outErr]

theorem onRet_counts {β} (ob : Obs β) (o : Out β) :
    (ob.onRet o).greets = ob.greets ∧ (ob.onRet o).terms = ob.terms ∧ (ob.onRet o).errs = ob.errs := by
  cases o with
  | down k d => cases d <;> simp [Obs.onRet]
  | _ => simp [Obs.onRet]

/-! ## The invariant is preserved by every micro-step of every thread -/

theorem getElem_le_sum {T} (f : T → Nat) (l : List T) (i : Nat) (h : i < l.length) : f l[i] ≤ (l.map f).sum := by
  induction l generalizing i with
  | nil => simp at h
  | cons a l ih =>
    cases i with
    | zero => simp
    | succ i =>
      have := ih i (by simpa using h)
      simp at this ⊢; omega

/-- generic update: thread `t` is replaced, the counters and the record change -/
theorem inv_update {α} (s : PSys (St α) (Loc α) α (List α)) (t : Nat) (ht : t < s.threads.length)
    (hi : Inv s) (st' : St α) (th' : Th α) (ob' : Obs (List α))
    (hgs : wG th' + s.st.nStart ≤ wG s.threads[t] + st'.nStart)
    (hg2 : ob'.greets + wG2 th' + min st'.nStart 1 ≤ s.obs.greets + wG2 s.threads[t] + min s.st.nStart 1)
    (hes : wE th' + s.st.nEnd ≤ wE s.threads[t] + st'.nEnd)
    (he1 : ob'.terms + wE1 th' + min st'.nEnd 1 ≤ s.obs.terms + wE1 s.threads[t] + min s.st.nEnd 1)
    (her : ob'.errs = s.obs.errs) :
    Inv { st := st', threads := s.threads.set t th', obs := ob' } := by
  have a1 := sum_set wG s.threads t ht th'
  have a2 := sum_set wG2 s.threads t ht th'
  have a3 := sum_set wE s.threads t ht th'
  have a4 := sum_set wE1 s.threads t ht th'
  obtain ⟨h1, h2, h3, h4, h5⟩ := hi
  constructor <;> simp only [] <;> omega

set_option linter.unusedSimpArgs false in
theorem inv_step {α} (n : Nat) (s b : PSys (St α) (Loc α) α (List α)) (t : Nat) (hi : Inv s)
    (hs : pstep (machine α n) s t = some b) : Inv b := by
  unfold pstep at hs
  cases hth : s.threads[t]? with
  | none => simp [hth] at hs
  | some th =>
    obtain ⟨ht, hget⟩ := List.getElem?_eq_some_iff.mp hth
    have hwG : wG th ≤ s.st.nStart := by
      have := getElem_le_sum wG s.threads t ht; have := hi.gs; rw [hget] at *; omega
    have hwE : wE th ≤ s.st.nEnd := by
      have := getElem_le_sum wE s.threads t ht; have := hi.es; rw [hget] at *; omega
    have upd := inv_update s t ht hi
    rw [hget] at upd
    simp only [hth] at hs
    obtain ⟨script, frame⟩ := th
    cases frame with
    | none =>
      cases script with
      | nil => simp at hs
      | cons i rest =>
        simp only [] at hs
        split at hs
        · cases hs
          apply upd <;> simp [wG, wG2, wE, wE1, locOf, lG, lG2, lE, lE1]
        · cases hs
          cases i with
          | srcDown j d =>
            cases d <;> (apply upd <;> simp [machine, enter, wG, wG2, wE, wE1, locOf, lG, lG2, lE, lE1, isGreet, isFin, List.countP_cons] <;> omega)
          | _ => apply upd <;> simp [machine, enter, wG, wG2, wE, wE1, locOf, lG, lG2, lE, lE1, isGreet, isFin, List.countP_cons] <;> omega
    | some fr =>
      cases fr with
      | wait o l =>
        simp only [] at hs
        cases hs
        have := onRet_counts s.obs o
        apply upd <;> simp [wG, wG2, wE, wE1, locOf, *]
      | run l =>
        simp only [] at hs
        have hO := onOut_counts s.obs
        cases l with
        | done => simp [machine, step] at hs; cases hs; apply upd <;> simp [wG, wG2, wE, wE1, locOf, lG, lG2, lE, lE1]
        | subLoop i =>
          by_cases hc : i < n <;> simp [machine, step, hc] at hs <;> cases hs <;> apply upd <;> simp [wG, wG2, wE, wE1, locOf, lG, lG2, lE, lE1, hO, outGreet, outTerm, outErr]
        | g0 i => simp [machine, step] at hs; cases hs; apply upd <;> simp [wG, wG2, wE, wE1, locOf, lG, lG2, lE, lE1]
        | g1 =>
          simp only [machine, step] at hs; cases hs
          simp only [wG, locOf, lG] at hwG
          by_cases h0 : s.st.nStart - 1 = 0
          · apply upd <;> simp [wG, wG2, wE, wE1, locOf, lG, lG2, lE, lE1, h0] <;> omega
          · apply upd <;> simp [wG, wG2, wE, wE1, locOf, lG, lG2, lE, lE1, h0] <;> omega
        | g2 => simp [machine, step] at hs; cases hs; apply upd <;> simp [wG, wG2, wE, wE1, locOf, lG, lG2, lE, lE1, hO, outGreet, outTerm, outErr] <;> omega
        | d0 i a =>
          by_cases hc : (phAt s.st.vals i).isNone = true <;> simp [machine, step, hc] at hs <;> cases hs <;> apply upd <;> simp [wG, wG2, wE, wE1, locOf, lG, lG2, lE, lE1, hO, outGreet, outTerm, outErr]
        | d1 i a => simp [machine, step] at hs; cases hs; apply upd <;> simp [wG, wG2, wE, wE1, locOf, lG, lG2, lE, lE1]
        | d1b i a => simp [machine, step] at hs; cases hs; apply upd <;> simp [wG, wG2, wE, wE1, locOf, lG, lG2, lE, lE1]
        | d2 i a nd => simp [machine, step] at hs; cases hs; apply upd <;> simp [wG, wG2, wE, wE1, locOf, lG, lG2, lE, lE1]
        | d3 nd =>
          by_cases hc : nd = 0 <;> simp [machine, step, hc] at hs <;> cases hs <;> apply upd <;> simp [wG, wG2, wE, wE1, locOf, lG, lG2, lE, lE1, hO, outGreet, outTerm, outErr]
        | d4 =>
          cases hu : unwrapAll s.st.vals <;> simp [machine, step, hu] at hs <;> cases hs <;> apply upd <;> simp [wG, wG2, wE, wE1, locOf, lG, lG2, lE, lE1, hO, outGreet, outTerm, outErr]
        | d5 tu => simp [machine, step] at hs; cases hs; apply upd <;> simp [wG, wG2, wE, wE1, locOf, lG, lG2, lE, lE1, hO, outGreet, outTerm, outErr]
        | e0 =>
          simp only [machine, step] at hs; cases hs
          simp only [wE, locOf, lE] at hwE
          by_cases h0 : s.st.nEnd - 1 = 0
          · apply upd <;> simp [wG, wG2, wE, wE1, locOf, lG, lG2, lE, lE1, h0] <;> omega
          · apply upd <;> simp [wG, wG2, wE, wE1, locOf, lG, lG2, lE, lE1, h0] <;> omega
        | e1 => simp [machine, step] at hs; cases hs; apply upd <;> simp [wG, wG2, wE, wE1, locOf, lG, lG2, lE, lE1, hO, outGreet, outTerm, outErr] <;> omega
        | uLoop j u =>
          by_cases hc : j < n <;> by_cases hp : phAt s.st.slots j = true <;> simp [machine, step, hc, hp] at hs <;> cases hs <;> apply upd <;> simp [wG, wG2, wE, wE1, locOf, lG, lG2, lE, lE1, hO, outGreet, outTerm, outErr]

/-! ## The invariant holds when the race starts -/

theorem countP_data_greet {α} (i : Nat) (ds : List α) :
    (ds.map (fun a => In.srcDown i (Down.data a))).countP isGreet = 0 := by
  induction ds with
  | nil => rfl
  | cons a ds ih => simp [isGreet, ih]

theorem countP_data_fin {α} (i : Nat) (ds : List α) :
    (ds.map (fun a => In.srcDown i (Down.data a))).countP isFin = 0 := by
  induction ds with
  | nil => rfl
  | cons a ds ih => simp [isFin, ih]

theorem member_weights {α} (i : Nat) (th : Th α) (hf : th.frame = none) (hm : MemberScript i th.script) :
    wG th ≤ 1 ∧ wG2 th = 0 ∧ wE th ≤ 1 ∧ wE1 th = 0 := by
  obtain ⟨script, frame⟩ := th
  simp only [] at hf hm
  subst hf
  cases script with
  | nil => exact hm.elim
  | cons g rest =>
    obtain ⟨hg, ds, fin, hr, hfin⟩ := hm
    subst hg hr
    have h1 := countP_data_greet i ds
    have h2 := countP_data_fin i ds
    rcases hfin with h | h | ⟨e, h⟩ <;> subst h <;>
      simp [wG, wG2, wE, wE1, locOf, lG, lG2, lE, lE1, isGreet, isFin, List.countP_cons, List.countP_append, h1, h2]

theorem inv_start {α} (n : Nat) (ths : List (Th α)) (h : Members n ths) : Inv (start n ths) := by
  obtain ⟨hlen, hm⟩ := h
  have hall : ∀ th ∈ ths, wG th ≤ 1 ∧ wG2 th = 0 ∧ wE th ≤ 1 ∧ wE1 th = 0 := by
    intro th hth
    obtain ⟨i, hi, rfl⟩ := List.mem_iff_getElem.mp hth
    exact member_weights i _ (hm i hi).1 (hm i hi).2
  have s1 := sum_le_length wG ths (fun x hx => (hall x hx).1)
  have s2 := sum_eq_zero wG2 ths (fun x hx => (hall x hx).2.1)
  have s3 := sum_le_length wE ths (fun x hx => (hall x hx).2.2.1)
  have s4 := sum_eq_zero wE1 ths (fun x hx => (hall x hx).2.2.2)
  constructor <;> simp only [start] <;> omega

/-- C18 (combine), the part that holds: for every arity, all scripts and every schedule, the sink is greeted at most once and
completed at most once, and never receives an `Error`. -/
theorem combine_par_counts_partial {α : Type} (n : Nat) (ths : List (Thread (Loc α) α (List α))) (h : Members n ths) :
    ∀ s, PReach (machine α n) (start n ths) s → s.obs.greets ≤ 1 ∧ s.obs.terms ≤ 1 ∧ s.obs.errs = 0 := by
  intro s hr
  have hinv : Inv s := by
    induction hr with
    | init => exact inv_start n ths h
    | step t _ hs ih => exact inv_step n _ _ t ih hs
  obtain ⟨_, h2, _, h4, h5⟩ := hinv
  exact ⟨by omega, by omega, h5⟩

/-! ## The part that fails: the tuple is read before a racing member has stored its first value (KF4) -/

/-- run a schedule (a list of thread ids); `none` if some scheduled thread cannot move -/
def runSched {St Loc α β} (M : Machine St Loc α β) (s : PSys St Loc α β) : List Nat → Option (PSys St Loc α β)
  | [] => some s
  | t :: sched => match pstep M s t with
    | none => none
    | some s' => runSched M s' sched

theorem runSched_reach {St Loc α β} (M : Machine St Loc α β) (s0 : PSys St Loc α β) (sched : List Nat) :
    ∀ a, PReach M s0 a → ∀ s, runSched M a sched = some s → PReach M s0 s := by
  induction sched with
  | nil => intro a ha s h; simp [runSched] at h; exact h ▸ ha
  | cons t sched ih =>
    intro a ha s h
    unfold runSched at h
    cases hp : pstep M a t with
    | none => simp [hp] at h
    | some a' =>
      simp only [hp] at h
      exact ih a' (PReach.step t ha hp) s h

theorem exists_of_runSched {St Loc α β} (M : Machine St Loc α β) (s0 : PSys St Loc α β) (sched : List Nat)
    (p : PSys St Loc α β → Bool) (h : (runSched M s0 sched).any p = true) : ∃ s, PReach M s0 s ∧ p s = true := by
  cases hr : runSched M s0 sched with
  | none => simp [hr] at h
  | some s => exact ⟨s, runSched_reach M s0 sched s0 PReach.init s hr, by simpa [hr] using h⟩

/-- both members greet completely; thread 0 runs its data handler up to and including `d1` (`n_data` 2→1) but not the store
`d2`; thread 1 runs its whole data handler (`n_data` 1→0, stores, reads the tuple `[none, some 2]`) -/
def panicSched : List Nat := [0,0,0,0, 1,1,1,1,1,1, 0,0,0, 1,1,1,1,1,1]

/-- C18 (combine), the part that fails (known finding KF4): with two members whose FIRST data race, the thread that brings
`n_data` to 0 can read the tuple before the other thread has stored its value, and `unwrap()` panics. -/
theorem combine_par_panics :
    ∃ s, PReach (machine Nat 2) (start 2 [⟨[.srcGreet 0, .srcDown 0 (.data 1)], none⟩, ⟨[.srcGreet 1, .srcDown 1 (.data 2)], none⟩]) s ∧
      s.obs.panics = 1 := by
  obtain ⟨s, hr, hp⟩ := exists_of_runSched (machine Nat 2)
    (start 2 [⟨[.srcGreet 0, .srcDown 0 (.data 1)], none⟩, ⟨[.srcGreet 1, .srcDown 1 (.data 2)], none⟩]) panicSched
    (fun s => s.obs.panics == 1) (by decide)
  exact ⟨s, hr, by simpa using hp⟩

end Cb.CombinePar
#print axioms Cb.CombinePar.combine_par_counts_partial
#print axioms Cb.CombinePar.combine_par_panics
