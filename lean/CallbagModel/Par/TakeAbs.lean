/-!
# take(max) under racing deliveries: the abstract program-counter model and its all-schedules invariant

One program counter per thread, one shared configuration; `stepPC` is one micro-step (one shared access, or the begin / end of
a call). `Par/Take.lean` shows that the machine `Take.machine α max` run under the thread scheduler `pstep` refines this model.
-/
namespace Cb.TakeAbs

inductive PC where
  | idle
  | d2 (t : Nat) | inData (t : Nat) | d3 (t : Nat)
  | d3b | d4 | d5 | inUp | d6 | inDown
deriving DecidableEq, Repr

structure Cfg where
  taken : Nat
  fin : Bool
  pcs : List PC
  dataOuts : Nat
  upTerms : Nat
  downTerms : Nat
  maxDone : Nat      -- ghost: threads that left the "n-th item" path

/-- one micro-step of a thread at program point `pc` -/
def stepPC (max : Nat) (c : Cfg) : PC → Cfg × PC
  | .idle => if c.taken < max then ({ c with taken := c.taken + 1 }, .d2 (c.taken + 1)) else (c, .idle)   -- fetch_update
  | .d2 t => ({ c with dataOuts := c.dataOuts + 1 }, .inData t)                                         -- sink(Data) begins
  | .inData t => (c, .d3 t)                                                                              -- … returns
  | .d3 t => if t = max then (c, .d3b) else (c, .idle)
  | .d3b => if c.fin then ({ c with maxDone := c.maxDone + 1 }, .idle) else (c, .d4)                      -- end.load()
  | .d4 => ({ c with fin := true }, .d5)                                                                 -- end.store(true)
  | .d5 => ({ c with upTerms := c.upTerms + 1 }, .inUp)                                                  -- talkback(Terminate) begins
  | .inUp => (c, .d6)
  | .d6 => ({ c with downTerms := c.downTerms + 1 }, .inDown)                                            -- sink(Terminate) begins
  | .inDown => ({ c with maxDone := c.maxDone + 1 }, .idle)

def stepAt (max : Nat) (c : Cfg) (i : Nat) (h : i < c.pcs.length) : Cfg :=
  { (stepPC max c c.pcs[i]).1 with pcs := c.pcs.set i (stepPC max c c.pcs[i]).2 }

inductive Step (max : Nat) : Cfg → Cfg → Prop where
  | mk (c : Cfg) (i : Nat) (h : i < c.pcs.length) : Step max c (stepAt max c i h)

inductive Reach (max k : Nat) : Cfg → Prop where
  | init : Reach max k ⟨0, false, List.replicate k .idle, 0, 0, 0, 0⟩
  | step {a b} : Reach max k a → Step max a b → Reach max k b

def atD2 : PC → Bool | .d2 _ => true | _ => false
def onMaxPath (max : Nat) : PC → Bool
  | .d2 t => t == max | .inData t => t == max | .d3 t => t == max
  | .d3b | .d4 | .d5 | .inUp | .d6 | .inDown => true
  | .idle => false
def afterUp : PC → Bool | .inUp | .d6 | .inDown => true | _ => false
def afterDown : PC → Bool | .inDown => true | _ => false
def ticketOK (taken : Nat) : PC → Prop
  | .d2 t | .inData t | .d3 t => 0 < t ∧ t ≤ taken
  | _ => True

structure Inv (max : Nat) (c : Cfg) : Prop where
  le : c.taken ≤ max
  data : c.dataOuts + c.pcs.countP atD2 = c.taken
  uniq1 : c.taken = max → 0 < max → c.pcs.countP (onMaxPath max) + c.maxDone = 1
  uniq0 : c.taken < max ∨ max = 0 → c.pcs.countP (onMaxPath max) + c.maxDone = 0
  up : c.upTerms ≤ c.pcs.countP afterUp + c.maxDone
  down : c.downTerms ≤ c.pcs.countP afterDown + c.maxDone
  aU : ∀ pc ∈ c.pcs, afterUp pc = true → onMaxPath max pc = true
  tick : ∀ pc ∈ c.pcs, ticketOK c.taken pc

end Cb.TakeAbs

namespace Cb.TakeAbs
open List

theorem cnt_set {α} (p : α → Bool) (l : List α) (i : Nat) (h : i < l.length) (x : α) :
    (l.set i x).countP p + (if p l[i] then 1 else 0) = l.countP p + (if p x then 1 else 0) := by
  have h1 := List.countP_set (p := p) (l := l) (i := i) (a := x) h
  have h2 : (if p l[i] = true then 1 else 0) ≤ l.countP p := List.boole_getElem_le_countP (p := p) h
  omega

theorem forall_set {α} {P : α → Prop} {l : List α} {i : Nat} {x : α}
    (hl : ∀ a ∈ l, P a) (hx : P x) : ∀ a ∈ l.set i x, P a := by
  intro a ha
  rcases List.mem_or_eq_of_mem_set ha with h | h
  · exact hl a h
  · exact h ▸ hx

theorem tick_mono {t t' : Nat} {pc : PC} (h : ticketOK t pc) (hle : t ≤ t') : ticketOK t' pc := by
  cases pc <;> simp_all [ticketOK] <;> omega

macro "fin_inv" : tactic => `(tactic| (
  constructor <;> simp only [] <;> first
    | omega
    | (apply forall_set (by assumption); simp_all [afterUp, onMaxPath, ticketOK]; done)
    | (apply forall_set (by assumption); simp_all [afterUp, onMaxPath, ticketOK]; omega)))

theorem inv_stepAt (max : Nat) (c : Cfg) (i : Nat) (h : i < c.pcs.length) (hi : Inv max c) :
    Inv max (stepAt max c i h) := by
  have hmem : c.pcs[i] ∈ c.pcs := List.getElem_mem h
  have htk := hi.tick _ hmem
  have hau := hi.aU _ hmem
  have e1 := fun x => cnt_set atD2 c.pcs i h x
  have e2 := fun x => cnt_set (onMaxPath max) c.pcs i h x
  have e3 := fun x => cnt_set afterUp c.pcs i h x
  have e4 := fun x => cnt_set afterDown c.pcs i h x
  obtain ⟨hle, hdata, hu1, hu0, hup, hdown, haU, htick⟩ := hi
  unfold stepAt
  generalize c.pcs[i] = pc at *
  cases pc with
  | idle =>
    by_cases hlt : c.taken < max
    · have e1 := e1 (.d2 (c.taken + 1)); have e2 := e2 (.d2 (c.taken + 1))
      have e3 := e3 (.d2 (c.taken + 1)); have e4 := e4 (.d2 (c.taken + 1))
      simp only [stepPC, hlt, if_true]
      have htick' : ∀ pc ∈ c.pcs, ticketOK (c.taken + 1) pc := fun pc hp => tick_mono (htick pc hp) (by omega)
      by_cases hm : max = c.taken + 1
      · subst hm; simp [atD2, onMaxPath, afterUp, afterDown] at e1 e2 e3 e4
        constructor <;> simp only [] <;> first
          | omega
          | exact forall_set haU (by simp [afterUp])
          | exact forall_set htick' (by simp [ticketOK])
      · have hm' : ¬ c.taken + 1 = max := fun h => hm h.symm
        simp [atD2, onMaxPath, afterUp, afterDown, hm'] at e1 e2 e3 e4
        constructor <;> simp only [] <;> first
          | omega
          | exact forall_set haU (by simp [afterUp])
          | exact forall_set htick' (by simp [ticketOK])
    · have e1 := e1 .idle; have e2 := e2 .idle; have e3 := e3 .idle; have e4 := e4 .idle
      simp only [stepPC, hlt, if_false]
      simp [atD2, onMaxPath, afterUp, afterDown] at e1 e2 e3 e4
      constructor <;> simp only [] <;> first
        | omega
        | exact forall_set haU (by simp [afterUp])
        | exact forall_set htick (by simp [ticketOK])
  | d2 t =>
    have e1 := e1 (.inData t); have e2 := e2 (.inData t); have e3 := e3 (.inData t); have e4 := e4 (.inData t)
    simp only [stepPC]
    simp [atD2, onMaxPath, afterUp, afterDown] at e1 e2 e3 e4
    simp [ticketOK] at htk
    constructor <;> simp only [] <;> first
      | omega
      | exact forall_set haU (by simp [afterUp])
      | exact forall_set htick (by simp [ticketOK]; omega)
  | inData t =>
    have e1 := e1 (.d3 t); have e2 := e2 (.d3 t); have e3 := e3 (.d3 t); have e4 := e4 (.d3 t)
    simp only [stepPC]
    simp [atD2, onMaxPath, afterUp, afterDown] at e1 e2 e3 e4
    simp [ticketOK] at htk
    constructor <;> simp only [] <;> first
      | omega
      | exact forall_set haU (by simp [afterUp])
      | exact forall_set htick (by simp [ticketOK]; omega)
  | d3 t =>
    simp [ticketOK] at htk
    by_cases ht : t = max
    · subst ht
      have e1 := e1 .d3b; have e2 := e2 .d3b; have e3 := e3 .d3b; have e4 := e4 .d3b
      simp only [stepPC, if_true]
      simp [atD2, onMaxPath, afterUp, afterDown] at e1 e2 e3 e4
      constructor <;> simp only [] <;> first
        | omega
        | exact forall_set haU (by simp [afterUp])
        | exact forall_set htick (by simp [ticketOK])
    · have e1 := e1 .idle; have e2 := e2 .idle; have e3 := e3 .idle; have e4 := e4 .idle
      simp only [stepPC, ht, if_false]
      simp [atD2, onMaxPath, afterUp, afterDown, ht] at e1 e2 e3 e4
      constructor <;> simp only [] <;> first
        | omega
        | exact forall_set haU (by simp [afterUp])
        | exact forall_set htick (by simp [ticketOK])
  | d3b =>
    by_cases hf : c.fin = true
    · have e1 := e1 .idle; have e2 := e2 .idle; have e3 := e3 .idle; have e4 := e4 .idle
      simp only [stepPC, hf, if_true]
      simp [atD2, onMaxPath, afterUp, afterDown] at e1 e2 e3 e4
      constructor <;> simp only [] <;> first
        | omega
        | exact forall_set haU (by simp [afterUp])
        | exact forall_set htick (by simp [ticketOK])
    · have e1 := e1 .d4; have e2 := e2 .d4; have e3 := e3 .d4; have e4 := e4 .d4
      have hf' : c.fin = false := by simpa using hf
      simp only [stepPC, hf', Bool.false_eq_true, if_false]
      simp [atD2, onMaxPath, afterUp, afterDown] at e1 e2 e3 e4
      constructor <;> simp only [] <;> first
        | omega
        | exact forall_set haU (by simp [afterUp])
        | exact forall_set htick (by simp [ticketOK])
  | d4 =>
    have e1 := e1 .d5; have e2 := e2 .d5; have e3 := e3 .d5; have e4 := e4 .d5
    simp only [stepPC]
    simp [atD2, onMaxPath, afterUp, afterDown] at e1 e2 e3 e4
    constructor <;> simp only [] <;> first
      | omega
      | exact forall_set haU (by simp [afterUp])
      | exact forall_set htick (by simp [ticketOK])
  | d5 =>
    have e1 := e1 .inUp; have e2 := e2 .inUp; have e3 := e3 .inUp; have e4 := e4 .inUp
    simp only [stepPC]
    simp [atD2, onMaxPath, afterUp, afterDown] at e1 e2 e3 e4
    constructor <;> simp only [] <;> first
      | omega
      | exact forall_set haU (by simp [afterUp, onMaxPath])
      | exact forall_set htick (by simp [ticketOK])
  | inUp =>
    have e1 := e1 .d6; have e2 := e2 .d6; have e3 := e3 .d6; have e4 := e4 .d6
    simp only [stepPC]
    simp [atD2, onMaxPath, afterUp, afterDown] at e1 e2 e3 e4
    constructor <;> simp only [] <;> first
      | omega
      | exact forall_set haU (by simp [afterUp, onMaxPath])
      | exact forall_set htick (by simp [ticketOK])
  | d6 =>
    have e1 := e1 .inDown; have e2 := e2 .inDown; have e3 := e3 .inDown; have e4 := e4 .inDown
    simp only [stepPC]
    simp [atD2, onMaxPath, afterUp, afterDown] at e1 e2 e3 e4
    constructor <;> simp only [] <;> first
      | omega
      | exact forall_set haU (by simp [afterUp, onMaxPath])
      | exact forall_set htick (by simp [ticketOK])
  | inDown =>
    have e1 := e1 .idle; have e2 := e2 .idle; have e3 := e3 .idle; have e4 := e4 .idle
    simp only [stepPC]
    simp [atD2, onMaxPath, afterUp, afterDown] at e1 e2 e3 e4
    constructor <;> simp only [] <;> first
      | omega
      | exact forall_set haU (by simp [afterUp])
      | exact forall_set htick (by simp [ticketOK])

theorem inv_init (max k : Nat) : Inv max ⟨0, false, List.replicate k .idle, 0, 0, 0, 0⟩ := by
  have h1 : (List.replicate k PC.idle).countP atD2 = 0 := by simp [List.countP_replicate, atD2]
  have h2 : (List.replicate k PC.idle).countP (onMaxPath max) = 0 := by simp [List.countP_replicate, onMaxPath]
  constructor <;> simp only [] <;> first
    | omega
    | (intro pc hp; rw [List.eq_of_mem_replicate hp]; simp [afterUp, ticketOK])

/-- C19 core: whatever the number of threads and the schedule, take(max) with an atomic slot claim delivers at
most `max` data, terminates upstream at most once and the sink at most once. -/
theorem take_race_free (max k : Nat) (c : Cfg) (h : Reach max k c) :
    c.dataOuts ≤ max ∧ c.upTerms ≤ 1 ∧ c.downTerms ≤ 1 := by
  have hinv : Inv max c := by
    induction h with
    | init => exact inv_init max k
    | step _ hs ih => cases hs with | mk i h => exact inv_stepAt max _ i h ih
  obtain ⟨hle, hdata, hu1, hu0, hup, hdown, haU, _⟩ := hinv
  have hUM : c.pcs.countP afterUp ≤ c.pcs.countP (onMaxPath max) :=
    List.countP_mono_left (fun pc hp hq => haU pc hp hq)
  have hDU : c.pcs.countP afterDown ≤ c.pcs.countP afterUp :=
    List.countP_mono_left (fun pc _ hq => by cases pc <;> simp_all [afterDown, afterUp])
  refine ⟨by omega, ?_, ?_⟩ <;>
  · rcases Nat.lt_or_ge c.taken max with hlt | hge
    · have := hu0 (Or.inl hlt); omega
    · have hEq : c.taken = max := by omega
      rcases Nat.eq_zero_or_pos max with hz | hp
      · have := hu0 (Or.inr hz); omega
      · have := hu1 hEq hp; omega

end Cb.TakeAbs
#print axioms Cb.TakeAbs.take_race_free
