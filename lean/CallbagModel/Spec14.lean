import CallbagModel.Spec
import CallbagModel.Sem
/-!
# C14 — demand conservation: the pullable discipline as an environment restriction, and the property as a trace predicate

The environment of C14 (its own quantifier): upstreams answer each `Pull` with exactly one `Data` or their end and emit nothing
unrequested (S4); the sink sends at most one `Pull` per message it receives (its greeting or a datum).  Both are conditions on the
trace so far, hence executable; `pullable` is the `Restr` the theorems are stated for.
-/
namespace Cb
variable {St Loc α β : Type}

/-- answers upstream `i` has given: data and its end -/
def answersOf (i : Nat) : List (Ev α β) → Nat
  | [] => 0
  | .inp (.srcDown i' _) :: t => (if i' = i then 1 else 0) + answersOf i t
  | _ :: t => answersOf i t

/-- messages sink `k` has received that entitle it to a Pull: its greeting and every datum -/
def promptsTo (k : Nat) : List (Ev α β) → Nat
  | [] => 0
  | .out (.greet k') :: t => (if k' = k then 1 else 0) + promptsTo k t
  | .out (.down k' (.data _)) :: t => (if k' = k then 1 else 0) + promptsTo k t
  | _ :: t => promptsTo k t

/-- the pullable discipline, as a condition on the next environment move given the trace so far -/
def pullableB (tr : List (Ev α β)) : Move α → Bool
  | .call (.srcDown i _) => decide (answersOf i tr < pullsOut i tr)     -- only in answer to a Pull, one answer per Pull
  | .call (.sinkUp k .pull) => decide (pullsIn k tr < promptsTo k tr)   -- at most one Pull per message received
  | _ => true

def pullable : Restr St Loc α β := fun s m => pullableB s.tr m = true

/-- upstream `i` is live according to the trace -/
def liveTr (i : Nat) (tr : List (Ev α β)) : Bool := srcGreeted i tr && !srcEnded i tr && upFinals i tr == 0
/-- upstream `i` has been subscribed and has not greeted yet -/
def pendingTr (i : Nat) (tr : List (Ev α β)) : Bool := (subscriptions tr).contains i && !srcGreeted i tr

/-- C14: never more Data than Pulls; and a Pull that has not been answered yet WILL be answered without further prompting:
the output is over, or a delivery to the sink is still in progress (the operator will look at the demand when it returns), or the
operator is in the middle of terminating an upstream (only a return is possible; it then delivers the terminal), or
some upstream the operator is subscribed to owes an answer / is about to greet (the operator re-issues the Pull at the greeting) -/
def demandOk (tr : List (Ev α β)) : Bool :=
  decide ((recvData 0 tr).length ≤ pullsIn 0 tr)
  && (if (recvData 0 tr).length < pullsIn 0 tr && finalsTo 0 tr == 0 then
        sinkDisposed 0 tr || deliveryDepth 0 tr > 0
        || (match openCalls tr with | some (.srcUp _ .term) :: _ => true | some (.srcUp _ (.err _)) :: _ => true | _ => false)
        || (subscriptions tr).any (fun i => (liveTr i tr && decide (answersOf i tr < pullsOut i tr)) || pendingTr i tr)
      else true)

/-- the environment part of a trace respects the pullable discipline at every move -/
def pullableTr : List (Ev α β) → Bool
  | [] => true
  | .inp i :: t => pullableB t (.call i) && pullableTr t
  | _ :: t => pullableTr t

end Cb
