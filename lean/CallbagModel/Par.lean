import CallbagModel.Core
/-!
# Interleaving semantics (C18, C19)

The same machines, a different scheduler: member threads deliver into one operator instance; the environment is
passive (a call made by the operator returns without re-entering); `pstep t` performs ONE micro-step of thread `t`:
start the next delivery of its script, one shared-state access, the begin or the end of a call to the environment,
or the end of the handler.  A schedule is any list of thread ids.
-/
namespace Cb

structure Thread (Loc α β : Type) where
  script : List (In α)
  frame : Option (Frame Loc β) := none
deriving BEq, Hashable

/-- what the recording environment observes -/
structure Obs (β : Type) where
  greets : Nat := 0
  datas : List β := []
  terms : Nat := 0
  errs : Nat := 0
  upTerms : Nat := 0
  inFlight : Nat := 0            -- data deliveries begun and not yet returned
  termWhileData : Bool := false  -- a completion was delivered while a data delivery was in progress
  afterTerm : Nat := 0           -- messages delivered to the sink after its terminal
  panics : Nat := 0
  disposed : List Nat := []      -- upstreams that have been sent Terminate / Error
deriving BEq, Hashable

structure PSys (St Loc α β : Type) where
  st : St
  threads : List (Thread Loc α β)
  obs : Obs β := {}
deriving BEq, Hashable

def Obs.sinkMsg {β} (o : Obs β) : Obs β := if o.terms + o.errs > 0 then { o with afterTerm := o.afterTerm + 1 } else o

def Obs.onOut {β} (o : Obs β) : Out β → Obs β
  | .greet _ => { o.sinkMsg with greets := o.greets + 1 }
  | .down _ (.data a) => { o.sinkMsg with datas := o.datas ++ [a], inFlight := o.inFlight + 1 }
  | .down _ .term => { o.sinkMsg with terms := o.terms + 1, termWhileData := o.termWhileData || decide (o.inFlight > 0) }
  | .down _ (.err _) => { o.sinkMsg with errs := o.errs + 1 }
  | .srcUp _ .pull => o
  | .srcUp i _ => { o with upTerms := o.upTerms + 1, disposed := if o.disposed.contains i then o.disposed else i :: o.disposed }
  | .subSrc _ => o
  | .app _ => o

def Obs.onRet {β} (o : Obs β) : Out β → Obs β
  | .down _ (.data _) => { o with inFlight := o.inFlight - 1 }
  | _ => o

/-- the upstream a delivery comes from -/
def memberOf {α} : In α → Nat
  | .srcGreet i => i
  | .srcDown i _ => i
  | _ => 0

/-- one step of thread `t`; `none` if the thread is finished (or does not exist) -/
def pstep {St Loc α β} (M : Machine St Loc α β) (s : PSys St Loc α β) (t : Nat) : Option (PSys St Loc α β) :=
  match s.threads[t]? with
  | none => none
  | some th =>
    let setT (th' : Thread Loc α β) := s.threads.set t th'
    match th.frame with
    | none => match th.script with
      | [] => none
      | i :: rest =>
        -- a member thread is a conformant source: it checks, in a step of its own, whether it has been disposed
        if s.obs.disposed.contains (memberOf i) then some { s with threads := setT { script := [], frame := none } }
        else some { s with threads := setT { script := rest, frame := some (.run (M.enter i)) } }
    | some (.wait o l) => some { s with threads := setT { th with frame := some (.run l) }, obs := s.obs.onRet o }
    | some (.run l) =>
      match M.step s.st l with
      | .tau st' l' => some { s with st := st', threads := setT { th with frame := some (.run l') } }
      | .call o st' l' => some { s with st := st', threads := setT { th with frame := some (.wait o l') }, obs := s.obs.onOut o }
      | .ret => some { s with threads := setT { th with frame := none } }
      | .panic _ => some { s with threads := setT { script := [], frame := none }, obs := { s.obs with panics := s.obs.panics + 1 } }

/-- reachable by any schedule -/
inductive PReach {St Loc α β} (M : Machine St Loc α β) (s0 : PSys St Loc α β) : PSys St Loc α β → Prop where
  | init : PReach M s0 s0
  | step {a b} (t : Nat) : PReach M s0 a → pstep M a t = some b → PReach M s0 b

/-- run one thread to completion (used to set a scenario up before the race starts) -/
def runAlone {St Loc α β} (M : Machine St Loc α β) : Nat → PSys St Loc α β → Nat → PSys St Loc α β
  | 0, s, _ => s
  | fuel + 1, s, t => match pstep M s t with
    | none => s
    | some s' => runAlone M fuel s' t

end Cb
