def hello := "world"
