/-!
# Callbag abstract machine: vocabulary, ghost monitor, small-step semantics

Import-free and executable: the same definitions are used by the theorems and by the driver that
replays environment scripts and checks traces recorded from the real crate.

* `Down`/`Up`        messages after the handshake (source → sink / sink → source on a talkback)
* `In`/`Out`         calls crossing the operator boundary (environment → operator / operator → environment)
* `Machine`          an operator: one micro-step per shared-state access, per call, or return
* `G`                ghost protocol state: phases of every sink / source + the list of violations (the monitor)
* `Sys`              configuration: operator state, explicit call stack, ghost, trace, panic flag
* `opStep`/`envMove` the two halves of the semantics
-/
namespace Cb

inductive Down (β : Type) where
  | data (b : β) | term | err (e : Nat)
deriving DecidableEq, Repr, BEq, Hashable, Inhabited

inductive Up where
  | pull | term | err (e : Nat)
deriving DecidableEq, Repr, BEq, Hashable, Inhabited

/-- calls made by the environment into the operator -/
inductive In (α : Type) where
  | subscribe (k : Nat)             -- sink `k` subscribes: `operator(Handshake(sink_k))`
  | sinkUp (k : Nat) (u : Up)       -- sink `k` uses the talkback it was given
  | srcGreet (i : Nat)              -- upstream `i` greets: `cb_i(Handshake(talkback_i))`
  | srcDown (i : Nat) (d : Down α)  -- upstream `i` delivers
deriving DecidableEq, Repr, BEq, Hashable, Inhabited

/-- calls made by the operator into the environment -/
inductive Out (β : Type) where
  | greet (k : Nat)                 -- `sink_k(Handshake(talkback))`
  | down (k : Nat) (d : Down β)     -- `sink_k(Data / Terminate / Error)`
  | subSrc (i : Nat)                -- `source_i(Handshake(cb_i))`
  | srcUp (i : Nat) (u : Up)        -- `talkback_i(Pull / Terminate / Error)`
  | app (b : β)                     -- `f(b)`: a user closure is applied (for_each)
deriving DecidableEq, Repr, BEq, Hashable, Inhabited

inductive Act (St Loc β : Type) where
  | ret
  | tau (s : St) (l : Loc)
  | call (o : Out β) (s : St) (l : Loc)
  | panic (msg : String)

/-- static description of the environment an operator lives in -/
structure Shape where
  nSrc : Nat := 1            -- statically known upstream sources 0..nSrc-1
  lateGreet : Bool := false  -- members may greet after the subscribing call returned (merge)
  multiSink : Bool := false  -- several sinks may attach (share)
  relayErr : Bool := true    -- a sink `Error(e)` must travel upstream as `Error(e)` (pass-through operators)
deriving Repr

structure Machine (St Loc α β : Type) where
  shape : Shape
  init : St
  enter : In α → Loc
  step : St → Loc → Act St Loc β

inductive Frame (Loc β : Type) where
  | run (l : Loc)
  | wait (o : Out β) (l : Loc)
deriving Repr, BEq, Hashable

inductive SinkPh where | idle | subscribed | live | doneBySrc | doneBySelf
deriving DecidableEq, Repr, BEq, Hashable, Inhabited
inductive SrcPh where | idle | subscribed | live | ended | disposed
deriving DecidableEq, Repr, BEq, Hashable, Inhabited

/-- what kind of terminal a sink received -/
inductive Fin where | term | err (e : Nat)
deriving DecidableEq, Repr, BEq, Hashable, Inhabited

/-- the ways an operator can break the protocol; each belongs to one property -/
inductive Viol where
  | greetPhase (k : Nat) (p : SinkPh)        -- C01: greeted a sink that is not waiting for its greeting
  | ungreeted (k : Nat)                      -- C01: delivered to a sink not greeted yet
  | afterTerm (k : Nat)                      -- C02: delivered after the sink's terminal
  | afterDispose (k : Nat)                   -- C03: delivered after the sink disposed
  | subTwice (i : Nat)                       -- C04: upstream subscribed twice
  | subAfterOver (i : Nat)                   -- C04: upstream subscribed once the output is over
  | upNotLive (i : Nat) (p : SrcPh)          -- C04: Pull/Terminate/Error to an upstream that is not live
  | errNotRelayed (i : Nat)                  -- C04: sink sent Error(e), upstream got something else
  | orphan (i : Nat)                         -- C04: output over, control back at top level, upstream still live
  | errLost (e : Nat) (k : Nat)              -- C05: upstream error not delivered (unchanged, once) to live sink k
  | errSibling (e : Nat) (i : Nat)           -- C05: upstream i still live after another upstream's error was handled
deriving DecidableEq, Repr, BEq, Hashable, Inhabited

/-- the property a violation belongs to -/
def Viol.prop : Viol → Nat
  | .greetPhase .. => 1 | .ungreeted .. => 1
  | .afterTerm .. => 2
  | .afterDispose .. => 3
  | .subTwice .. => 4 | .subAfterOver .. => 4 | .upNotLive .. => 4 | .errNotRelayed .. => 4 | .orphan .. => 4
  | .errLost .. => 5 | .errSibling .. => 5

def phAt {α} [Inhabited α] (l : List α) (i : Nat) : α := l.getD i default

def setAt {α} [Inhabited α] : List α → Nat → α → List α
  | [], 0, a => [a]
  | [], i+1, a => default :: setAt [] i a
  | _ :: xs, 0, a => a :: xs
  | x :: xs, i+1, a => x :: setAt xs i a

/-- ghost protocol state and monitor -/
structure G where
  sink : List SinkPh := []
  src : List SrcPh := []
  fin : List (Option Fin) := []                  -- per sink: terminal received
  sinkErr : Option (Nat × Nat) := none           -- (error a sink is sending upstream, stack height of that call)
  pend : Option (Nat × Nat × List Nat) := none   -- (error id, stack height at arrival, sinks live at arrival)
  viols : List Viol := []
deriving Repr, BEq, Hashable

def G.sinkPh (g : G) (k : Nat) : SinkPh := phAt g.sink k
def G.srcPh (g : G) (i : Nat) : SrcPh := phAt g.src i
def G.finOf (g : G) (k : Nat) : Option Fin := phAt g.fin k
def G.setSink (g : G) (k : Nat) (p : SinkPh) : G := { g with sink := setAt g.sink k p }
def G.setSrc (g : G) (i : Nat) (p : SrcPh) : G := { g with src := setAt g.src i p }
def G.flag (g : G) (v : Viol) : G := { g with viols := v :: g.viols }

/-- who has control when the environment moves -/
inductive Ctx (β : Type) where | top | inCall (o : Out β)
deriving DecidableEq, Repr

def ctxOf {Loc β} : List (Frame Loc β) → Option (Ctx β)
  | [] => some .top
  | .wait o _ :: _ => some (.inCall o)
  | .run _ :: _ => none

def isTop {β} : Ctx β → Bool | .top => true | _ => false
def inGreet {β} (k : Nat) : Ctx β → Bool | .inCall (.greet k') => k == k' | _ => false
def inData {β} (k : Nat) : Ctx β → Bool | .inCall (.down k' (.data _)) => k == k' | _ => false
def inSub {β} (i : Nat) : Ctx β → Bool | .inCall (.subSrc i') => i == i' | _ => false
def inPull {β} (i : Nat) : Ctx β → Bool | .inCall (.srcUp i' .pull) => i == i' | _ => false

/-- Legality of an environment call: the conformant-peer automaton (DESIGN §1.2, S0–S3 and K0–K2). -/
def legalIn {α β} (sh : Shape) (g : G) (c : Ctx β) : In α → Bool
  | .subscribe k => isTop c && g.sinkPh k == .idle && (k == 0 || sh.multiSink)
  | .sinkUp k _ => g.sinkPh k == .live && (isTop c || inGreet k c || inData k c)
  | .srcGreet i => g.srcPh i == .subscribed && (inSub i c || (sh.lateGreet && isTop c))
  | .srcDown i _ => g.srcPh i == .live && (isTop c || inSub i c || inPull i c)

/-- Legality of returning from a call made by the operator. -/
def legalRet {β} (sh : Shape) (g : G) : Ctx β → Bool
  | .top => false
  | .inCall (.subSrc i) => sh.lateGreet || g.srcPh i != .subscribed
  | .inCall _ => true

def livesOf (g : G) : List Nat := (List.range g.sink.length).filter (fun k => g.sinkPh k == .live)

def G.onIn {α} (g : G) (height : Nat) : In α → G
  | .subscribe k => g.setSink k .subscribed
  | .sinkUp _ .pull => g
  | .sinkUp k (.err e) => { g.setSink k .doneBySelf with sinkErr := some (e, height) }
  | .sinkUp k .term => g.setSink k .doneBySelf
  | .srcGreet i => g.setSrc i .live
  | .srcDown _ (.data _) => g
  | .srcDown i (.err e) =>
      let g' := g.setSrc i .ended
      if (livesOf g).isEmpty || g.pend.isSome then g' else { g' with pend := some (e, height, livesOf g) }
  | .srcDown i .term => g.setSrc i .ended

def anySinkOpen (g : G) : Bool := g.sink.any (fun p => p == .subscribed || p == .live)

def finOfDown {β} : Down β → Option Fin
  | .data _ => none | .term => some .term | .err e => some (.err e)

/-- operator outputs: update phases and record protocol violations by the operator -/
def G.onOut {β} (sh : Shape) (g : G) : Out β → G
  | .greet k => if g.sinkPh k == .subscribed then g.setSink k .live else g.flag (.greetPhase k (g.sinkPh k))
  | .down k d =>
      match g.sinkPh k with
      | .live => match finOfDown d with
        | none => g
        | some f => { g.setSink k .doneBySrc with fin := setAt g.fin k (some f) }
      | .idle => g.flag (.ungreeted k)
      | .subscribed => g.flag (.ungreeted k)
      | .doneBySrc => g.flag (.afterTerm k)
      | .doneBySelf => g.flag (.afterDispose k)
  | .subSrc i =>
      if g.srcPh i != .idle then g.flag (.subTwice i)
      else if !anySinkOpen g then g.flag (.subAfterOver i)
      else g.setSrc i .subscribed
  | .srcUp i .pull => if g.srcPh i == .live then g else g.flag (.upNotLive i (g.srcPh i))
  | .srcUp i .term =>
      if g.srcPh i == .live then
        if sh.relayErr && g.sinkErr.isSome then (g.setSrc i .disposed).flag (.errNotRelayed i) else g.setSrc i .disposed
      else g.flag (.upNotLive i (g.srcPh i))
  | .srcUp i (.err e') =>
      if g.srcPh i == .live then
        match g.sinkErr with
        | some (e, _) => if sh.relayErr && e != e' then (g.setSrc i .disposed).flag (.errNotRelayed i) else g.setSrc i .disposed
        | none => g.setSrc i .disposed
      else g.flag (.upNotLive i (g.srcPh i))
  | .app _ => g

def liveSrcs (g : G) : List Nat := (List.range g.src.length).filter (fun i => g.srcPh i == .live)

/-- checks made when an operator handler returns, `height` = stack height after the return -/
def G.onRetO (g0 : G) (height : Nat) : G :=
  let g0 := match g0.sinkErr with
    | some (_, h) => if h == height then { g0 with sinkErr := none } else g0
    | none => g0
  let g := match g0.pend with
    | some (e, h, ks) =>
      if h == height then
        let g1 := { g0 with pend := none }
        let g2 := (ks.filter (fun k => g0.finOf k != some (.err e))).foldl (fun g k => g.flag (.errLost e k)) g1
        (liveSrcs g0).foldl (fun g i => g.flag (.errSibling e i)) g2
      else g0
    | none => g0
  if height == 0 && !anySinkOpen g && g.sink.length > 0 then
    (liveSrcs g).foldl (fun g i => g.flag (.orphan i)) g
  else g

/-- boundary events, newest first in `Sys.tr` -/
inductive Ev (α β : Type) where
  | inp (i : In α)     -- environment calls the operator
  | out (o : Out β)    -- operator calls the environment
  | retE               -- environment returns from the innermost open `out`
  | retO               -- operator returns from the innermost open `inp`
  | panic              -- operator panicked
deriving DecidableEq, Repr, BEq, Hashable, Inhabited

structure Sys (St Loc α β : Type) where
  st : St
  stack : List (Frame Loc β)
  g : G := {}
  tr : List (Ev α β) := []
  panicked : Option String := none

def Sys.init {St Loc α β} (M : Machine St Loc α β) : Sys St Loc α β := { st := M.init, stack := [] }

/-- one deterministic operator step; `none` when it is the environment's turn or after a panic -/
def opStep {St Loc α β} (M : Machine St Loc α β) (s : Sys St Loc α β) : Option (Sys St Loc α β) :=
  if s.panicked.isSome then none else
  match s.stack with
  | .run l :: stk =>
    match M.step s.st l with
    | .tau s' l' => some { s with st := s', stack := .run l' :: stk }
    | .call o s' l' => some { s with st := s', stack := .wait o l' :: stk, g := s.g.onOut M.shape o, tr := .out o :: s.tr }
    | .ret => some { s with stack := stk, g := s.g.onRetO stk.length, tr := .retO :: s.tr }
    | .panic m => some { s with stack := stk, panicked := some m, tr := .panic :: s.tr }
  | _ => none

def advance {St Loc α β} (M : Machine St Loc α β) : Nat → Sys St Loc α β → Sys St Loc α β
  | 0, s => s
  | n+1, s => match opStep M s with
    | none => s
    | some s' => advance M n s'

inductive Move (α : Type) where | call (i : In α) | ret
deriving Repr, BEq, Inhabited, DecidableEq

def envMove {St Loc α β} (M : Machine St Loc α β) (s : Sys St Loc α β) : Move α → Option (Sys St Loc α β)
  | .call i =>
    if s.panicked.isSome then none else
    match ctxOf s.stack with
    | some c => if legalIn M.shape s.g c i then
        some { s with stack := .run (M.enter i) :: s.stack, g := s.g.onIn s.stack.length i, tr := .inp i :: s.tr } else none
    | none => none
  | .ret =>
    if s.panicked.isSome then none else
    match s.stack with
    | .wait o l :: stk => if legalRet M.shape s.g (.inCall o) then some { s with stack := .run l :: stk, tr := .retE :: s.tr } else none
    | _ => none

end Cb
