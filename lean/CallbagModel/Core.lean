/-!
# Callbag abstract machine: vocabulary, ghost monitor, small-step semantics

Import-free and executable: the same definitions are used by the theorems and by the driver that
replays environment scripts and checks traces recorded from the real crate.

* `Down`/`Up`        messages after the handshake (source → sink / sink → source on a talkback)
* `In`/`Out`         calls crossing the operator boundary (environment → operator / operator → environment)
* `Machine`          an operator: one micro-step per shared-state access, per call, or return
* `G`                ghost protocol state: phases of every sink / source + the list of violations (the monitor)
* `Sys`              configuration: operator state, explicit call stack, ghost, trace, panic flag
* `opStep`/`envMove` the two halves of the semantics
-/
namespace Cb

inductive Down (β : Type) where
  | data (b : β) | term | err (e : Nat)
deriving DecidableEq, Repr, BEq, Hashable, Inhabited

inductive Up where
  | pull | term | err (e : Nat)
deriving DecidableEq, Repr, BEq, Hashable, Inhabited

/-- calls made by the environment into the operator -/
inductive In (α : Type) where
  | subscribe (k : Nat)             -- sink `k` subscribes: `operator(Handshake(sink_k))`
  | sinkUp (k : Nat) (u : Up)       -- sink `k` uses the talkback it was given
  | srcGreet (i : Nat)              -- upstream `i` greets: `cb_i(Handshake(talkback_i))`
  | srcDown (i : Nat) (d : Down α)  -- upstream `i` delivers
deriving DecidableEq, Repr, BEq, Hashable, Inhabited

/-- calls made by the operator into the environment -/
inductive Out (β : Type) where
  | greet (k : Nat)                 -- `sink_k(Handshake(talkback))`
  | down (k : Nat) (d : Down β)     -- `sink_k(Data / Terminate / Error)`
  | subSrc (i : Nat)                -- `source_i(Handshake(cb_i))`
  | srcUp (i : Nat) (u : Up)        -- `talkback_i(Pull / Terminate / Error)`
  | app (b : β)                     -- `f(b)`: a user closure is applied (for_each)
deriving DecidableEq, Repr, BEq, Hashable, Inhabited

inductive Act (St Loc β : Type) where
  | ret
  | tau (s : St) (l : Loc)
  | call (o : Out β) (s : St) (l : Loc)
  | panic (msg : String)

/-- static description of the environment an operator lives in -/
structure Shape where
  nSrc : Nat := 1            -- statically known upstream sources 0..nSrc-1
  lateGreet : Bool := false  -- members may greet after the subscribing call returned (merge)
  multiSink : Bool := false  -- several sinks may attach (share)
  relayErr : Bool := true    -- a sink `Error(e)` must travel upstream as `Error(e)` (pass-through operators)
deriving Repr

structure Machine (St Loc α β : Type) where
  shape : Shape
  init : St
  enter : In α → Loc
  step : St → Loc → Act St Loc β

inductive Frame (Loc β : Type) where
  | run (l : Loc)
  | wait (o : Out β) (l : Loc)
deriving Repr, BEq, Hashable

inductive SinkPh where | idle | subscribed | live | doneBySrc | doneBySelf
deriving DecidableEq, Repr, Hashable, Inhabited
inductive SrcPh where | idle | subscribed | live | ended | disposed
deriving DecidableEq, Repr, Hashable, Inhabited

/-- what kind of terminal a sink received -/
inductive Fin where | term | err (e : Nat)
deriving DecidableEq, Repr, Hashable, Inhabited

/-- the ways an operator can break the protocol; each belongs to one property -/
inductive Viol where
  | greetPhase (k : Nat) (p : SinkPh)        -- C01: greeted a sink that is not waiting for its greeting
  | ungreeted (k : Nat)                      -- C01: delivered to a sink not greeted yet
  | afterTerm (k : Nat)                      -- C02: delivered after the sink's terminal
  | afterDispose (k : Nat)                   -- C03: delivered after the sink disposed
  | subTwice (i : Nat)                       -- C04: upstream subscribed twice
  | subAfterOver (i : Nat)                   -- C04: upstream subscribed once the output is over
  | upNotLive (i : Nat) (p : SrcPh)          -- C04: Pull/Terminate/Error to an upstream that is not live
  | errNotRelayed (i : Nat)                  -- C04: sink sent Error(e), upstream got something else
  | orphan (i : Nat)                         -- C04: output over, control back at top level, upstream still live
  | errLost (e : Nat) (k : Nat)              -- C05: upstream error not delivered (unchanged, once) to live sink k
  | errSibling (e : Nat) (i : Nat)           -- C05: upstream i still live after another upstream's error was handled
deriving DecidableEq, Repr, Hashable, Inhabited

/-- the property a violation belongs to -/
def Viol.prop : Viol → Nat
  | .greetPhase .. => 1 | .ungreeted .. => 1
  | .afterTerm .. => 2
  | .afterDispose .. => 3
  | .subTwice .. => 4 | .subAfterOver .. => 4 | .upNotLive .. => 4 | .errNotRelayed .. => 4 | .orphan .. => 4
  | .errLost .. => 5 | .errSibling .. => 5

def phAt {α} [Inhabited α] (l : List α) (i : Nat) : α := l.getD i default

def setAt {α} [Inhabited α] : List α → Nat → α → List α
  | [], 0, a => [a]
  | [], i+1, a => default :: setAt [] i a
  | _ :: xs, 0, a => a :: xs
  | x :: xs, i+1, a => x :: setAt xs i a

/-! ## Ghost state, layer 1: protocol phases (C01–C03, the protocol part of C04) -/

/-- phases of every sink and upstream, and the violations that depend on phases only -/
structure Ph where
  sink : List SinkPh := []
  src : List SrcPh := []
  viols : List Viol := []
deriving Repr, BEq, Hashable

def Ph.sinkPh (g : Ph) (k : Nat) : SinkPh := phAt g.sink k
def Ph.srcPh (g : Ph) (i : Nat) : SrcPh := phAt g.src i
def Ph.setSink (g : Ph) (k : Nat) (p : SinkPh) : Ph := { g with sink := setAt g.sink k p }
def Ph.setSrc (g : Ph) (i : Nat) (p : SrcPh) : Ph := { g with src := setAt g.src i p }
def Ph.flag (g : Ph) (v : Viol) : Ph := { g with viols := v :: g.viols }

def Ph.onIn {α} (g : Ph) : In α → Ph
  | .subscribe k => g.setSink k .subscribed
  | .sinkUp _ .pull => g
  | .sinkUp k .term => g.setSink k .doneBySelf
  | .sinkUp k (.err _) => g.setSink k .doneBySelf
  | .srcGreet i => g.setSrc i .live
  | .srcDown _ (.data _) => g
  | .srcDown i .term => g.setSrc i .ended
  | .srcDown i (.err _) => g.setSrc i .ended

def Ph.anySinkOpen (g : Ph) : Bool := g.sink.any (fun p => p == .subscribed || p == .live)

def isFinal {β} : Down β → Bool
  | .data _ => false | _ => true

/-- operator outputs: update phases and record protocol violations by the operator -/
def Ph.onOut {β} (g : Ph) : Out β → Ph
  | .greet k => if g.sinkPh k = .subscribed then g.setSink k .live else g.flag (.greetPhase k (g.sinkPh k))
  | .down k d =>
      match g.sinkPh k with
      | .live => if isFinal d then g.setSink k .doneBySrc else g
      | .idle => g.flag (.ungreeted k)
      | .subscribed => g.flag (.ungreeted k)
      | .doneBySrc => g.flag (.afterTerm k)
      | .doneBySelf => g.flag (.afterDispose k)
  | .subSrc i =>
      if g.srcPh i ≠ .idle then g.flag (.subTwice i)
      else if g.anySinkOpen = false then g.flag (.subAfterOver i)
      else g.setSrc i .subscribed
  | .srcUp i .pull => if g.srcPh i = .live then g else g.flag (.upNotLive i (g.srcPh i))
  | .srcUp i .term => if g.srcPh i = .live then g.setSrc i .disposed else g.flag (.upNotLive i (g.srcPh i))
  | .srcUp i (.err _) => if g.srcPh i = .live then g.setSrc i .disposed else g.flag (.upNotLive i (g.srcPh i))
  | .app _ => g

/-- who has control when the environment moves -/
inductive Ctx (β : Type) where | top | inCall (o : Out β)
deriving DecidableEq, Repr

def ctxOf {Loc β} : List (Frame Loc β) → Option (Ctx β)
  | [] => some .top
  | .wait o _ :: _ => some (.inCall o)
  | .run _ :: _ => none

def isTop {β} : Ctx β → Bool | .top => true | _ => false
def inGreet {β} (k : Nat) : Ctx β → Bool | .inCall (.greet k') => k == k' | _ => false
def inData {β} (k : Nat) : Ctx β → Bool | .inCall (.down k' (.data _)) => k == k' | _ => false
def inSub {β} (i : Nat) : Ctx β → Bool | .inCall (.subSrc i') => i == i' | _ => false
def inPull {β} (i : Nat) : Ctx β → Bool | .inCall (.srcUp i' .pull) => i == i' | _ => false

/-- Legality of an environment call: the conformant-peer automaton (DESIGN §1.2, S0–S3 and K0–K2). -/
def legalIn {α β} (sh : Shape) (g : Ph) (c : Ctx β) : In α → Bool
  | .subscribe k => isTop c && g.sinkPh k == .idle && (k == 0 || sh.multiSink)
  | .sinkUp k _ => g.sinkPh k == .live && (isTop c || inGreet k c || inData k c)
  | .srcGreet i => g.srcPh i == .subscribed && (inSub i c || (sh.lateGreet && isTop c))
  | .srcDown i _ => g.srcPh i == .live && (isTop c || inSub i c || inPull i c)

/-- Legality of returning from a call made by the operator. -/
def legalRet {β} (sh : Shape) (g : Ph) : Ctx β → Bool
  | .top => false
  | .inCall (.subSrc i) => sh.lateGreet || g.srcPh i != .subscribed
  | .inCall _ => true

/-! ## Ghost state, layer 2: what needs memory beyond phases (error relay and orphans of C04, C05) -/

structure G where
  ph : Ph := {}
  fin : List (Option Fin) := []                  -- per sink: terminal received
  sinkErr : Option (Nat × Nat) := none           -- (error a sink is sending upstream, stack height of that call)
  pend : Option (Nat × Nat × List Nat) := none   -- (error id, stack height at arrival, sinks live at arrival)
  xviols : List Viol := []
deriving Repr, BEq, Hashable

def G.viols (g : G) : List Viol := g.xviols ++ g.ph.viols
def G.finOf (g : G) (k : Nat) : Option Fin := phAt g.fin k
def G.flagAll (g : G) (vs : List Viol) : G := { g with xviols := vs.reverse ++ g.xviols }

def livesOf (g : Ph) : List Nat := (List.range g.sink.length).filter (fun k => g.sinkPh k == .live)
def liveSrcs (g : Ph) : List Nat := (List.range g.src.length).filter (fun i => g.srcPh i == .live)

def G.onIn {α} (g : G) (height : Nat) (i : In α) : G :=
  let g' := { g with ph := g.ph.onIn i }
  match i with
  | .sinkUp _ (.err e) => { g' with sinkErr := some (e, height) }
  | .srcDown _ (.err e) =>
      if (livesOf g.ph).isEmpty || g.pend.isSome then g' else { g' with pend := some (e, height, livesOf g.ph) }
  | _ => g'

def finOfDown {β} : Down β → Option Fin
  | .data _ => none | .term => some .term | .err e => some (.err e)

def G.onOut {β} (sh : Shape) (g : G) (o : Out β) : G :=
  let g' := { g with ph := g.ph.onOut o }
  match o with
  | .down k d =>
      if g.ph.sinkPh k = .live then
        match finOfDown d with
        | some f => { g' with fin := setAt g.fin k (some f) }
        | none => g'
      else g'
  | .srcUp i .term =>
      if g.ph.srcPh i = .live && sh.relayErr && g.sinkErr.isSome then g'.flagAll [.errNotRelayed i] else g'
  | .srcUp i (.err e') =>
      match g.sinkErr with
      | some (e, _) => if g.ph.srcPh i = .live && sh.relayErr && e != e' then g'.flagAll [.errNotRelayed i] else g'
      | none => g'
  | _ => g'

/-- the sink's `Error` has been handled once the handler of that call returns -/
def G.clearSinkErr (g : G) (height : Nat) : G :=
  match g.sinkErr with
  | some (_, h) => if h == height then { g with sinkErr := none } else g
  | none => g

/-- C05: when the handler of an upstream `Error(e)` returns, every sink that was live — and has not detached by itself in the
meantime (possible only through a cross-sink call, `EnvX.lean`) — has received exactly that error and no upstream is live any more -/
def G.checkPend (g : G) (height : Nat) : G :=
  match g.pend with
  | some (e, h, ks) =>
    if h == height then
      { g with pend := none }.flagAll
        (((ks.filter (fun k => g.finOf k != some (Fin.err e) && g.ph.sinkPh k != SinkPh.doneBySelf)).map (Viol.errLost e)) ++ ((liveSrcs g.ph).map (Viol.errSibling e)))
    else g
  | none => g

/-- C04: control is back at top level, the output is over, and an upstream is still live -/
def G.checkOrphans (g : G) (height : Nat) : G :=
  if height == 0 && !g.ph.anySinkOpen && g.ph.sink.length > 0 then
    g.flagAll (((liveSrcs g.ph).filter (fun i => !g.xviols.contains (.orphan i))).map Viol.orphan)
  else g

/-- checks made when an operator handler returns, `height` = stack height after the return -/
def G.onRetO (g : G) (height : Nat) : G := ((g.clearSinkErr height).checkPend height).checkOrphans height

/-- boundary events, newest first in `Sys.tr` -/
inductive Ev (α β : Type) where
  | inp (i : In α)     -- environment calls the operator
  | out (o : Out β)    -- operator calls the environment
  | retE               -- environment returns from the innermost open `out`
  | retO               -- operator returns from the innermost open `inp`
  | panic              -- operator panicked
deriving DecidableEq, Repr, BEq, Hashable, Inhabited

structure Sys (St Loc α β : Type) where
  st : St
  stack : List (Frame Loc β)
  g : G := {}
  tr : List (Ev α β) := []
  panicked : Option String := none

def Sys.init {St Loc α β} (M : Machine St Loc α β) : Sys St Loc α β := { st := M.init, stack := [] }

/-- one deterministic operator step; `none` when it is the environment's turn or after a panic -/
def opStep {St Loc α β} (M : Machine St Loc α β) (s : Sys St Loc α β) : Option (Sys St Loc α β) :=
  if s.panicked.isSome then none else
  match s.stack with
  | .run l :: stk =>
    match M.step s.st l with
    | .tau s' l' => some { s with st := s', stack := .run l' :: stk }
    | .call o s' l' => some { s with st := s', stack := .wait o l' :: stk, g := s.g.onOut M.shape o, tr := .out o :: s.tr }
    | .ret => some { s with stack := stk, g := s.g.onRetO stk.length, tr := .retO :: s.tr }
    | .panic m => some { s with stack := stk, panicked := some m, tr := .panic :: s.tr }
  | _ => none

def advance {St Loc α β} (M : Machine St Loc α β) : Nat → Sys St Loc α β → Sys St Loc α β
  | 0, s => s
  | n+1, s => match opStep M s with
    | none => s
    | some s' => advance M n s'

inductive Move (α : Type) where | call (i : In α) | ret
deriving Repr, BEq, Inhabited, DecidableEq

def envMove {St Loc α β} (M : Machine St Loc α β) (s : Sys St Loc α β) : Move α → Option (Sys St Loc α β)
  | .call i =>
    if s.panicked.isSome then none else
    match ctxOf s.stack with
    | some c => if legalIn M.shape s.g.ph c i then
        some { s with stack := .run (M.enter i) :: s.stack, g := s.g.onIn s.stack.length i, tr := .inp i :: s.tr } else none
    | none => none
  | .ret =>
    if s.panicked.isSome then none else
    match s.stack with
    | .wait o l :: stk => if legalRet M.shape s.g.ph (.inCall o) then some { s with stack := .run l :: stk, tr := .retE :: s.tr } else none
    | _ => none

end Cb
