import CallbagModel.Ops.Pipeline
import CallbagModel.Script
import CallbagModel.Closed.Prog3Def
/-!
# Pipelines (C06): parse the textual description shared with harness/src/pipe.rs, evaluate the model (`sem`, `listSem`), compare
-/
open Cb

inductive Sx where | atom (s : String) | list (l : List Sx)
deriving Inhabited

instance : Inhabited Pipe := ⟨Pipe.src []⟩

def sxTokens (s : String) : List String :=
  words ((s.replace "(" " ( ").replace ")" " ) ")

partial def sxParse : List String → Option (Sx × List String)
  | [] => none
  | "(" :: rest =>
    let rec items (ts : List String) (acc : List Sx) : Option (List Sx × List String) :=
      match ts with
      | [] => none
      | ")" :: r => some (acc.reverse, r)
      | _ => match sxParse ts with
        | some (x, r) => items r (x :: acc)
        | none => none
    (items rest []).map fun (l, r) => (Sx.list l, r)
  | ")" :: _ => none
  | t :: rest => some (Sx.atom t, rest)

def sxInt : Sx → Option Int | .atom s => s.toInt? | _ => none
def sxNat : Sx → Option Nat | .atom s => s.toNat? | _ => none

def scanLinP (b : Int) (acc x : Int) : Int := (acc * b + x) % 1000003
def rangeFrom (a : Int) (n : Nat) : List Int := (List.range n).map (fun (i : Nat) => a + Int.ofNat i)

/-- unbounded sources are modelled by a list far longer than any demand the generator produces -/
def infLen : Nat := 2000

partial def toPipe : Sx → Option Pipe
  | .list [.atom "src", n] => (sxNat n).map fun n => Pipe.src (rangeFrom 1 n)
  | .list [.atom "src", n, a] => match sxNat n, sxInt a with | some n, some a => some (Pipe.src (rangeFrom a n)) | _, _ => none
  | .list [.atom "inf", a] => (sxInt a).map fun a => Pipe.src (rangeFrom a infLen)
  | .list [.atom "map", .atom "add", k, p] => match sxInt k, toPipe p with | some k, some p => some (Pipe.map (· + k) p) | _, _ => none
  | .list [.atom "map", .atom "mul", k, p] => match sxInt k, toPipe p with | some k, some p => some (Pipe.map (· * k) p) | _, _ => none
  | .list [.atom "filter", .atom "mod", m, r, p] =>
      match sxInt m, sxInt r, toPipe p with | some m, some r, some p => some (Pipe.filter (fun x => x % m == r) p) | _, _, _ => none
  | .list [.atom "scan", .atom "lin", b, s, p] =>
      match sxInt b, sxInt s, toPipe p with | some b, some s, some p => some (Pipe.scan (scanLinP b) s p) | _, _, _ => none
  | .list [.atom "take", n, p] => match sxNat n, toPipe p with | some n, some p => some (Pipe.take n p) | _, _ => none
  | .list [.atom "skip", n, p] => match sxNat n, toPipe p with | some n, some p => some (Pipe.skip n p) | _, _ => none
  | .list (.atom "concat" :: p :: q :: rest) =>
      -- n-ary concat! denotes the same list function as right-nested binary concats
      match (p :: q :: rest).mapM toPipe with
      | some (p0 :: ps) => some ((p0 :: ps).dropLast.foldr Pipe.concat ((p0 :: ps).getLast!))
      | _ => none
  | .list [.atom "twice", p] => (toPipe p).map fun p => Pipe.concat p p
  | .list [.atom "flatmap", .atom "self", k, p] =>
      -- a source value is a description: subscribing to the same value again (here while the outer subscription is live) is the same program again
      match sxInt k, toPipe p with | some k, some p => some (Pipe.flatMap (fun a => Pipe.map (fun b => a * k + b) p) p) | _, _ => none
  | .list [.atom "flatmap", .atom "rep", k, p] =>
      match sxNat k, toPipe p with | some k, some p => some (Pipe.flatMap (fun a => Pipe.src (rangeFrom a k)) p) | _, _ => none
  | .list [.atom "flatmap", .atom "tri", k, p] =>
      match sxNat k, toPipe p with
      | some k, some p => some (Pipe.flatMap (fun a => Pipe.take k (Pipe.src (rangeFrom 1 (a % 4).toNat))) p)
      | _, _ => none
  | _ => none

/-- LINEAR programs (a source followed by unary stages): the input list and the stages, innermost (first applied) stage first -/
partial def toLinear : Sx → Option (List Int × List Closed.Stg)
  | .list [.atom "src", n] => (sxNat n).map fun n => (rangeFrom 1 n, [])
  | .list [.atom "src", n, a] => match sxNat n, sxInt a with | some n, some a => some (rangeFrom a n, []) | _, _ => none
  | .list [.atom "inf", a] => (sxInt a).map fun a => (rangeFrom a infLen, [])
  | .list [.atom "map", .atom "add", k, p] => match sxInt k, toLinear p with
    | some k, some (xs, ss) => some (xs, ss ++ [.map (· + k)]) | _, _ => none
  | .list [.atom "map", .atom "mul", k, p] => match sxInt k, toLinear p with
    | some k, some (xs, ss) => some (xs, ss ++ [.map (· * k)]) | _, _ => none
  | .list [.atom "filter", .atom "mod", m, r, p] => match sxInt m, sxInt r, toLinear p with
    | some m, some r, some (xs, ss) => some (xs, ss ++ [.filter (fun x => x % m == r)]) | _, _, _ => none
  | .list [.atom "scan", .atom "lin", b, s, p] => match sxInt b, sxInt s, toLinear p with
    | some b, some s, some (xs, ss) => some (xs, ss ++ [.scan (scanLinP b) s]) | _, _, _ => none
  | .list [.atom "take", n, p] => match sxNat n, toLinear p with | some n, some (xs, ss) => some (xs, ss ++ [.take n]) | _, _ => none
  | .list [.atom "skip", n, p] => match sxNat n, toLinear p with | some n, some (xs, ss) => some (xs, ss ++ [.skip n]) | _, _ => none
  | _ => none

/-- unary stage of a program text -/
def toStg : Sx → Option (Closed.Stg × Sx)
  | .list [.atom "map", .atom "add", k, p] => (sxInt k).map fun k => (.map (· + k), p)
  | .list [.atom "map", .atom "mul", k, p] => (sxInt k).map fun k => (.map (· * k), p)
  | .list [.atom "filter", .atom "mod", m, r, p] => match sxInt m, sxInt r with
    | some m, some r => some (.filter (fun x => x % m == r), p) | _, _ => none
  | .list [.atom "scan", .atom "lin", b, s, p] => match sxInt b, sxInt s with | some b, some s => some (.scan (scanLinP b) s, p) | _, _ => none
  | .list [.atom "take", n, p] => (sxNat n).map fun n => (.take n, p)
  | .list [.atom "skip", n, p] => (sxNat n).map fun n => (.skip n, p)
  | _ => none

/-- programs of sources, unary stages, `concat!` (binary: `concat2`; three or more members: `concatN`) and `flatmap rep` as syntax
(`Closed/Prog3Def.lean`) -/
partial def toProg3 (sx : Sx) : Option Closed.Prog3 :=
  match sx with
  | .list [.atom "src", n] => (sxNat n).map fun n => .src (rangeFrom 1 n)
  | .list [.atom "src", n, a] => match sxNat n, sxInt a with | some n, some a => some (.src (rangeFrom a n)) | _, _ => none
  | .list [.atom "inf", a] => (sxInt a).map fun a => .src (rangeFrom a infLen)
  | .list [.atom "twice", p] => (toProg3 p).map fun p => .concat2 p p
  | .list [.atom "concat", p, q] => match toProg3 p, toProg3 q with | some p, some q => some (.concat2 p q) | _, _ => none
  | .list (.atom "concat" :: ms) => (ms.mapM toProg3).map fun ps => .concatN ps
  | .list [.atom "flatmap", .atom "rep", k, p] => match sxNat k, toProg3 p with | some k, some p => some (.flatRep k p) | _, _ => none
  | _ => match toStg sx with
    | some (st, p) => (toProg3 p).map fun p => .stage st p
    | none => none

/-- Boolean mirrors of `Closed.Prog3.linear` / `tf2` / `ok2` — used only to COUNT how many programs of the stream are in the domain of the
correctness theorem (`prog3_correct2`) -/
partial def linB : Closed.Prog3 → Bool
  | .src _ => true
  | .stage _ p => linB p
  | _ => false
partial def tf2B : Closed.Prog3 → Bool
  | .src _ => true
  | .stage s p => (match s with | .take _ => false | _ => true) && tf2B p
  | .concat2 p q => tf2B p && tf2B q
  | .concatN ps => ps.all tf2B
  | .flatRep _ p => tf2B p
/-- mirror of `Closed.Prog3.ok2` (Closed/Prog3Wide.lean), the widest domain of the correctness theorem -/
partial def okB : Closed.Prog3 → Bool
  | .src _ => true
  | .stage s p => (match s with | .take n => n > 0 | _ => true) && okB p
  | .concat2 p q => okB p && okB q
  | .concatN ps => !ps.isEmpty && ps.all okB
  | .flatRep _ p => (linB p || tf2B p) && okB p

/-- `flatten(map(|a| take(k)(from_iter(1 .. a % 4)))(A))`: the `tri` family of the stream (inner sources are two-machine pipelines) -/
def flatTriM (k : Nat) (A : Closed.AnyM) : Closed.AnyM :=
  let inner := Closed.thenM (Closed.srcM []) (Closed.takeM k)
  { St := FPSt A.St inner.St, Loc := List (FFr A.Loc (Flatten.Loc Int) inner.Loc),
    M := flatPlug A.M inner.M (fun a => ({ (Closed.srcM []).M.init with it := rangeFrom 1 (a % 4).toNat }, (Closed.takeM k).M.init)),
    nexts := fun s => A.nexts s.outer + (s.inners.map (fun p => inner.nexts p.2)).sum }

/-- … as ONE machine — EVERY program of the stream.  Sources, unary stages, `concat!` of any arity, `flatmap rep`: `Closed.Prog3.toM`, the
term `Closed.prog3_correct` / `prog3_completes` (Closed/Prog3.lean) are about (their side condition `Prog3.ok` — `take n` with `n ≥ 1`,
`flatmap` over a linear program — is not checked here: the comparison runs on every program).  Only the `tri` family (inner sources that
are two-machine pipelines: `flatTriM`) has no theorem, the comparison only. -/
partial def toAnyM (sx : Sx) : Option Closed.AnyM :=
  match toProg3 sx with
  | some p => some p.toM
  | none =>
    match sx with
    | .list [.atom "twice", p] => (toAnyM p).map fun A => Closed.concatM [A, A]
    | .list (.atom "concat" :: ms) => (ms.mapM toAnyM).map Closed.concatM
    | .list [.atom "flatmap", .atom "rep", k, p] => match sxNat k, toAnyM p with | some k, some A => some (Closed.flatM k A) | _, _ => none
    | .list [.atom "flatmap", .atom "tri", k, p] => match sxNat k, toAnyM p with | some k, some A => some (flatTriM k A) | _, _ => none
    | _ => match toStg sx with
      | some (st, p) => (toAnyM p).map fun A => Closed.thenM A st.toM
      | none => none

def fmtL (l : List Int) : String := "[" ++ ",".intercalate (l.map toString) ++ "]"

/-- model verdict for one pipeline: `out=[…] done=true nexts=N` -/
def pipeModel (desc : String) : Option String :=
  match sxParse (sxTokens desc) with
  | some (sx, _) => (toPipe sx).map fun p =>
      let r := sem p none
      let mach := match toAnyM sx with
        | some A =>
          let m := Closed.runClosed (Closed.thenM A Closed.forEachM)
          s!" mach={fmtL m.apps} mnexts={m.nexts} mok={m.returned && !m.panicked && m.viols == 0}"
        | none => ""
      s!"out={fmtL r.1} done=true nexts={r.2} list={fmtL (listSem p)}{mach}"
  | none => none

partial def pipeLoop (h : IO.FS.Stream) (n bad : Nat) : IO (Nat × Nat) := do
  let line ← h.getLine
  if line.isEmpty then return (n, bad)
  if line.startsWith "#" then
    if !(line.splitOn "pipe_macro_check=true").length == 2 then IO.println s!"FLAG pipe-macro | {line.trimAscii}"
    pipeLoop h n bad
  else
  match (line.splitOn "|").map (·.trimAscii.toString) with
  | [desc, real] =>
    match pipeModel desc with
    | none => IO.println s!"BADLINE {desc}"; pipeLoop h n bad
    | some m =>
      -- real: out=… done=… nexts=… foreach=… nexts2=…
      let fields := (words real).filterMap fun w => match w.splitOn "=" with | [k, v] => some (k, v) | _ => none
      let get (k : String) := ((fields.find? (·.1 == k)).map (·.2)).getD "?"
      let mfields := (words m).filterMap fun w => match w.splitOn "=" with | [k, v] => some (k, v) | _ => none
      let mget (k : String) := ((mfields.find? (·.1 == k)).map (·.2)).getD "?"
      let mut probs : List String := []
      -- oracle: f is called on exactly the elements of the list function, in order; completion; iterator advanced on demand only
      if get "foreach" != mget "list" then probs := "foreach≠listFunction" :: probs
      if get "out" != mget "list" then probs := "probe≠listFunction" :: probs
      if get "done" != "true" then probs := "noCompletion" :: probs
      if get "nexts" != mget "nexts" || get "nexts2" != mget "nexts" then probs := s!"iteratorAdvances(model {mget "nexts"})" :: probs
      if mget "out" != mget "list" then probs := "MODEL:sem≠listSem" :: probs
      -- the network of operator machines (linear programs only) against `sem`, hence against the crate
      if mget "mach" != "?" then
        IO.println "MACH"
        match sxParse (sxTokens desc) with
        | some (sx, _) => if ((toProg3 sx).map okB).getD false then IO.println "MTHM"
        | none => pure ()
        if mget "mach" != mget "out" || mget "mnexts" != mget "nexts" || mget "mok" != "true" then
          probs := s!"MODEL:machines≠sem(mach={mget "mach"},mnexts={mget "mnexts"},mok={mget "mok"})" :: probs
      if probs.isEmpty then pipeLoop h (n + 1) bad
      else IO.println s!"FLAG pipeline | {desc} | {real} | {" ".intercalate probs}"; pipeLoop h (n + 1) (bad + 1)
  | _ => pipeLoop h n bad
