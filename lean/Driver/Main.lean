import CallbagModel.Insts
import CallbagModel.Mon
import Driver.ParDrv
import Driver.IvlDrv
import Driver.PipeDrv
import CallbagModel.Spec14
/-!
# cbdrv — the compiled driver (imports model files only)

  cbdrv gen <inst> <depth>                     all maximal conformant scripts ≤ depth moves:  `inst | script | model trace`
  cbdrv rand <inst> <count> <len> <seed>       seeded random walks, same output
  cbdrv judge <prop>                           stdin: `inst | script | recorded trace`; compares with the model on the
                                               projection of <prop>, runs the monitor on the recorded trace
-/
open Cb

def violTxt (v : Viol) : String := s!"C{if v.prop < 10 then "0" else ""}{v.prop}:{reprStr v}"

/-- projection of a trace (token list) a property observes; tokens starting with `?` (harness could not perform a move)
and `!` (panic) are always kept -/
def project (prop : String) (toks : List String) : List String :=
  let keep (t : String) : Option String :=
    if t.startsWith "?" then some t else
    let cs := t.toList
    match prop with
    | "C01" => match cs with
      | '>' :: 'G' :: _ => some t
      | '>' :: 'D' :: r => some (">D" ++ String.ofList (r.takeWhile Char.isDigit))
      | _ => none
    | "C02" => match cs with
      | '>' :: 'D' :: r => some (">D" ++ String.ofList (r.takeWhile Char.isDigit) ++ String.ofList ((r.dropWhile Char.isDigit).take 1))
      | _ => none
    | "C03" => match cs with
      | '>' :: 'D' :: r => some (">D" ++ String.ofList (r.takeWhile Char.isDigit))
      | 'U' :: r => if (r.dropWhile Char.isDigit).take 1 == ['p'] then none else some ("U" ++ String.ofList (r.takeWhile Char.isDigit) ++ "x")
      | _ => none
    | "C04" => match cs with
      | '>' :: 'S' :: _ => some t
      | '>' :: 'U' :: _ => some t
      | _ => none
    | "C05" => match cs with
      | '>' :: 'D' :: r => if (r.dropWhile Char.isDigit).take 1 == ['d'] then none else some t
      | '>' :: 'U' :: r => if (r.dropWhile Char.isDigit).take 1 == ['p'] then none else some t
      | 'D' :: r => if (r.dropWhile Char.isDigit).take 1 == ['e'] then some t else none
      | _ => none
    | "C17" => if t.startsWith "!" then some t else none
    | _ => some t
  toks.filterMap keep

structure Stats where
  scripts : Nat := 0
  nested : Nat := 0          -- scripts with at least one environment call made while a call is open
  maxDepth : Nat := 0
  events : Nat := 0
  mismatches : Nat := 0
  fullMismatches : Nat := 0  -- full-trace differences (model drift), whatever the projection says
  flagged : Nat := 0         -- conformant recorded traces on which the monitor reports a violation of this property
  nonconf : Nat := 0         -- recorded traces whose environment part is not conformant (judged only up to that point)
  panics : Nat := 0
  cross : Nat := 0           -- recorded traces containing a cross-peer call (EnvX.lean)
  wide : Nat := 0            -- … containing one that is not a cross-sink call (compared, not judged)
  cov : List String := []    -- `Namespace.constructor` of the model locations executed while replaying the scripts

def specProps : List String := ["C07", "C08", "C09", "C10", "C11", "C12", "C15"]

def propNum (prop : String) : Nat := (prop.drop 1).toString.toNat!

def nestingOf (toks : List String) : Nat × Bool := Id.run do
  let mut d := 0; let mut mx := 0; let mut nested := false
  for t in toks do
    if t == "<" || t == "R" then d := d - 1
    else if t.startsWith "!" || t.startsWith "?" then pure ()
    else
      if !t.startsWith ">" && d > 0 then nested := true
      d := d + 1; if d > mx then mx := d
  return (mx, nested)

def judgeLine (prop : String) (line : String) (st : Stats) : IO Stats := do
  match (line.splitOn "|").map (·.trimAscii.toString) with
  | [name, script, real] =>
    match instOf name with
    | none => IO.println s!"BADLINE unknown instance {name}"; return st
    | some inst =>
      let some ms := (words script).mapM parseMove | IO.println s!"BADLINE script {script}"; return st
      let (model, cov) := traceTxtCov inst.M inst.fb inst.locName ms st.cov
      let st := { st with cov := cov }
      let rtoks := words real
      let mtoks := words model
      let (mx, nested) := nestingOf rtoks
      let mut st := { st with scripts := st.scripts + 1, events := st.events + rtoks.length,
                              maxDepth := max st.maxDepth mx, nested := st.nested + (if nested then 1 else 0) }
      if rtoks != mtoks then
        st := { st with fullMismatches := st.fullMismatches + 1 }
        if st.fullMismatches ≤ 300 then IO.println s!"DRIFT {name} | {script} | {real}"
      if project prop rtoks != project prop mtoks then
        st := { st with mismatches := st.mismatches + 1 }
        IO.println s!"MISMATCH {name} | {script} | model: {model} | real: {real}"
      -- the oracle: the Lean monitor over the recorded trace
      let evs := rtoks.filterMap (parseEv (α := String) (β := String) some some)
      let m := monRun inst.M.shape evs
      if !m.envOk || !m.shapeOk then st := { st with nonconf := st.nonconf + 1 }
      if m.panicked then st := { st with panics := st.panics + 1 }
      if m.cross > 0 then st := { st with cross := st.cross + 1 }
      if m.wide > 0 then st := { st with wide := st.wide + 1 }
      let p := propNum prop
      let vs := m.g.viols.filter (fun v => v.prop == p)
      -- the functional specification of the operator (Spec.lean), on conformant traces in its domain
      let specBad : Bool :=
        if prop == "C14" && m.envOk && m.shapeOk && !m.panicked then
          let evs2 := rtoks.filterMap (parseEv (α := Int) (β := inst.β) String.toInt? inst.pb)
          let tr := evs2.reverse
          if evs2.length == rtoks.length && pullableTr tr then !(demandOk tr) else false
        else if specProps.contains prop && m.envOk && m.shapeOk && !m.panicked && m.cross == 0 then   -- specifications are stated (and proved) for `legalIn` histories
          match inst.spec with
          | some f =>
            let evs2 := rtoks.filterMap (parseEv (α := Int) (β := inst.β) String.toInt? inst.pb)
            let tr := evs2.reverse
            if evs2.length == rtoks.length && inst.specDomain tr then !(f tr) else false
          | none => false
        else false
      -- the oracle judges `legalIn` histories and cross-sink histories; other cross-peer histories only take part in the comparison
      let bad := (m.wide == 0) && (!vs.isEmpty || (p == 17 && m.panicked) || specBad)
      if bad then
        st := { st with flagged := st.flagged + 1 }
        let what := if specBad then s!"{prop}:specViolated" else if p == 17 then "C17:panic" else " ".intercalate (vs.reverse.map violTxt)
        IO.println s!"FLAG {name} | {script} | {real} | {what}"
      return st
  | _ => if line.trimAscii.toString.isEmpty then return st else IO.println s!"BADLINE {line}"; return st

partial def judgeLoop (prop : String) (h : IO.FS.Stream) (st : Stats) : IO Stats := do
  let line ← h.getLine
  if line.isEmpty then return st
  let st ← judgeLine prop line st
  judgeLoop prop h st

def main (args : List String) : IO UInt32 := do
  match args with
  | ["gen", name, depth] =>
    let some inst := instOf name | IO.eprintln s!"unknown instance {name}"; return 2
    let ls := leaves inst.M inst.nSinks depth.toNat! (Sys.init inst.M) [] #[]
    for ms in ls do
      IO.println s!"{name} | {scriptTxt ms} | {traceTxt inst.M inst.fb ms}"
    return 0
  | ["genx", name, depth, mode] =>     -- mode 1: plus cross-sink calls; mode 2: the cross-peer environment (EnvX.lean)
    let some inst := instOf name | IO.eprintln s!"unknown instance {name}"; return 2
    let ls := leaves inst.M inst.nSinks depth.toNat! (Sys.init inst.M) [] #[] noFilter mode.toNat!
    for ms in ls do
      IO.println s!"{name} | {scriptTxt ms} | {traceTxt inst.M inst.fb ms}"
    return 0
  | ["randx", name, count, len, seed, mode] =>
    let some inst := instOf name | IO.eprintln s!"unknown instance {name}"; return 2
    let mut r : UInt64 := seed.toNat!.toUInt64 * 6364136223846793005 + 1442695040888963407
    for _ in [0:count.toNat!] do
      r := rngNext (r + 1)
      let ms := randomWalk inst.M inst.nSinks len.toNat! r noFilter mode.toNat!
      IO.println s!"{name} | {scriptTxt ms} | {traceTxt inst.M inst.fb ms}"
    return 0
  | ["long", name, rounds, burst, mode] =>   -- long deterministic walks (Script.lean `longWalk`)
    let some inst := instOf name | IO.eprintln s!"unknown instance {name}"; return 2
    let ms := longWalk inst.M inst.nSinks rounds.toNat! burst.toNat! mode.toNat!
    IO.println s!"{name} | {scriptTxt ms} | {traceTxt inst.M inst.fb ms}"
    return 0
  | ["gen14", name, depth] =>
    let some inst := instOf name | IO.eprintln s!"unknown instance {name}"; return 2
    let ls := leaves inst.M inst.nSinks depth.toNat! (Sys.init inst.M) [] #[] pullableB
    for ms in ls do
      IO.println s!"{name} | {scriptTxt ms} | {traceTxt inst.M inst.fb ms}"
    return 0
  | ["rand14", name, count, len, seed] =>
    let some inst := instOf name | IO.eprintln s!"unknown instance {name}"; return 2
    let mut r : UInt64 := seed.toNat!.toUInt64 * 6364136223846793005 + 1442695040888963407
    for _ in [0:count.toNat!] do
      r := rngNext (r + 1)
      let ms := randomWalk inst.M inst.nSinks len.toNat! r pullableB
      IO.println s!"{name} | {scriptTxt ms} | {traceTxt inst.M inst.fb ms}"
    return 0
  | ["rand", name, count, len, seed] =>
    let some inst := instOf name | IO.eprintln s!"unknown instance {name}"; return 2
    let mut r : UInt64 := seed.toNat!.toUInt64 * 6364136223846793005 + 1442695040888963407
    for _ in [0:count.toNat!] do
      r := rngNext (r + 1)
      let ms := randomWalk inst.M inst.nSinks len.toNat! r
      IO.println s!"{name} | {scriptTxt ms} | {traceTxt inst.M inst.fb ms}"
    return 0
  | ["judge", prop] =>
    let st ← judgeLoop prop (← IO.getStdin) {}
    IO.println s!"COV {" ".intercalate st.cov}"
    IO.println s!"SUMMARY \{\"scripts\": {st.scripts}, \"nested\": {st.nested}, \"max_depth\": {st.maxDepth}, \"events\": {st.events}, \"mismatches\": {st.mismatches}, \"model_drift\": {st.fullMismatches}, \"flagged\": {st.flagged}, \"nonconformant\": {st.nonconf}, \"panics\": {st.panics}, \"cross_peer\": {st.cross}, \"compared_not_judged\": {st.wide}}"
    return 0
  | ["par"] => parLoop (← IO.getStdin); return 0
  | ["pipe"] =>
    let (n, bad) ← pipeLoop (← IO.getStdin) 0 0
    IO.println s!"SUMMARY \{\"programs\": {n}, \"flagged\": {bad}}"
    return 0
  | ["ivl"] =>
    let (n, bad, mism) ← ivlLoop (← IO.getStdin) 0 0 0
    IO.println s!"SUMMARY \{\"scripts\": {n}, \"flagged\": {bad}, \"mismatches\": {mism}}"
    return 0
  | _ => IO.eprintln "usage: cbdrv gen|rand|judge|par ..."; return 2
