import CallbagModel.Par
import CallbagModel.Script
import CallbagModel.Ops.Take
import CallbagModel.Ops.Merge
import CallbagModel.Ops.Combine
import CallbagModel.Ops.Compose
import Std.Data.HashSet
/-!
# Exhaustive exploration of thread interleavings on the model (the search side of C18 / C19)

Scenario syntax (shared with harness/src/sched.rs): `<op> | <thread 0 script> | <thread 1 script> | …`, `op` one of
`take:<max>`, `take0:<max>` (the code before fix 6a5bc56), `merge:<n>`, `combine:<n>`; a thread script is a list of `g`
(greet), `d<v>`, `t`, `e`; thread `i` plays member `i mod n`. Members whose script does not start with `g` are greeted
before the race starts, as in the harness.
-/
open Cb

def Obs.txt {β} (f : β → String) (o : Obs β) : String :=
  s!"greets={o.greets} datas=[{",".intercalate (o.datas.map f)}] terms={o.terms} errs={o.errs} upTerms={o.upTerms} termWhileData={o.termWhileData} afterTerm={o.afterTerm} panics={o.panics}"

def parseAct (member : Nat) (t : String) : Option (In Int) :=
  match t.toList with
  | ['g'] => some (.srcGreet member)
  | ['t'] => some (.srcDown member .term)
  | ['e'] => some (.srcDown member (.err 1))
  | 'd' :: r => (String.ofList r).toInt?.map fun v => .srcDown member (.data v)
  | _ => none

partial def explorePar {St Loc β} [BEq St] [Hashable St] [BEq Loc] [Hashable Loc] [BEq β] [Hashable β]
    (M : Machine St Loc Int β) (s0 : PSys St Loc Int β) : Nat × List (Obs β) := Id.run do
  let mut seen : Std.HashSet (PSys St Loc Int β) := {}
  let mut work : Array (PSys St Loc Int β) := #[s0]
  let mut finals : List (Obs β) := []
  seen := seen.insert s0
  while h : work.size > 0 do
    let s := work[work.size - 1]
    work := work.pop
    let mut any := false
    for t in List.range s.threads.length do
      match pstep M s t with
      | none => pure ()
      | some s' =>
        any := true
        if !seen.contains s' then
          seen := seen.insert s'
          work := work.push s'
    if !any && !finals.contains s.obs then finals := s.obs :: finals
  return (seen.size, finals)

def runScenario {St Loc β} [BEq St] [Hashable St] [BEq Loc] [Hashable Loc] [BEq β] [Hashable β]
    (M : Machine St Loc Int β) (fb : β → String) (n : Nat) (threads : List String) (pregreet : Bool) : Option String := do
  let scripts ← (threads.zipIdx.mapM fun (t, i) => (words t).mapM (parseAct (i % n)))
  -- set-up thread: subscribe, then greet the members that do not greet themselves
  let pre : List (In Int) := if pregreet then
      (threads.zipIdx.filterMap fun (t, i) => if (words t).head? == some "g" then none else some (i % n)).eraseDups.map In.srcGreet
    else []
  let setup : Thread Loc Int β := { script := In.subscribe 0 :: pre }
  let s0 : PSys St Loc Int β := { st := M.init, threads := [setup] }
  let s1 := runAlone M 100000 s0 0
  let s2 : PSys St Loc Int β := { s1 with threads := scripts.map fun sc => { script := sc } }
  let (states, finals) := explorePar M s2
  let outs := (finals.map (Obs.txt fb)).toArray.qsort (· < ·) |>.toList
  pure s!"states={states} # {" ; ".intercalate outs}"

def fmtTuple (l : List Int) : String := "[" ++ ";".intercalate (l.map toString) ++ "]"

def parLine (line : String) : String :=
  match (line.splitOn "|").map (·.trimAscii.toString) with
  | op :: threads =>
    let r := match op.splitOn ":" with
      | ["take", m] => m.toNat?.bind fun m => runScenario (Take.machine Int m) fmtInt 1 threads true
      | ["take0", m] => m.toNat?.bind fun m => runScenario (Take.machine Int m false) fmtInt 1 threads true
      | ["merge", n] => n.toNat?.bind fun n => runScenario (Merge.machine Int n) fmtInt n threads true
      | ["combine", n] => n.toNat?.bind fun n => runScenario (Combine.machine Int n) fmtTuple n threads true
      | ["takemerge", m, n] => match m.toNat?, n.toNat? with
        | some m, some n => runScenario (compose (Merge.machine Int n) (Take.machine Int m)) fmtInt n threads true
        | _, _ => none
      | _ => none
    match r with
    | some t => s!"{line.trimAscii.toString} # {t}"
    | none => s!"{line.trimAscii.toString} # ?unsupported"
  | _ => s!"{line} # ?bad"

partial def parLoop (h : IO.FS.Stream) : IO Unit := do
  let line ← h.getLine
  if line.isEmpty then return ()
  if !line.trimAscii.toString.isEmpty then IO.println (parLine line)
  parLoop h
