import CallbagModel.Ops.Interval
import CallbagModel.Script
/-!
# interval: the model side of the C16 correspondence, and the oracle over recorded runs

Script tokens as in harness/src/ivl.rs: `S<j>o|s|c`, `T<j>` (timer expires, task runs to its next await = `expire; bump; deliver`),
`T<j>q` (the same, with sink j disposing from inside its data handler), `Q<j>` (sink j disposes at top level); `T<j>e` / `R<j>`: the same
two disposals made with `Error` instead of `Terminate` on the talkback (one event of the model: `dispose`).
-/
open Cb Cb.Interval

def ivlEvents (tok : String) : Option (List Ev) :=
  match tok.toList with
  | c :: rest =>
    match splitIdx rest with
    | some (j, suf) =>
      match c, String.ofList suf with
      | 'S', "o" => some [.subscribe j .ok]
      | 'S', "s" => some [.subscribe j .spawn]
      | 'S', "c" => some [.subscribe j .closed]
      | 'T', "" => some [.expire j, .bump j, .deliver j]
      | 'T', "q" => some [.expire j, .bump j, .deliver j, .dispose j]
      | 'T', "e" => some [.expire j, .bump j, .deliver j, .dispose j]
      | 'Q', "" => some [.dispose j]
      | 'R', "" => some [.dispose j]
      | _, _ => none
    | none => none
  | [] => none

def obsTxt : Obs → String
  | .greet j => s!"G{j}"
  | .data j v => s!"D{j}:{v}"
  | .error j .spawn => s!"E{j}:spawn"
  | .error j .closed => s!"E{j}:closed"
  | .error j .ok => s!"E{j}:ok"

/-- the model's run of a script, in the harness's output format (tokens interleaved with observations) -/
def ivlModel (toks : List String) : Option String := do
  let mut s : State := []
  let mut out : List String := []
  for t in toks do
    let evs ← ivlEvents t
    let (s', obs) := run s evs
    s := s'
    out := out ++ [t] ++ obs.map obsTxt
  pure (" ".intercalate out)

/-- the oracle on a recorded run (tokens interleaved with observations): per subscription, greeted at most once and first;
data are 0,1,2,… ; nothing after the first tick at which the disposal is visible; a failed spawn yields exactly one Error -/
def ivlOracle (rec : List String) : List String := Id.run do
  let mut bad : List String := []
  -- per subscription j: (greeted, failed, next expected datum, disposed requested, silent from now on)
  let mut st : List (Nat × Bool × Bool × Nat × Bool × Bool) := []
  let get (st : List (Nat × Bool × Bool × Nat × Bool × Bool)) (j : Nat) := (st.find? (·.1 == j)).getD (j, false, false, 0, false, false)
  let put (st : List (Nat × Bool × Bool × Nat × Bool × Bool)) (x : Nat × Bool × Bool × Nat × Bool × Bool) := x :: st.filter (·.1 != x.1)
  for t in rec do
    match t.toList with
    | 'G' :: r => match (String.ofList r).toNat? with
      | some j =>
        let (_, g, f, n, d, q) := get st j
        if g || f || n > 0 then bad := s!"greet-once:{t}" :: bad
        st := put st (j, true, f, n, d, q)
      | none => bad := s!"unparsable:{t}" :: bad
    | 'D' :: r => match (String.ofList r).splitOn ":" with
      | [js, vs] => match js.toNat?, vs.toNat? with
        | some j, some v =>
          let (_, g, f, n, d, q) := get st j
          if !g then bad := s!"greet-first:{t}" :: bad
          if f then bad := s!"after-spawn-failure:{t}" :: bad
          if v != n then bad := s!"counting:{t}" :: bad
          if q then bad := s!"after-disposal-visible:{t}" :: bad
          st := put st (j, g, f, n + 1, d, q)
        | _, _ => bad := s!"unparsable:{t}" :: bad
      | _ => bad := s!"unparsable:{t}" :: bad
    | 'E' :: r => match (String.ofList r).splitOn ":" with
      | [js, _] => match js.toNat? with
        | some j =>
          let (_, g, f, n, d, q) := get st j
          if g || f || n > 0 then bad := s!"error-alone:{t}" :: bad
          st := put st (j, g, true, n, d, q)
        | none => bad := s!"unparsable:{t}" :: bad
      | _ => bad := s!"unparsable:{t}" :: bad
    | 'Q' :: r => match (String.ofList r).toNat? with
      | some j => let (_, g, f, n, _, q) := get st j; st := put st (j, g, f, n, true, q)
      | none => pure ()
    | 'R' :: r => match (String.ofList r).toNat? with
      | some j => let (_, g, f, n, _, q) := get st j; st := put st (j, g, f, n, true, q)
      | none => pure ()
    | 'T' :: r =>
      -- a tick that starts after the disposal was requested observes it: silence from here on;
      -- `T<j>q` requests the disposal during this tick
      match splitIdx r with
      | some (j, suf) =>
        let (_, g, f, n, d, q) := get st j
        st := put st (j, g, f, n, d || suf == ['q'] || suf == ['e'], q || d)
      | none => pure ()
    | _ => pure ()
  return bad.reverse

partial def ivlLoop (h : IO.FS.Stream) (n bad mism : Nat) : IO (Nat × Nat × Nat) := do
  let line ← h.getLine
  if line.isEmpty then return (n, bad, mism)
  match (line.splitOn "|").map (·.trimAscii.toString) with
  | [script, real] =>
    let mut bad := bad; let mut mism := mism
    match ivlModel (words script) with
    | some m => if m != real then mism := mism + 1; IO.println s!"MISMATCH interval | {script} | model: {m} | real: {real}"
    | none => IO.println s!"BADLINE {script}"
    let v := ivlOracle (words real)
    if !v.isEmpty then bad := bad + 1; IO.println s!"FLAG interval | {script} | {real} | {" ".intercalate v}"
    ivlLoop h (n + 1) bad mism
  | _ => ivlLoop h n bad mism
