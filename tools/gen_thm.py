#!/usr/bin/env python3
"""Writes lean/CallbagModel/Thm/C01.lean, C02, C03, C17 from one table: the four properties are decided by the same
phase-level safety invariants (`BasicSafe`), so their theorems are the same corollary with a different property number."""
import os
ROOT = os.path.dirname(os.path.dirname(os.path.abspath(__file__)))
# (suffix, binders, machine, proof of BasicSafe for a reachable s, import)
OPS = [
 ("map", "{α β : Type} (f : α → β)", "Relay.machine (Relay.map f)", "Relay.map_basicSafe f s hs", "Relay"),
 ("filter", "{α : Type} (p : α → Bool)", "Relay.machine (Relay.filter p)", "Relay.filter_basicSafe p s hs", "Relay"),
 ("scan", "{α β : Type} (r : β → α → β) (seed : β)", "Relay.machine (Relay.scan r seed)", "Relay.scan_basicSafe r seed s hs", "Relay"),
 ("skip", "{α : Type} (n : Nat)", "Relay.machine (Relay.skip (α := α) n)", "Relay.skip_basicSafe n s hs", "Relay"),
 ("take", "{α : Type} (max : Nat)", "Take.machine α max", "Take.take_basicSafe max s hs", "Take"),
 ("from_iter", "{ι α α' : Type} (next : ι → Option (α × ι)) (it0 : ι)", "FromIter.machine α' next it0", "FromIter.fromIter_basicSafe next it0 s hs", "FromIter"),
 ("for_each", "{α : Type}", "ForEach.machine α", "ForEach.forEach_basicSafe s hs", "ForEach"),
 ("concat", "{α : Type} (n : Nat) (hn : 0 < n)", "Concat.machine α n", "Concat.concat_basicSafe n hn s hs", "Concat"),
]
EXTRA = os.path.join(ROOT, "tools", "thm_extra.py")
if os.path.exists(EXTRA):
    exec(open(EXTRA).read())

TITLE = {"01": "greet first, greet once", "02": "termination is final", "03": "disposal is respected", "17": "no panics with conformant peers"}
for n in ["01", "02", "03", "17"]:
    p = int(n)
    imports = sorted(set(o[4] for o in OPS) | set(globals().get('OPS_IMPORT_EXTRA', [])))
    out = ["import CallbagModel.Inv.XViols"] + [f"import CallbagModel.Inv.{i}" for i in imports]
    out.append(f"""/-!
# C{n} — {TITLE[n]}: property theorems (statements only; the invariants are in `Inv/`)

`SafeFor {p} s`: the monitor (`Core.lean`, `Ph.onOut` / `G.onOut` / `G.onRetO`) has recorded no violation belonging to C{n} in
configuration `s`{" and the operator has not panicked" if p == 17 else ""}.
`SReach M s`: `s` is reachable from the initial configuration of `M` by operator micro-steps and moves of a conformant
environment (`legalIn`/`legalRet`, DESIGN §1.2) — every history, every nesting depth, every data value, every closure.
Theorems whose name ends in `_partial` carry an explicit extra hypothesis or a weaker conclusion; the reason is stated
beside them and in DESIGN.md §5 (known findings).
-/
namespace Cb.Thm
""")
    for (suf, binders, mach, prf, _) in OPS:
        out.append(f"theorem C{n}_{suf} {binders} :\n    ∀ s, SReach ({mach}) s → SafeFor {p} s :=\n  fun s hs => safeFor_of_basicSafe _ s hs ({prf}) {p} (by decide)\n")
    if os.path.exists(EXTRA):
        out.append(extra_theorems(n))
    out.append("end Cb.Thm\n")
    open(os.path.join(ROOT, "lean", "CallbagModel", "Thm", f"C{n}.lean"), "w").write("\n".join(out))
print("wrote Thm/C01, C02, C03, C17")
