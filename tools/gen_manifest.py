#!/usr/bin/env python3
"""Regenerates /verif/MANIFEST.json from the table below (kept in one place so that it stays valid)."""
import json, os
ROOT = os.path.dirname(os.path.dirname(os.path.abspath(__file__)))
BASE_OFF = ("cd /repo && (cargo nextest run --workspace --no-fail-fast --test-threads 8 --offline "
            "|| cargo test --workspace --no-fail-fast --offline)")

# property → (technique, level text, level note, design ref); only properties listed here are claimed
CLAIMS = json.load(open(os.path.join(ROOT, "tools", "claims.json")))
NA = json.load(open(os.path.join(ROOT, "tools", "not_applicable.json")))

checks = []
for pid in sorted(CLAIMS):
    c = CLAIMS[pid]
    checks.append({
        "property_id": pid,
        "quick_cmd": f"./check {pid} --tier quick",
        "thorough_cmd": f"./check {pid} --tier thorough",
        "evidence_file": f"/verif/evidence/{pid}.json",
        "replay_cmd_template": f"./check {pid} --replay {{path}}",
        "engine": "lean-proof+correspondence",
        "level_claimed": {"category": "proof", "text": c["text"], "design_ref": c.get("design_ref", "DESIGN.md §4")},
        "level_note": c["note"],
        "technique": c["technique"],
    })
m = {
    "version": 1,
    "setup_cmd": "./check --setup",
    "hooks": {
        "guard": "verif",
        "enable": "cargo feature `verif` of the callbag crate (harness: `cargo build --features verif`, i.e. callbag/verif); "
                  "scheduling-point stand-ins in src/verif.rs, block-scope `use` in take.rs, merge.rs, combine.rs",
        "baseline_off_cmd": BASE_OFF,
        "source_commits": ["c9cba1d"],
        "add_only": True,
    },
    "engines": [{
        "name": "lean-proof+correspondence", "path": "/verif/check",
        "serves_properties": sorted(CLAIMS),
        "kind_free_text": "Lean 4 theorems about hand-written operator machines (lean/CallbagModel) + a correspondence check that replays "
                          "model-generated environment scripts on the real crate (harness/) and judges the recorded traces with the Lean "
                          "monitor (lean/Driver)",
    }],
    "checks": checks,
    "not_applicable": [{"property_id": k, "reason": v} for k, v in sorted(NA.items()) if k not in CLAIMS],
    "notes": "Fix commits in /repo: 6a5bc56 (take, C19), 39e2d74 and eb7070b (merge, C08/C03/C04). Known findings: known_findings.json. "
             "See DESIGN.md for the trusted base and for which parts of the code are modelled rather than verified.",
}
json.dump(m, open(os.path.join(ROOT, "MANIFEST.json"), "w"), indent=1)
print("claimed:", sorted(CLAIMS), "n/a:", [x["property_id"] for x in m["not_applicable"]])
