#!/usr/bin/env python3
"""
Source fingerprints of the operator files of /repo (DESIGN §9.10).

The hand-written machines of lean/CallbagModel/Ops/*.lean mirror src/<operator>.rs. `fingerprints.json` (committed, never written by a
check) holds, per source file, a hash of its code with comments, blank lines and layout removed, and the sequence of its protocol-relevant
sites (`call!` arms, atomic accesses, slot loads/stores) as recorded when the model was last validated. A check compares the working
tree with it:

  * equal      -> the tier's normal budgets;
  * different  -> STRUCTURE DRIFT for the operators modelled from that file: the correspondence for their instances is run with the
                  thorough tier's random budget and one more level of exhaustive depth, whatever tier was asked for. A harmless
                  rewrite costs time only; a change of behaviour has to survive the deep search.

  tools/fingerprint.py show      print the fingerprints of the working tree
  tools/fingerprint.py record    rewrite fingerprints.json from the working tree (done by hand after re-validating the models)
"""
import sys, os, re, json, hashlib
ROOT = os.path.dirname(os.path.dirname(os.path.abspath(__file__)))
REPO = "/repo"
FP = os.path.join(ROOT, "fingerprints.json")

# instance-name prefix -> source files the model of that instance was written from
FILES = {
    "map": ["src/map.rs"], "filter": ["src/filter.rs"], "scan": ["src/scan.rs"], "skip": ["src/skip.rs"], "take": ["src/take.rs"],
    "take0": ["src/take.rs"], "merge": ["src/merge.rs"], "merge0": ["src/merge.rs"], "concat": ["src/concat.rs"], "concatL": ["src/concat.rs"],
    "combine": ["src/combine.rs"], "combineL": ["src/combine.rs"], "flatten": ["src/flatten.rs"], "flattenL": ["src/flatten.rs"],
    "share": ["src/share.rs"], "fromiter": ["src/from_iter.rs"], "foreach": ["src/for_each.rs"], "interval": ["src/interval.rs"],
}
COMMON = ["src/core.rs", "src/utils/mod.rs", "src/utils/tracing.rs", "src/lib.rs", "src/pipe.rs", "src/verif.rs"]

SITE = re.compile(r"call!\s*\(|\.load\s*\(|\.store\s*\(|\.swap\s*\(|\.rcu\s*\(|\.fetch_\w+\s*\(|\.compare_exchange\w*\s*\(|panic!\s*\(|\.expect\s*\(|\.unwrap\s*\(|Message::(Handshake|Data|Pull|Error|Terminate)")


def strip(src):
    src = re.sub(r"/\*.*?\*/", "", src, flags=re.S)
    out = []
    for line in src.splitlines():
        line = re.sub(r"//.*$", "", line)
        out.append(line)
    return re.sub(r"\s+", "", "\n".join(out))


def fingerprint(path):
    try:
        src = open(os.path.join(REPO, path)).read()
    except OSError:
        return None
    # documentation examples live in `//!` / `///` comments and are removed with them
    code = strip(src)
    sites = [m.group(0).replace(" ", "") for m in SITE.finditer(re.sub(r"//.*$", "", src, flags=re.M))]
    return dict(code=hashlib.sha256(code.encode()).hexdigest()[:16], sites=hashlib.sha256(" ".join(sites).encode()).hexdigest()[:16],
                n_sites=len(sites))


def current():
    files = sorted({f for fs in FILES.values() for f in fs} | set(COMMON))
    return {f: fingerprint(f) for f in files if fingerprint(f) is not None}


def load():
    return json.load(open(FP)) if os.path.exists(FP) else {}


def drifted_files():
    """files whose code differs from the recorded fingerprint (or that have none)"""
    rec, cur = load().get("files", {}), current()
    return sorted(f for f, v in cur.items() if rec.get(f, {}).get("code") != v["code"])


def drifted_instance(inst, drifted=None):
    """does `inst` (e.g. `merge:2`, `chain:map,add,1/take,2`) depend on a drifted source file?"""
    drifted = drifted_files() if drifted is None else drifted
    if not drifted:
        return False
    if any(f in drifted for f in COMMON):
        return True
    names = []
    if inst.startswith("at:"):
        names = [st.split(",")[0] for st in inst[3:].split("/")[1:]]
    elif inst.startswith("in:"):
        names = ["fromiter", inst.split("/")[-1].split(",")[0]]
    elif inst.startswith("chain:"):
        names = [st.split(",")[0] for st in inst[6:].split("/")]
    else:
        names = [inst.split(":")[0]]
    for n in names:
        for f in FILES.get(n, []):
            if f in drifted:
                return True
    return False


if __name__ == "__main__":
    cmd = sys.argv[1] if len(sys.argv) > 1 else "show"
    if cmd == "record":
        head = os.popen(f"git -C {REPO} rev-parse HEAD").read().strip()
        json.dump(dict(_comment="fingerprints of the operator sources the models were validated against; rewritten only by `tools/fingerprint.py record`",
                       repo_head=head, files=current()), open(FP, "w"), indent=1)
        print("recorded", len(current()), "files at", head)
    else:
        print(json.dumps(dict(files=current(), drifted=drifted_files()), indent=1))
