OPS += [
 ("merge", "{α : Type} (n : Nat)", "Merge.machine α n", "Merge.merge_basicSafe n s hs", "Merge"),
 ("flatten", "{α : Type}", "Flatten.machine α", "Flatten.flatten_basicSafe s hs", "Flatten"),
]
def extra_theorems(n):
    p = int(n)
    full = ""
    if n in ("01", "17"):
        full = f"""
/-- `share`, EVERY conformant environment (nested fan-out included): the only phase-level violations share can commit are deliveries
to sinks that are already done (C02/C03, known findings KF5a/KF5b), hence C{n} holds in full. -/
theorem C{n}_share {{α : Type}} :
    ∀ s, SReach (Share.machine α) s → SafeFor {p} s :=
  fun s hs => safeFor_of_onlyLateDelivery _ s hs (ShareWeak.share_safe_weak s hs).1 (ShareWeak.share_safe_weak s hs).2 {p} (by decide)
"""
    return full + f"""/-- `combine!`: the full phase-level safety statement is false (known findings KF2, KF3: messages to members that are not
live, a C04 matter); what is proved is that those are the ONLY phase-level violations, hence C{n} holds in full. -/
theorem C{n}_combine {{α : Type}} (n : Nat) :
    ∀ s, SReach (Combine.machine α n) s → SafeFor {p} s :=
  fun s hs => safeFor_of_onlyUpNotLive _ s hs (Combine.combine_safe_partial n s hs).1 (Combine.combine_safe_partial n s hs).2 {p} (by decide)

/-- `share`: proved for environments in which the source does not deliver from inside one of share's own deliveries
(`noNestedFanout`, the restriction C12 makes in its own quantifier). Without it C02 and C03 are false for 2+ sinks (known
findings KF5a, KF5b; see `Thm/Counterexamples.lean`). -/
theorem C{n}_share_partial {{α : Type}} :
    ∀ s, SReachR (Share.machine α) noNestedFanout s → SafeFor {p} s :=
  fun s hs => safeFor_of_basicSafe _ s hs.weaken (Share.share_basicSafe_partial s hs) {p} (by decide)
"""
OPS_IMPORT_EXTRA = ["Combine", "Share", "ShareWeak"]
