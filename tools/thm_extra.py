OPS += [
 ("merge", "{α : Type} (n : Nat)", "Merge.machine α n", "Merge.merge_basicSafe n s hs", "Merge"),
 ("flatten", "{α : Type}", "Flatten.machine α", "Flatten.flatten_basicSafe s hs", "Flatten"),
 # pipe!(source, op₁, op₂) of two relays as ONE machine (Ops/Compose.lean), via the fusion refinement (Inv/Fuse.lean)
 ("pipe_of_two_relays", "{σ₁ σ₂ α β γ : Type} (k₁ : Relay.Kind σ₁ α β) (k₂ : Relay.Kind σ₂ β γ)\n    (h₁ : k₁.slotted = false → ∀ s a, (k₁.xfer s a).2 ≠ none) (h₂ : k₂.slotted = false → ∀ s b, (k₂.xfer s b).2 ≠ none)",
  "compose (Relay.machine k₁) (Relay.machine k₂)", "Fuse.compose_relay_basicSafe k₁ k₂ h₁ h₂ s hs", "Fuse"),
 # pipelines of ANY length and bracketing: assume–guarantee (Inv/ComposeSafe.lean); `Pipeable` is closed under `compose`
 # (`Pipeable.compose`), base cases `Relay.pipeable` (map / filter / scan / skip) and `Take.pipeable`
 ("pipeline", "{S1 L1 S2 L2 α β γ : Type} {M1 : Machine S1 L1 α β} {M2 : Machine S2 L2 β γ} (P1 : Pipeable M1) (P2 : Pipeable M2)",
  "compose M1 M2", "(P1.compose P2).safe s hs", "ComposeSafe"),
 # closed pull pipelines pipe!(<head>, <stages of any length>, for_each(f)): head = from_iter / concat! / flatten (`UpSide`),
 # stages = any `Pipeable` (Inv/ComposeInst.lean)
 ("closed_pipeline", "{S1 L1 S2 L2 α β γ : Type} {Msrc : Machine S1 L1 α β} {Mmid : Machine S2 L2 β γ} (hsrc : UpSide Msrc) (hmid : Pipeable Mmid)",
  "compose (compose Msrc Mmid) (ForEach.machine γ)", "closed_pipeline_safe hsrc hmid s hs", "ComposeInst"),
 # n-ary operators with closed sources plugged into their slots (Ops/Plug.lean, Inv/PlugSafe.lean): concat!(A, B), merge!(A, src), …
 ("plugged", "{S1 L1 S2 L2 α β γ : Type} {M1 : Machine S1 L1 α β} {M2 : Machine S2 L2 β γ} (H : PlugSafe.HypP M1 M2) (j : Nat)",
  "plug j M1 M2", "PlugSafe.plug_basicSafe H j s hs", "PlugSafe"),
 # flatten(map(g)(outer)) as a network with dynamically created inner sources (Ops/FlatPlug.lean, Inv/FlatPlugSafe.lean)
 ("flatten_network", "{So Lo Si Li αo αi : Type} {Mo : Machine So Lo αo Int} {Mi : Machine Si Li αi Int} {initOf : Int → Si}\n    (H : FlatPlugSafe.HypF Mo Mi initOf)",
  "flatPlug Mo Mi initOf", "FlatPlugSafe.flatPlug_basicSafe H s hs", "FlatPlugSafe"),
 # a pipeable operator as a MEMBER of concat! (Ops/PlugOp.lean, Inv/PlugOpSafe.lean): concat!(a, skip(1)(b)), concat!(take(2)(a), b), …
 ("member_of_concat", "{S1 L1 β : Type} {M1 : Machine S1 L1 β β} (h1 : Pipeable M1) (n : Nat) (hn : 0 < n) (j : Nat)",
  "plugOp j M1 (Concat.machine β n)", "PlugOpSafe.plugOp_concat_basicSafe h1 n hn j s hs", "PlugOpSafe"),
 # … and of merge! (late greeters): merge!(take(2)(a), b), merge!(a, filter(p)(b)) — Inv/LateMember.lean (relays and take proved safe under
 # a late-greeting upstream; `open2` is FALSE for merge (kernel-checked: `merge_not_open2`), replaced by "M₁ subscribes only inside its own subscription")
 ("take_member_of_merge", "{α : Type} (max n j : Nat)",
  "plugOp j (Take.machine α max) (Merge.machine α n true)", "LateMember.plugOp_take_merge_basicSafe max n j s hs", "LateMember"),
 ("relay_member_of_merge", "{σ α : Type} (kd : Relay.Kind σ α α) (hk : kd.slotted = false → ∀ s a, (kd.xfer s a).2 ≠ none) (n j : Nat)",
  "plugOp j (Relay.machine kd) (Merge.machine α n true)", "LateMember.plugOp_relay_merge_basicSafe kd hk n j s hs", "LateMember"),
]
READABLE = {
 "01": ("GreetFirstOnce", "greetFirstOnce_of_clean hs (fun v hv => h.1 v (by unfold G.viols; exact List.mem_append_right _ hv)) k",
        "(h : SafeFor 1 s)",
        "a sink is greeted at most once and every delivery to it comes after its greeting (positions in the chronological trace)"),
 "02": ("TerminalFinal", "terminalFinal_of_clean hs (fun v hv => ⟨h1.1 v (by unfold G.viols; exact List.mem_append_right _ hv), h2.1 v (by unfold G.viols; exact List.mem_append_right _ hv), h3.1 v (by unfold G.viols; exact List.mem_append_right _ hv)⟩) k",
        "(h1 : SafeFor 1 s) (h2 : SafeFor 2 s) (h3 : SafeFor 3 s)",
        "after a terminal message to a sink nothing else is delivered to it. All three of C01, C02, C03 are needed: the monitor files a delivery under the property of the phase the sink is in (`Rd.terminalFinal_needs_C01`, `Rd.terminalFinal_needs_C03` are kernel-checked counterexamples with only one of them missing)"),
 "03": ("DisposalRespected", "disposalRespected_of_clean hs (fun v hv => h.1 v (by unfold G.viols; exact List.mem_append_right _ hv)) k",
        "(h : SafeFor 3 s)",
        "once a sink has sent Terminate or Error on its talkback no further delivery to it begins"),
}
def readable_theorems(n):
    if n not in READABLE: return ""
    pred, prf, hyps, doc = READABLE[n]
    out = f"""
/-! ## What the monitor verdict means, in terms of the trace alone

`SafeFor {int(n)}` is a statement about the ghost monitor. The theorem below reads it back as a statement about positions in the
boundary trace `s.tr` (newest first; `chronAt tr p` is the `p`-th event in chronological order) that does not mention the
monitor — for EVERY machine, so that the monitor itself is not part of what has to be believed. -/

/-- C{n}, readable form: {doc}. -/
theorem C{n}_readable {{St Loc α β : Type}} (M : Machine St Loc α β) (s : Sys St Loc α β) (hs : SReach M s)
    {hyps} (k : Nat) : {pred} k s.tr :=
  {prf}
"""
    for (suf, binders, mach, prf2, _) in OPS:
        out += f"""
theorem C{n}_{suf}_readable {binders} :
    ∀ s, SReach ({mach}) s → ∀ k, {pred} k s.tr :=
  fun s hs k => (readable_of_noViols hs ({prf2}).1 k).{ {"01":"1","02":"2.1","03":"2.2"}[n] }
"""
    return out

ORACLE = """
/-- the oracle that judges traces recorded from the real crate IS the monitor of these theorems: on every model execution the
machine-free monitor `monRun` (Mon.lean), folded over the boundary trace alone, computes exactly the ghost carried by the configuration
(`Inv/MonSound.lean`: `monRun_sound`), so `SafeFor %(p)d` can be read off the trace -/
theorem C%(n)s_oracle_is_the_monitor {St Loc α β : Type} (M : Machine St Loc α β) :
    ∀ s, SReach M s →
      (SafeFor %(p)d s ↔ (∀ v ∈ (monRun M.shape s.tr.reverse).g.viols, v.prop ≠ %(p)d) ∧
        (%(p)d = 17 → (monRun M.shape s.tr.reverse).panicked = false)) :=
  safeFor_iff_monRun M %(p)d
"""

def extra_theorems(n):
    p = int(n)
    full = readable_theorems(n) + (ORACLE % dict(n=n, p=p))
    if n in ("01", "17"):
        full = f"""
/-- `share`, EVERY conformant environment (nested fan-out included): the only phase-level violations share can commit are deliveries
to sinks that are already done (C02/C03, known findings KF5a/KF5b), hence C{n} holds in full. -/
theorem C{n}_share {{α : Type}} :
    ∀ s, SReach (Share.machine α) s → SafeFor {p} s :=
  fun s hs => safeFor_of_onlyLateDelivery _ s hs (ShareWeak.share_safe_weak s hs).1 (ShareWeak.share_safe_weak s hs).2 {p} (by decide)
"""
    if n in ("01", "17"):
        full += f"""
/-- `share` under the WIDER cross-sink environment (`SemCS.lean`: while share is delivering to one sink any live sink may pull or dispose —
`merge!(s, s)` over a shared `s`): its only deviations are late deliveries (C02/C03: KF5a–KF5c) and a Pull forwarded to an upstream
that has just ended (C04: KF5d); hence C{n} holds on those histories too (`Inv/ShareCS.lean`). -/
theorem C{n}_share_cross_sink {{α : Type}} :
    ∀ s, CSReach (Share.machine α) s → SafeFor {p} s := by
  intro s hs
  obtain ⟨hv, hx, hp⟩ := ShareCS.share_safe_cs s hs
  refine ⟨?_, fun _ => hp⟩
  intro v hm
  unfold G.viols at hm
  rw [hx, List.nil_append] at hm
  rcases hv v hm with ⟨k, rfl⟩ | ⟨k, rfl⟩ | ⟨i, rfl⟩ <;> simp [Viol.prop]
"""
    return full + f"""/-- `combine!`: the full phase-level safety statement is false (known findings KF2, KF3: messages to members that are not
live, a C04 matter); what is proved is that those are the ONLY phase-level violations, hence C{n} holds in full. -/
theorem C{n}_combine {{α : Type}} (n : Nat) :
    ∀ s, SReach (Combine.machine α n) s → SafeFor {p} s :=
  fun s hs => safeFor_of_onlyUpNotLive _ s hs (Combine.combine_safe_partial n s hs).1 (Combine.combine_safe_partial n s hs).2 {p} (by decide)

/-- `share`: proved for environments in which the source does not deliver from inside one of share's own deliveries
(`noNestedFanout`, the restriction C12 makes in its own quantifier). Without it C02 and C03 are false for 2+ sinks (known
findings KF5a, KF5b; see `Thm/Counterexamples.lean`). -/
theorem C{n}_share_partial {{α : Type}} :
    ∀ s, SReachR (Share.machine α) noNestedFanout s → SafeFor {p} s :=
  fun s hs => safeFor_of_basicSafe _ s hs.weaken (Share.share_basicSafe_partial s hs) {p} (by decide)
"""
OPS_IMPORT_EXTRA = ["Combine", "Share", "ShareWeak", "Readable", "MonSound", "ShareCS"]
