"""Extra verdict streams beyond sequential script replay."""
import os, re, json, subprocess
from concurrent.futures import ThreadPoolExecutor

# ------------------------------------------------------------------------------------------------ thread schedules
SCHED = {
    "C19": {
        "quick": [("take:1 | d1 | d2", 3000), ("take:2 | d1 d2 | d3", 3000), ("take:2 | d1 | d2", 3000), ("take:3 | d1 | d2", 2000),
                  ("take:1 | d1 d2 | d3", 3000), ("take:1 | d1 | d2 | d3", 3000), ("takemerge:1:2 | d1 | d2", 3000),
                  ("takemerge:1:2 | d1 t | d2 t", 3000)],
        "thorough": [("take:1 | d1 | d2", 10**6), ("take:2 | d1 d2 | d3", 10**6), ("take:2 | d1 | d2", 10**6), ("take:3 | d1 | d2", 10**6),
                     ("take:1 | d1 d2 | d3", 10**6), ("take:1 | d1 | d2 | d3", 150000), ("take:2 | d1 | d2 | d3", 150000),
                     ("take:2 | d1 d2 | d3 d4", 150000), ("take:3 | d1 d2 | d3 d4", 150000),
                     ("takemerge:1:2 | d1 | d2", 150000), ("takemerge:1:2 | d1 t | d2 t", 150000), ("takemerge:2:2 | d1 d2 | d3", 150000),
                     ("takemerge:1:3 | d1 | d2 | d3", 150000)],
    },
    "C18": {
        "quick": [("merge:2 | d1 t | d2 t", 3000), ("merge:2 | g d1 | g d2", 3000), ("merge:2 | g t | g t", 3000), ("merge:2 | d1 e | d2 t", 3000),
                  ("merge:3 | t | t | t", 3000), ("merge:2 | g | g", 3000),
                  ("combine:2 | d1 t | d2 t", 3000), ("combine:2 | g | g", 3000), ("combine:2 | t | t", 3000), ("combine:2 | d1 | d2", 3000),
                  ("combine:2 | d1 d3 | d2", 3000)],
        "thorough": [("merge:2 | d1 t | d2 t", 10**6), ("merge:2 | g d1 | g d2", 10**6), ("merge:2 | g t | g t", 10**6), ("merge:2 | d1 e | d2 t", 10**6),
                     ("merge:3 | t | t | t", 10**6), ("merge:2 | g | g", 10**6), ("merge:2 | g d1 t | g d2 t", 150000),
                     ("merge:2 | d1 d2 t | d3 d4 t", 150000), ("merge:3 | d1 t | d2 t | d3 t", 150000), ("merge:3 | d1 t | d2 e | d3 t", 150000),
                     ("merge:3 | g | g | g", 150000),
                     ("combine:2 | d1 t | d2 t", 10**6), ("combine:2 | g | g", 10**6), ("combine:2 | t | t", 10**6), ("combine:2 | d1 | d2", 10**6),
                     ("combine:2 | d1 d3 | d2", 10**6), ("combine:2 | d1 d3 t | d2 d4 t", 150000), ("combine:3 | d1 | d2 | d3", 150000),
                     ("combine:3 | t | t | t", 150000), ("combine:2 | g d1 | g d2", 150000)],
    },
}


def parse_outcome(txt):
    m = re.match(r"greets=(\d+) datas=\[(.*?)\] terms=(\d+) errs=(\d+) upTerms=(\d+) termWhileData=(\w+) afterTerm=(\d+) panics=(\d+)", txt.strip())
    if not m:
        return None
    datas = [d for d in re.findall(r"\[[^\]]*\]|[^,\[\]]+", m.group(2))] if m.group(2) else []
    return dict(greets=int(m.group(1)), datas=datas, terms=int(m.group(3)), errs=int(m.group(4)), upTerms=int(m.group(5)),
                termWhileData=m.group(6) == "true", afterTerm=int(m.group(7)), panics=int(m.group(8)))


def oracle(scenario, o):
    """the property's verdict on one observable outcome of the REAL crate; returns a list of clause names that fail"""
    parts = [p.strip() for p in scenario.split("|")]
    op = parts[0].split(":")
    threads = [p.split() for p in parts[1:]]
    sent = [a[1:] for t in threads for a in t if a.startswith("d")]
    bad = []
    if o["panics"] > 0:
        bad.append("panic")
    if op[0] in ("take", "takemerge"):
        mx = int(op[1])
        if len(o["datas"]) > mx:
            bad.append("overDelivery")
        if o["terms"] > 1:
            bad.append("sinkTerminatedTwice")
        if op[0] == "take" and o["upTerms"] > 1:
            bad.append("upstreamTerminatedTwice")
        if len(o["datas"]) == mx and mx > 0 and not (o["terms"] == 1 and o["upTerms"] >= 1):
            bad.append("noCompletionAfterNth")
        if len(set(o["datas"])) != len(o["datas"]) or any(d not in sent for d in o["datas"]):
            bad.append("dataNotSent")
    elif op[0] == "merge":
        failing = any("e" in t for t in threads)
        all_end = all(t and t[-1] in ("t", "e") for t in threads)
        n = int(op[1])
        any_greeted = True
        if o["greets"] != 1:
            bad.append("greetCount")
        if not failing:
            if sorted(o["datas"]) != sorted(sent):
                bad.append("dataNotExactlyOnce")
            if all_end and len(threads) == n and o["terms"] != 1:
                bad.append("completionCount")
            if o["terms"] > 1 or o["errs"] > 0:
                bad.append("completionCount")
            if o["termWhileData"] or o["afterTerm"] > 0:
                bad.append("completionBeforeDataReturned")
        else:
            if o["errs"] != 1 or o["terms"] != 0:
                bad.append("errorCount")
            if len(set(o["datas"])) != len(o["datas"]) or any(d not in sent for d in o["datas"]):
                bad.append("dataNotExactlyOnce")
    elif op[0] == "combine":
        n = int(op[1])
        if o["greets"] != 1:
            bad.append("greetCount")
        for tup in o["datas"]:
            vals = tup.strip("[]").split(";")
            if len(vals) != n or any(v not in sent for v in vals):
                bad.append("incompleteTuple")
            else:
                for i, v in enumerate(vals):
                    if v not in [a[1:] for a in threads[i] if a.startswith("d")]:
                        bad.append("tupleValueFromWrongMember")
        all_end = all(t and t[-1] in ("t", "e") for t in threads) and len(threads) == n
        if o["terms"] > 1 or (all_end and o["panics"] == 0 and o["terms"] != 1):
            bad.append("completionCount")
        if o["termWhileData"] or (o["afterTerm"] > 0):
            bad.append("completionBeforeDataReturned")
    return sorted(set(bad))


def run_sched(prop, tier, seed, ctx):
    hb = ctx["harness_bin"]("verif")
    scen = SCHED[prop][tier]
    def real(sc):
        p = subprocess.run([hb, "sched-all", str(sc[1])], input=sc[0] + "\n", capture_output=True, text=True, timeout=3500)
        return p.stdout.strip()
    with ThreadPoolExecutor(max_workers=16) as ex:
        reals = list(ex.map(real, scen))
    model_in = "\n".join(s[0] for s in scen if not s[0].startswith("takemerge")) + "\n"
    pm = subprocess.run([ctx["CBDRV"], "par"], input=model_in, capture_output=True, text=True, timeout=3500)
    model = {}
    for l in pm.stdout.splitlines():
        parts = l.split(" # ")
        if len(parts) == 3:
            model[parts[0].strip()] = set(x.strip() for x in parts[2].split(" ; ") if x.strip())
    known = ctx["known"]
    res = dict(coverage=dict(evaluations=0, distinct_nontrivial=0, samples=[], scenarios=[]), known=[], violations=[], mismatches=[])
    for (sc, limit), line in zip(scen, reals):
        parts = line.split(" # ")
        if len(parts) != 3 or parts[1].startswith("?"):
            res["mismatches"].append(f"sched | {sc} | harness output: {line[:200]}")
            continue
        m = re.match(r"schedules=(\d+) complete=(\w+)", parts[1])
        n, complete = int(m.group(1)), m.group(2) == "true"
        outs = {}
        for x in parts[2].split(" ; "):
            mm = re.match(r"(.*) @(\d*)$", x.strip())
            if mm:
                outs[mm.group(1).strip()] = mm.group(2)
        res["coverage"]["evaluations"] += n
        res["coverage"]["distinct_nontrivial"] += len(outs)
        res["coverage"]["scenarios"].append(dict(scenario=sc, schedules=n, exhaustive=complete, outcomes=len(outs),
                                                 model_outcomes=len(model.get(sc, [])) if sc in model else None))
        if len(res["coverage"]["samples"]) < 3:
            k = sorted(outs)[0]
            res["coverage"]["samples"].append(dict(scenario=sc, schedule=outs[k], outcome=k))
        # stream 3: outcome sets of model and implementation
        if sc in model:
            if complete and set(outs) != model[sc]:
                res["mismatches"].append(f"sched | {sc} | outcome sets differ: only-real={sorted(set(outs) - model[sc])[:3]} only-model={sorted(model[sc] - set(outs))[:3]}")
            elif not complete and not set(outs) <= model[sc]:
                res["mismatches"].append(f"sched | {sc} | real outcome not reachable in the model: {sorted(set(outs) - model[sc])[:3]}")
        # stream 2: the oracle on the real outcomes
        op = sc.split("|")[0].strip().split(":")[0]
        for otxt, sched in outs.items():
            o = parse_outcome(otxt)
            bad = oracle(sc, o) if o else ["unparsable"]
            if not bad:
                continue
            hit = None
            for e in known.get("findings", []):
                if e["property"] == prop and e["operator"] == op and set(bad) <= set(e["clauses"]):
                    hit = e
            if hit:
                res["known"].append(dict(id=hit["id"], what=f"{sc} @{sched}: {otxt}"))
            else:
                res["violations"].append(dict(kind="impl-vs-oracle", scenario=sc, schedule=sched, outcome=otxt, clauses=bad,
                                              replay_cmd=f"echo '{sc} # {sched}' | harness/target-verif/debug/cbharness sched-run"))
    res["coverage"]["rule"] = ("evaluations = schedules executed on the real crate (verif build, token scheduler, stateless DFS, per-scenario "
                               "cap); distinct_nontrivial = distinct observable outcomes over all scenarios; every scenario has >= 2 racing threads")
    return res


# ------------------------------------------------------------------------------------------------ interval (C16)
def ivl_scripts(max_subs, max_len):
    """all scripts ≤ max_len over ≤ max_subs subscriptions: each subscription starts with its S token, indices appear in order"""
    out = []
    def rec(prefix, subs, length):
        if prefix:
            out.append(" ".join(prefix))
        if length == max_len:
            return
        for j in range(subs):
            for t in (f"T{j}", f"T{j}q", f"Q{j}"):
                rec(prefix + [t], subs, length + 1)
        if subs < max_subs:
            for r in "osc":
                rec(prefix + [f"S{subs}{r}"], subs + 1, length + 1)
    rec([], 0, 0)
    return out


def run_interval(prop, tier, seed, ctx):
    import random
    rnd = random.Random(seed)
    hb = ctx["harness_bin"]("default")
    scripts = ivl_scripts(2, 6) if tier == "quick" else ivl_scripts(2, 8) + ivl_scripts(3, 7)
    # random long scripts, up to 4 subscriptions
    for _ in range(2000 if tier == "quick" else 100000):
        subs, toks = 0, []
        for _ in range(rnd.randint(5, 40)):
            if subs == 0 or (subs < 4 and rnd.random() < 0.15):
                toks.append(f"S{subs}{rnd.choice('ooosc')}")
                subs += 1
            else:
                j = rnd.randrange(subs)
                toks.append(rnd.choice([f"T{j}", f"T{j}", f"T{j}", f"T{j}q", f"Q{j}"]))
        scripts.append(" ".join(toks))
    scripts = sorted(set(scripts))
    n = 16
    shards = [scripts[i::n] for i in range(n)]
    def run(sh_lines):
        if not sh_lines:
            return ""
        p = subprocess.run([hb, "interval"], input="\n".join(sh_lines) + "\n", capture_output=True, text=True, timeout=3500)
        q = subprocess.run([ctx["CBDRV"], "ivl"], input=p.stdout, capture_output=True, text=True, timeout=3500)
        return p.stdout, q.stdout
    with ThreadPoolExecutor(max_workers=n) as ex:
        outs = [o for o in ex.map(run, shards) if o]
    res = dict(coverage=dict(evaluations=len(scripts), distinct_nontrivial=0, samples=[]), known=[], violations=[], mismatches=[])
    nontrivial = 0
    for rec, judged in outs:
        for l in rec.splitlines():
            # non-trivial: at least two subscriptions interleaved, or a disposal followed by a later tick
            toks = l.split("|")[0].split()
            if len({t[1] for t in toks if t[0] == "S"}) >= 2 or any(t[0] == "Q" or t.endswith("q") for t in toks[:-1]):
                nontrivial += 1
        for l in judged.splitlines():
            if l.startswith("MISMATCH "):
                res["mismatches"].append(l[9:])
            elif l.startswith("FLAG "):
                parts = [p.strip() for p in l[5:].split("|")]
                res["violations"].append(dict(kind="impl-vs-oracle", instance="interval", script=parts[1], recorded=parts[2], verdict=parts[3],
                                              replay_cmd=f"echo '{parts[1]}' | harness/target-default/debug/cbharness interval"))
    res["coverage"]["distinct_nontrivial"] = nontrivial
    if outs:
        res["coverage"]["samples"] = [dict(run=l) for l in outs[0][0].splitlines()[-2:]]
    res["coverage"]["rule"] = ("interval under a mock Nurse+Timer with a virtual clock: every script of subscriptions (spawn ok/Spawn/Closed), timer "
                               "expiries, disposals at top level and from inside the data handler, up to the tier's length for <= 2 (3) subscriptions, "
                               "+ seeded random scripts up to 40 events, 4 subscriptions; non-trivial = >= 2 subscriptions or a disposal followed by later events")
    return res
