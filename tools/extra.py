"""Extra verdict streams beyond sequential script replay (added as they are built)."""
