"""Extra verdict streams beyond sequential script replay."""
import os, re, json, subprocess
from concurrent.futures import ThreadPoolExecutor

# ------------------------------------------------------------------------------------------------ thread schedules
SCHED = {
    "C19": {
        "quick": [("take:1 | d1 | d2", 3000), ("take:2 | d1 d2 | d3", 3000), ("take:2 | d1 | d2", 3000), ("take:3 | d1 | d2", 2000),
                  ("take:1 | d1 d2 | d3", 3000), ("take:1 | d1 | d2 | d3", 3000), ("takemerge:1:2 | d1 | d2", 3000),
                  ("takemerge:1:2 | d1 t | d2 t", 3000)],
        "thorough": [("take:1 | d1 | d2", 10**6), ("take:2 | d1 d2 | d3", 10**6), ("take:2 | d1 | d2", 10**6), ("take:3 | d1 | d2", 10**6),
                     ("take:1 | d1 d2 | d3", 10**6), ("take:1 | d1 | d2 | d3", 150000), ("take:2 | d1 | d2 | d3", 150000),
                     ("take:2 | d1 d2 | d3 d4", 150000), ("take:3 | d1 d2 | d3 d4", 150000),
                     ("takemerge:1:2 | d1 | d2", 150000), ("takemerge:1:2 | d1 t | d2 t", 150000), ("takemerge:2:2 | d1 d2 | d3", 150000),
                     ("takemerge:1:3 | d1 | d2 | d3", 150000)],
    },
    "C18": {
        "quick": [("merge:2 | d1 t | d2 t", 3000), ("merge:2 | g d1 | g d2", 3000), ("merge:2 | g t | g t", 3000), ("merge:2 | d1 e | d2 t", 3000),
                  ("merge:3 | t | t | t", 3000), ("merge:2 | g | g", 3000),
                  ("combine:2 | d1 t | d2 t", 3000), ("combine:2 | g | g", 3000), ("combine:2 | t | t", 3000), ("combine:2 | d1 | d2", 3000),
                  ("combine:2 | d1 d3 | d2", 3000)],
        "thorough": [("merge:2 | d1 t | d2 t", 10**6), ("merge:2 | g d1 | g d2", 10**6), ("merge:2 | g t | g t", 10**6), ("merge:2 | d1 e | d2 t", 10**6),
                     ("merge:3 | t | t | t", 10**6), ("merge:2 | g | g", 10**6), ("merge:2 | g d1 t | g d2 t", 150000),
                     ("merge:2 | d1 d2 t | d3 d4 t", 150000), ("merge:3 | d1 t | d2 t | d3 t", 150000), ("merge:3 | d1 t | d2 e | d3 t", 150000),
                     ("merge:3 | g | g | g", 150000),
                     ("combine:2 | d1 t | d2 t", 10**6), ("combine:2 | g | g", 10**6), ("combine:2 | t | t", 10**6), ("combine:2 | d1 | d2", 10**6),
                     ("combine:2 | d1 d3 | d2", 10**6), ("combine:2 | d1 d3 t | d2 d4 t", 150000), ("combine:3 | d1 | d2 | d3", 150000),
                     ("combine:3 | t | t | t", 150000), ("combine:2 | g d1 | g d2", 150000)],
    },
}


def parse_outcome(txt):
    m = re.match(r"greets=(\d+) datas=\[(.*?)\] terms=(\d+) errs=(\d+) upTerms=(\d+) termWhileData=(\w+) afterTerm=(\d+) panics=(\d+)", txt.strip())
    if not m:
        return None
    datas = [d for d in re.findall(r"\[[^\]]*\]|[^,\[\]]+", m.group(2))] if m.group(2) else []
    return dict(greets=int(m.group(1)), datas=datas, terms=int(m.group(3)), errs=int(m.group(4)), upTerms=int(m.group(5)),
                termWhileData=m.group(6) == "true", afterTerm=int(m.group(7)), panics=int(m.group(8)))


def oracle(scenario, o):
    """the property's verdict on one observable outcome of the REAL crate; returns a list of clause names that fail"""
    parts = [p.strip() for p in scenario.split("|")]
    op = parts[0].split(":")
    threads = [p.split() for p in parts[1:]]
    sent = [a[1:] for t in threads for a in t if a.startswith("d")]
    bad = []
    if o["panics"] > 0:
        bad.append("panic")
    if op[0] in ("take", "takemerge"):
        mx = int(op[1])
        if len(o["datas"]) > mx:
            bad.append("overDelivery")
        if o["terms"] > 1:
            bad.append("sinkTerminatedTwice")
        if op[0] == "take" and o["upTerms"] > 1:
            bad.append("upstreamTerminatedTwice")
        if len(o["datas"]) == mx and mx > 0 and not (o["terms"] == 1 and o["upTerms"] >= 1):
            bad.append("noCompletionAfterNth")
        if len(set(o["datas"])) != len(o["datas"]) or any(d not in sent for d in o["datas"]):
            bad.append("dataNotSent")
    elif op[0] == "merge":
        failing = any("e" in t for t in threads)
        all_end = all(t and t[-1] in ("t", "e") for t in threads)
        n = int(op[1])
        any_greeted = True
        if o["greets"] != 1:
            bad.append("greetCount")
        if not failing:
            if sorted(o["datas"]) != sorted(sent):
                bad.append("dataNotExactlyOnce")
            if all_end and len(threads) == n and o["terms"] != 1:
                bad.append("completionCount")
            if o["terms"] > 1 or o["errs"] > 0:
                bad.append("completionCount")
            if o["termWhileData"] or o["afterTerm"] > 0:
                bad.append("completionBeforeDataReturned")
        else:
            if o["errs"] != 1 or o["terms"] != 0:
                bad.append("errorCount")
            if len(set(o["datas"])) != len(o["datas"]) or any(d not in sent for d in o["datas"]):
                bad.append("dataNotExactlyOnce")
    elif op[0] == "combine":
        n = int(op[1])
        if o["greets"] != 1:
            bad.append("greetCount")
        for tup in o["datas"]:
            vals = tup.strip("[]").split(";")
            if len(vals) != n or any(v not in sent for v in vals):
                bad.append("incompleteTuple")
            else:
                for i, v in enumerate(vals):
                    if v not in [a[1:] for a in threads[i] if a.startswith("d")]:
                        bad.append("tupleValueFromWrongMember")
        all_end = all(t and t[-1] in ("t", "e") for t in threads) and len(threads) == n
        if o["terms"] > 1 or (all_end and o["panics"] == 0 and o["terms"] != 1):
            bad.append("completionCount")
        if o["termWhileData"] or (o["afterTerm"] > 0):
            bad.append("completionBeforeDataReturned")
    return sorted(set(bad))


def run_sched(prop, tier, seed, ctx):
    hb = ctx["harness_bin"]("verif")
    scen = SCHED[prop][tier]
    def real(sc):
        p = subprocess.run([hb, "sched-all", str(sc[1])], input=sc[0] + "\n", capture_output=True, text=True, timeout=3500)
        return p.stdout.strip()
    with ThreadPoolExecutor(max_workers=16) as ex:
        reals = list(ex.map(real, scen))
    model_in = "\n".join(s[0] for s in scen) + "\n"
    pm = subprocess.run([ctx["CBDRV"], "par"], input=model_in, capture_output=True, text=True, timeout=3500)
    model = {}
    for l in pm.stdout.splitlines():
        parts = l.split(" # ")
        if len(parts) == 3:
            model[parts[0].strip()] = set(x.strip() for x in parts[2].split(" ; ") if x.strip())
    known = ctx["known"]
    res = dict(coverage=dict(evaluations=0, distinct_nontrivial=0, samples=[], scenarios=[]), known=[], violations=[], mismatches=[])
    for (sc, limit), line in zip(scen, reals):
        parts = line.split(" # ")
        if len(parts) != 3 or parts[1].startswith("?"):
            res["mismatches"].append(f"sched | {sc} | harness output: {line[:200]}")
            continue
        m = re.match(r"schedules=(\d+) complete=(\w+)", parts[1])
        n, complete = int(m.group(1)), m.group(2) == "true"
        outs = {}
        for x in parts[2].split(" ; "):
            mm = re.match(r"(.*) @(\d*)$", x.strip())
            if mm:
                outs[mm.group(1).strip()] = mm.group(2)
        res["coverage"]["evaluations"] += n
        res["coverage"]["distinct_nontrivial"] += len(outs)
        res["coverage"]["scenarios"].append(dict(scenario=sc, schedules=n, exhaustive=complete, outcomes=len(outs),
                                                 model_outcomes=len(model.get(sc, [])) if sc in model else None))
        if len(res["coverage"]["samples"]) < 3:
            k = sorted(outs)[0]
            res["coverage"]["samples"].append(dict(scenario=sc, schedule=outs[k], outcome=k))
        # stream 3: outcome sets of model and implementation
        if sc in model:
            if complete and set(outs) != model[sc]:
                res["mismatches"].append(f"sched | {sc} | outcome sets differ: only-real={sorted(set(outs) - model[sc])[:3]} only-model={sorted(model[sc] - set(outs))[:3]}")
            elif not complete and not set(outs) <= model[sc]:
                res["mismatches"].append(f"sched | {sc} | real outcome not reachable in the model: {sorted(set(outs) - model[sc])[:3]}")
        # stream 2: the oracle on the real outcomes
        op = sc.split("|")[0].strip().split(":")[0]
        for otxt, sched in outs.items():
            o = parse_outcome(otxt)
            bad = oracle(sc, o) if o else ["unparsable"]
            if not bad:
                continue
            hit = None
            for e in known.get("findings", []):
                if e["property"] == prop and e["operator"] == op and set(bad) <= set(e["clauses"]):
                    hit = e
            if hit:
                res["known"].append(dict(id=hit["id"], what=f"{sc} @{sched}: {otxt}"))
            else:
                res["violations"].append(dict(kind="impl-vs-oracle", scenario=sc, schedule=sched, outcome=otxt, clauses=bad,
                                              replay_cmd=f"echo '{sc} # {sched}' | harness/target-verif/debug/cbharness sched-run"))
    res["coverage"]["rule"] = ("evaluations = schedules executed on the real crate (verif build, token scheduler, stateless DFS, per-scenario "
                               "cap); distinct_nontrivial = distinct observable outcomes over all scenarios; every scenario has >= 2 racing threads")
    return res


# ------------------------------------------------------------------------------------------------ interval (C16)
def ivl_scripts(max_subs, max_len):
    """all scripts ≤ max_len over ≤ max_subs subscriptions: each subscription starts with its S token, indices appear in order"""
    out = []
    def rec(prefix, subs, length):
        if prefix:
            out.append(" ".join(prefix))
        if length == max_len:
            return
        for j in range(subs):
            for t in (f"T{j}", f"T{j}q", f"Q{j}", f"T{j}e", f"R{j}"):
                rec(prefix + [t], subs, length + 1)
        if subs < max_subs:
            for r in "osc":
                rec(prefix + [f"S{subs}{r}"], subs + 1, length + 1)
    rec([], 0, 0)
    return out


def run_interval(prop, tier, seed, ctx):
    import random
    rnd = random.Random(seed)
    hb = ctx["harness_bin"]("default")
    scripts = ivl_scripts(2, 6) if tier == "quick" else ivl_scripts(2, 8) + ivl_scripts(3, 7)
    # random long scripts, up to 4 subscriptions
    for _ in range(2000 if tier == "quick" else 100000):
        subs, toks = 0, []
        for _ in range(rnd.randint(5, 40)):
            if subs == 0 or (subs < 4 and rnd.random() < 0.15):
                toks.append(f"S{subs}{rnd.choice('ooosc')}")
                subs += 1
            else:
                j = rnd.randrange(subs)
                toks.append(rnd.choice([f"T{j}", f"T{j}", f"T{j}", f"T{j}", f"T{j}q", f"Q{j}", f"T{j}e", f"R{j}"]))
        scripts.append(" ".join(toks))
    scripts = sorted(set(scripts))
    n = 16
    shards = [scripts[i::n] for i in range(n)]
    def run(sh_lines):
        if not sh_lines:
            return ""
        p = subprocess.run([hb, "interval"], input="\n".join(sh_lines) + "\n", capture_output=True, text=True, timeout=3500)
        q = subprocess.run([ctx["CBDRV"], "ivl"], input=p.stdout, capture_output=True, text=True, timeout=3500)
        return p.stdout, q.stdout
    with ThreadPoolExecutor(max_workers=n) as ex:
        outs = [o for o in ex.map(run, shards) if o]
    res = dict(coverage=dict(evaluations=len(scripts), distinct_nontrivial=0, samples=[]), known=[], violations=[], mismatches=[])
    nontrivial = 0
    for rec, judged in outs:
        for l in rec.splitlines():
            # non-trivial: at least two subscriptions interleaved, or a disposal followed by a later tick
            toks = l.split("|")[0].split()
            # non-trivial: a disposal of subscription j followed by a later tick of the same j (the silence clause is exercised),
            # or ticks of two different subscriptions interleaved (the independence clause is exercised)
            disposed, later_tick = set(), False
            for t in toks:
                j = "".join(ch for ch in t[1:] if ch.isdigit())
                if t[0] == "T" and j in disposed:
                    later_tick = True
                if t[0] == "Q" or t.endswith("q"):
                    disposed.add(j)
            ticks = [("".join(ch for ch in t[1:] if ch.isdigit())) for t in toks if t[0] == "T"]
            alternating = any(ticks[i] != ticks[i + 1] for i in range(len(ticks) - 1))
            if later_tick or alternating:
                nontrivial += 1
        for l in judged.splitlines():
            if l.startswith("MISMATCH "):
                res["mismatches"].append(l[9:])
            elif l.startswith("FLAG "):
                parts = [p.strip() for p in l[5:].split("|")]
                res["violations"].append(dict(kind="impl-vs-oracle", instance="interval", script=parts[1], recorded=parts[2], verdict=parts[3],
                                              replay_cmd=f"echo '{parts[1]}' | harness/target-default/debug/cbharness interval"))
    res["coverage"]["distinct_nontrivial"] = nontrivial
    if outs:
        res["coverage"]["samples"] = [dict(run=l) for l in outs[0][0].splitlines()[-2:]]
    res["coverage"]["rule"] = ("interval under a mock Nurse+Timer with a virtual clock: every script of subscriptions (spawn ok/Spawn/Closed), timer "
                               "expiries, disposals at top level and from inside the data handler, up to the tier's length for <= 2 (3) subscriptions, "
                               "+ seeded random scripts up to 40 events, 4 subscriptions; non-trivial = a disposal followed by a later tick of the same subscription, or ticks of different subscriptions alternating")
    return res


# ------------------------------------------------------------------------------------------------ pipelines (C06)
def est_len(desc):
    """upper bound of the number of items a program text delivers (None: unbounded)"""
    toks = desc.replace("(", " ( ").replace(")", " ) ").split()
    pos = [0]
    def parse():
        t = toks[pos[0]]; pos[0] += 1
        if t != "(":
            return t
        out = []
        while toks[pos[0]] != ")":
            out.append(parse())
        pos[0] += 1
        return out
    def ev(x):
        h = x[0]
        if h == "src": return int(x[1])
        if h == "inf": return None
        if h in ("map", "filter", "scan", "skip"): return ev(x[-1])
        if h == "take":
            c = ev(x[2]); return int(x[1]) if c is None else min(int(x[1]), c)
        if h == "concat":
            cs = [ev(c) for c in x[1:]]; return None if None in cs else sum(cs)
        if h == "twice":
            c = ev(x[1]); return None if c is None else 2 * c
        if h == "flatmap":
            c = ev(x[3])
            if c is None: return None
            return c * c if x[1] == "self" else c * min(int(x[2]), 3 if x[1] == "tri" else 10 ** 9)
        raise ValueError(h)
    return ev(parse())


def gen_pipe(rnd, depth, allow_inf=False, reuse_ok=True):
    """random pipeline description (see harness/src/pipe.rs); `allow_inf`: this position is under a take, unbounded sources allowed"""
    def source():
        r = rnd.random()
        if allow_inf and r < 0.3:
            return f"(inf {rnd.randint(1, 20)})"
        if r < 0.45:
            return f"(src {rnd.choice([0, 0, 1, 2, 3, 5, 8, 13, 21, 40])})"
        return f"(src {rnd.randint(0, 9)} {rnd.randint(-5, 30)})"
    p = source() if depth == 0 or rnd.random() < 0.15 else None
    if p is None:
        kind = rnd.choice(["chain", "chain", "chain", "concat", "flatmap"])
        if reuse_ok and rnd.random() < 0.08:
            kind = "reuse"      # one source VALUE subscribed more than once inside a program (sequentially: twice; overlapping: flatmap self)
        if kind == "reuse":
            # not nested (sizes square), and over a value of at most 60 items: a program of the stream delivers at most a few thousand items
            q = gen_pipe(rnd, min(depth - 1, 2), reuse_ok=False)
            while (est_len(q) or 10 ** 9) > 60:
                q = gen_pipe(rnd, min(depth - 1, 2), reuse_ok=False)
            p = f"(twice {q})" if rnd.random() < 0.4 else f"(flatmap self {rnd.choice([10, 100, -1, 0])} {q})"
        elif kind == "concat":
            members = [gen_pipe(rnd, depth - 1, reuse_ok=reuse_ok) if rnd.random() < 0.7 else "(src 0)" for _ in range(rnd.randint(2, 4) if rnd.random() < 0.85 else rnd.randint(5, 7))]
            p = "(concat " + " ".join(members) + ")"
        elif kind == "flatmap":
            fam = rnd.choice(['rep', 'tri'])       # `tri K` uses take(K): K >= 1 (take(0) is outside the property: n >= 1)
            p = f"(flatmap {fam} {rnd.randint(0 if fam == 'rep' else 1, 3)} {gen_pipe(rnd, depth - 1, reuse_ok=reuse_ok)})"
        else:
            p = gen_pipe(rnd, depth - 1, allow_inf, reuse_ok)
    elif depth > 0 and allow_inf and rnd.random() < 0.5:
        p = gen_pipe(rnd, depth - 1, True, reuse_ok)
    inf_inside = "(inf" in p
    for _ in range(rnd.randint(0, 3)):
        st = rnd.choice(["map", "filter", "scan", "take", "skip"])
        if inf_inside and st == "filter":
            st = "map"          # a filter rejecting everything over an unbounded source never answers: outside the property
        if st == "map":
            p = f"(map {rnd.choice(['add', 'mul'])} {rnd.randint(-3, 4)} {p})"
        elif st == "filter":
            m = rnd.choice([1, 2, 3, 5]); p = f"(filter mod {m} {rnd.randrange(m)} {p})"
        elif st == "scan":
            p = f"(scan lin {rnd.choice([1, 2, 3])} {rnd.randint(0, 5)} {p})"
        elif st == "take":
            p = f"(take {rnd.randint(1, 6) if rnd.random() < 0.85 else rnd.randint(7, 15)} {p})"; inf_inside = False
        else:
            p = f"(skip {rnd.randint(0, 4) if rnd.random() < 0.85 else rnd.randint(5, 12)} {p})"
    if inf_inside:
        p = f"(take {rnd.randint(1, 6)} {p})"
    return p


def run_pipelines(prop, tier, seed, ctx):
    import random
    rnd = random.Random(seed)
    hb = ctx["harness_bin"]("default")
    N = 3000 if tier == "quick" else 150000
    progs = set()
    fixed = ["(src 0)", "(src 3)", "(take 2 (inf 7))", "(take 3 (filter mod 2 0 (src 4)))", "(filter mod 2 1 (src 6 2))",
             "(concat (src 2) (concat (src 0) (src 3)))", "(concat (src 2) (src 0) (src 3))", "(concat (src 0) (src 0) (src 2) (src 0) (src 1))", "(flatmap rep 2 (src 3))", "(take 4 (flatmap tri 2 (src 9)))",
             "(skip 2 (scan lin 2 1 (map mul 3 (src 6))))", "(take 2 (concat (take 1 (inf 3)) (src 4)))",
             "(flatmap rep 0 (src 4))", "(take 3 (flatmap rep 2 (take 5 (inf 1))))",
             "(flatmap self 10 (scan lin 1 0 (src 3)))", "(twice (take 2 (skip 1 (src 5))))", "(flatmap self 10 (take 2 (skip 1 (src 5))))",
             "(take 5 (flatmap self 100 (concat (src 2) (take 1 (src 3 7)))))", "(twice (flatmap self 10 (filter mod 2 1 (src 4))))"]
    progs.update(fixed)
    while len(progs) < N:
        progs.add(gen_pipe(rnd, rnd.randint(0, 3 if tier == "quick" else 4), rnd.random() < 0.35))
    progs = sorted(progs)
    n = 16
    shards = [progs[i::n] for i in range(n)]
    def run(ls):
        p = subprocess.run([hb, "pipelines"], input="\n".join(ls) + "\n", capture_output=True, text=True, timeout=3500)
        q = subprocess.run([ctx["CBDRV"], "pipe"], input=p.stdout, capture_output=True, text=True, timeout=3500)
        return p.stdout, q.stdout
    with ThreadPoolExecutor(max_workers=n) as ex:
        outs = list(ex.map(run, shards))
    res = dict(coverage=dict(evaluations=len(progs), distinct_nontrivial=0, samples=[]), known=[], violations=[], mismatches=[])
    res["coverage"]["distinct_nontrivial"] = sum(1 for p in progs if p.count("(") >= 3)
    res["coverage"]["nested_programs"] = sum(1 for p in progs if "concat" in p or "flatmap" in p)
    res["coverage"]["unbounded_inputs"] = sum(1 for p in progs if "(inf" in p)
    res["coverage"]["programs_reusing_a_source_value"] = sum(1 for p in progs if "(twice" in p or "(flatmap self" in p)
    res["coverage"]["programs_run_on_composed_machines"] = sum(j.count("\nMACH") + (1 if j.startswith("MACH") else 0) for _, j in outs)
    res["coverage"]["of_which_in_the_domain_of_prog3_correct2"] = sum(j.count("\nMTHM") for _, j in outs)
    for rec, judged in outs:
        for l in judged.splitlines():
            if l.startswith("FLAG "):
                parts = [x.strip() for x in l[5:].split("|")]
                if any(c.startswith("MODEL:") for c in parts[-1].split()):
                    res["mismatches"].append(l[5:])
                else:
                    res["violations"].append(dict(kind="impl-vs-oracle", instance=parts[0], program=parts[1] if len(parts) > 1 else "",
                                                  recorded=parts[2] if len(parts) > 2 else "", verdict=parts[-1],
                                                  replay_cmd=f"echo '{parts[1] if len(parts) > 1 else ''}' | harness/target-default/debug/cbharness pipelines"))
            elif l.startswith("BADLINE"):
                res["mismatches"].append(l)
    res["coverage"]["samples"] = [dict(run=l) for l in outs[0][0].splitlines()[1:3]]
    res["coverage"]["rule"] = ("random pull pipelines (seeded): nesting depth <= 3 (4), up to 3 unary stages per level, concat! and map-then-flatten, one source value used twice (sequentially / as outer and inner of a flatten), inputs empty / "
                               "short / long / unbounded under a take; each runs on the real crate twice (for_each-like probe; real for_each) with counting "
                               "iterators; compared with the list function and the demand-driven model `sem` (outputs, completion, iterator advances); every "
                               "program without `flatmap` is also run on the NETWORK of operator machines — stages wired by `compose`, `concat!` members plugged "
                               "into the n-ary concat machine by `plug`, closed by from_iter / for_each (Closed/Exec.lean, Closed/LinearDef.lean) — "
                               "and must agree with `sem` (closure arguments, iterator advances, return, no panic, no monitor violation); "
                               "non-trivial = at least 3 constructors")
    return res


# ------------------------------------------------------------------------------------------------ tracing (C20)
def macro_shape():
    """structural extraction (informational): each arm of `call!` mentions `$message` once as an expression to evaluate; the
    not(tracing) arms of `instrument!` / `trace!` expand to nothing"""
    import re
    out = {}
    try:
        src = open("/repo/src/utils/mod.rs").read()
        arms = re.findall(r"if #\[cfg\(feature = \"tracing\"\)\] \{(.*?)\} else \{(.*?)\}\s*\}", src, re.S)
        out["call_arms"] = len(arms)
        out["message_evaluated_once_tracing_arm"] = all(a.count("$message") == 1 for a, _ in arms)
        out["message_evaluated_once_plain_arm"] = all(b.count("$message") == 1 for _, b in arms)
        tsrc = open("/repo/src/utils/tracing.rs").read()
        out["tracing_rs_has_else_arm"] = "} else {" in tsrc
    except Exception as e:
        out["error"] = str(e)
    return out


def run_tracing(prop, tier, seed, ctx):
    import importlib.machinery, importlib.util
    # reuse the script generator of the main check
    loader = importlib.machinery.SourceFileLoader("chk", os.path.join(os.path.dirname(os.path.dirname(os.path.abspath(__file__))), "check"))
    spec = importlib.util.spec_from_loader("chk", loader)
    chk = importlib.util.module_from_spec(spec)
    loader.exec_module(chk)
    lines = chk.gen_scripts(prop, tier, seed)
    n = 16
    shards = [lines[i::n] for i in range(n)]
    variants = [("default", []), ("tracing", []), ("tracing", ["--subscriber"])]
    def run(args):
        cfgname, extra_args, ls = args
        if not ls:
            return ""
        p = subprocess.run([ctx["harness_bin"](cfgname), "replay", "--calls"] + extra_args, input="\n".join(ls) + "\n",
                           capture_output=True, text=True, timeout=3500)
        return p.stdout
    recs = []
    for (cfgname, extra_args) in variants:
        with ThreadPoolExecutor(max_workers=n) as ex:
            recs.append([l for o in ex.map(run, [(cfgname, extra_args, sh) for sh in shards]) for l in o.splitlines()])
    res = dict(coverage=dict(evaluations=3 * len(lines), distinct_nontrivial=len(lines), samples=[], macro_shape=macro_shape()),
               known=[], violations=[], mismatches=[])
    names = ["default", "tracing", "tracing+subscriber"]
    for i in (1, 2):
        if len(recs[i]) != len(recs[0]):
            res["violations"].append(dict(kind="impl-vs-impl", what=f"{names[i]} produced {len(recs[i])} recordings, default {len(recs[0])}"))
            continue
        for a, b in zip(recs[0], recs[i]):
            if a != b:
                parts = [x.strip() for x in a.split("|")]
                res["violations"].append(dict(kind="impl-vs-impl", instance=parts[0], script=parts[1], recorded_default=parts[2],
                                              recorded_other=b.split("|")[-1].strip(), other_build=names[i],
                                              verdict="the tracing build changes what peers observe (or how often a message expression is evaluated)"))
                break
    # interval (an anchor of C20 as well): the mock-nursery scripts of C16 on the default and the tracing build
    iv = ivl_scripts(2, 5) + ["S0o T0 T0 S1o T1 T0q T0 T1 Q1 T1", "S0s T0 S1c S2o T2 T2"]
    ivout = []
    for cfgname in ("default", "tracing"):
        p = subprocess.run([ctx["harness_bin"](cfgname), "interval"], input="\n".join(iv) + "\n", capture_output=True, text=True, timeout=3500)
        ivout.append(p.stdout.splitlines())
    res["coverage"]["evaluations"] += 2 * len(iv)
    res["coverage"]["interval_scripts"] = len(iv)
    if ivout[0] != ivout[1]:
        bad = next(((a, b) for a, b in zip(ivout[0], ivout[1]) if a != b), (str(len(ivout[0])), str(len(ivout[1]))))
        res["violations"].append(dict(kind="impl-vs-impl", instance="interval", recorded_default=bad[0], recorded_other=bad[1], other_build="tracing",
                                      verdict="interval behaves differently when built with the tracing feature"))
    if recs[0]:
        res["coverage"]["samples"] = [dict(default=recs[0][0], tracing_with_subscriber=recs[2][0] if recs[2] else None)]
    res["coverage"]["rule"] = ("every sequential script of this run replayed on three builds (default; `tracing` without and with a subscriber installed), "
                               "recordings compared event for event, including the number of invocations of map's closure (`#f=`), which sits inside a "
                               "message expression of call!, and — for the from_iter instances — how often the user's iterable is cloned and advanced "
                               "(`ProbeIter`, also in `#f=`); distinct_nontrivial = distinct scripts")
    return res


# ------------------------------------------------------------------------------------------------ two overlapping subscriptions (C13)
DUAL_INSTS = [("map:add:1", 5, 7), ("filter:mod:2:0", 5, 7), ("scan:lin:2:0", 6, 8), ("skip:1", 6, 8), ("take:1", 6, 8), ("take:2", 6, 8),
              ("merge:2", 6, 7), ("concat:2", 6, 8), ("combine:2", 6, 7), ("fromiter:2", 6, 8), ("fromiter:inf", 5, 7), ("foreach", 5, 7), ("flatten", 7, 9)]


def _depths(script, trace):
    """environment-frame depth after each move of a solo script, from its model trace"""
    toks = trace.split()
    out, d, started = [], 0, False
    for t in toks:
        if t.startswith(">"):
            d += 1
        elif t == "<" or t.startswith("!") or t.startswith("?"):
            pass
        else:
            if started:
                out.append(d)
            started = True
            if t == "R":
                d -= 1
    if started:
        out.append(d)
    return out


def _rename(tok, to_b):
    import re
    m = re.match(r"^(>?)([SUGD])(\d+)(.*)$", tok)
    if not m:
        return tok
    pre, kind, idx, rest = m.group(1), m.group(2), int(m.group(3)), m.group(4)
    sink_kind = (kind in "SU" and pre == "") or (kind in "GD" and pre == ">")
    if to_b:
        idx = idx + 1 if sink_kind else idx + 100
    else:
        idx = idx - 1 if sink_kind else idx - 100
    return f"{pre}{kind}{idx}{rest}"


def _interleave(rnd, a, da, b, db):
    """random interleaving of two solo scripts: a `R` of one side is possible only when that side owns the innermost open frame"""
    ia = ib = 0
    owners, out = [], []
    cur = {0: 0, 1: 0}
    while ia < len(a) or ib < len(b):
        cands = []
        for side, (s, i) in ((0, (a, ia)), (1, (b, ib))):
            if i < len(s):
                if s[i] != "R" or (owners and owners[-1] == side):
                    cands.append(side)
        if not cands:
            return None
        side = rnd.choice(cands)
        s, i, d = (a, ia, da) if side == 0 else (b, ib, db)
        tok, new = s[i], d[i]
        if tok == "R":
            if new < cur[side]:
                owners.pop()
        else:
            if new > cur[side]:
                owners.append(side)
        cur[side] = new
        out.append(tok if side == 0 else _rename(tok, True))
        if side == 0:
            ia += 1
        else:
            ib += 1
    return out


def run_dual(prop, tier, seed, ctx):
    import random
    rnd = random.Random(seed)
    hb = ctx["harness_bin"]("default")
    res = dict(coverage=dict(evaluations=0, distinct_nontrivial=0, samples=[], instances=[]), known=[], violations=[], mismatches=[])
    per_inst = 400 if tier == "quick" else 20000
    jobs = []
    for inst, dq, dt in DUAL_INSTS:
        p = subprocess.run([ctx["CBDRV"], "gen", inst, str(dq if tier == "quick" else dt)], capture_output=True, text=True, timeout=3500)
        solos = []
        for l in p.stdout.splitlines():
            parts = [x.strip() for x in l.split("|")]
            if len(parts) == 3 and "!" not in parts[2] and "?" not in parts[2]:
                solos.append((parts[1].split(), parts[2]))
        if not solos:
            continue
        duals = {}
        tries = 0
        while len(duals) < per_inst and tries < per_inst * 5:
            tries += 1
            (a, ta), (b, tb) = rnd.choice(solos), rnd.choice(solos)
            il = _interleave(rnd, a, _depths(a, ta), b, _depths(b, tb))
            if il:
                duals[" ".join(il)] = (" ".join(a), ta, " ".join(b), tb)
        jobs.append((inst, duals))
    def run(job):
        inst, duals = job
        keys = list(duals)
        p = subprocess.run([hb, "replay", "--dual"], input="\n".join(f"{inst} | {k}" for k in keys) + "\n", capture_output=True, text=True, timeout=3500)
        # solo runs on the real crate (the reference each projection is compared with)
        solo_scripts = sorted({v[0] for v in duals.values()} | {v[2] for v in duals.values()})
        q = subprocess.run([hb, "replay"], input="\n".join(f"{inst} | {k}" for k in solo_scripts) + "\n", capture_output=True, text=True, timeout=3500)
        solo = {}
        for l in q.stdout.splitlines():
            parts = [x.strip() for x in l.split("|")]
            if len(parts) == 3:
                solo[parts[1]] = parts[2]
        bad, nontriv = [], 0
        for l in p.stdout.splitlines():
            parts = [x.strip() for x in l.split("|")]
            if len(parts) != 3:
                continue
            key, rec = parts[1], parts[2].split()
            sa, ta, sb, tb = duals[key]
            pa = [t[2:] for t in rec if t.startswith("a:")]
            pb = [_rename(t[2:], False) for t in rec if t.startswith("b:")]
            sides = [t[0] for t in rec]
            if any(sides[i] != sides[i + 1] for i in range(len(sides) - 1)) and "a" in sides and "b" in sides:
                nontriv += 1
            for name, proj, script in (("A", pa, sa), ("B", pb, sb)):
                ref = solo.get(script, "?missing").split()
                ok = proj[:len(ref)] == ref and all(t.startswith(">") or t == "<" for t in proj[len(ref):])
                if not ok:
                    bad.append(dict(kind="impl-vs-impl", instance=inst, script=key, recorded=parts[2], side=name, solo_script=script,
                                    solo_recorded=" ".join(ref), projection=" ".join(proj),
                                    verdict="the projection of a two-subscription run differs from the solo run: subscriptions are not independent"))
                    break
        return inst, len(keys), nontriv, bad, (p.stdout.splitlines()[:1])
    with ThreadPoolExecutor(max_workers=16) as ex:
        for inst, n, nontriv, bad, sample in ex.map(run, jobs):
            res["coverage"]["evaluations"] += n
            res["coverage"]["distinct_nontrivial"] += nontriv
            res["coverage"]["instances"].append(dict(instance=inst, dual_scripts=n, interleaved=nontriv))
            res["violations"] += bad[:1]
            if sample and len(res["coverage"]["samples"]) < 2:
                res["coverage"]["samples"].append(dict(run=sample[0]))
    res["coverage"]["rule"] = ("two overlapping subscriptions to ONE operator value: random interleavings (nesting allowed: a move of one subscription may be "
                               "made from inside a handler of the other) of two conformant solo scripts enumerated from the model; each projection of the "
                               "recorded run must equal the solo run of that script on the real crate; non-trivial = the two subscriptions really alternate")
    return res
