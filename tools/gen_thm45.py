#!/usr/bin/env python3
"""Writes Thm/C04.lean and Thm/C05.lean: corollaries of the full safety invariants (`Safe`, both ghost layers)."""
import os
ROOT = os.path.dirname(os.path.dirname(os.path.abspath(__file__)))
OPS = [
 ("map", "{α β : Type} (f : α → β)", "Relay.machine (Relay.map f)", "RelayFull.map_safe f s hs", "RelayFull"),
 ("filter", "{α : Type} (p : α → Bool)", "Relay.machine (Relay.filter p)", "RelayFull.filter_safe p s hs", "RelayFull"),
 ("scan", "{α β : Type} (r : β → α → β) (seed : β)", "Relay.machine (Relay.scan r seed)", "RelayFull.scan_safe r seed s hs", "RelayFull"),
 ("skip", "{α : Type} (n : Nat)", "Relay.machine (Relay.skip (α := α) n)", "RelayFull.skip_safe n s hs", "RelayFull"),
 ("take", "{α : Type} (max : Nat)", "Take.machine α max", "TakeFull.take_safe max s hs", "TakeFull"),
 ("from_iter", "{ι α α' : Type} (next : ι → Option (α × ι)) (it0 : ι)", "FromIter.machine α' next it0", "FromIterFull.fromIter_safe next it0 s hs", "FromIterFull"),
 ("for_each", "{α : Type}", "ForEach.machine α", "ForEachFull.forEach_safe s hs", "ForEachFull"),
 ("concat", "{α : Type} (n : Nat) (hn : 0 < n)", "Concat.machine α n", "ConcatFull.concat_safe n hn s hs", "ConcatFull"),
 ("flatten", "{α : Type}", "Flatten.machine α", "FlattenFull.flatten_safe s hs", "FlattenFull"),
]
EXTRA_IMPORTS, EXTRA = [], {"04": "", "05": ""}
X = os.path.join(ROOT, "tools", "thm45_extra.py")
if os.path.exists(X):
    exec(open(X).read())
TITLE = {"04": "no orphaned or doubly-terminated upstream: operators are conformant sinks", "05": "errors are not lost"}
DOC = {"04": "no violation of C04 has been recorded: no upstream subscribed twice or after the output is over, no Pull / Terminate / Error sent to an\nupstream that is not live, the sink's `Error(e)` relayed as `Error(e)` by pass-through operators, no upstream left live once the\noutput is over and control is back at top level",
       "05": "no violation of C05 has been recorded: whenever an upstream delivered `Error(e)` while some sink was live, every such sink had\nreceived exactly `Error(e)` (and no other terminal) and no upstream was live any more when the handler of that error returned"}
for n in ["04", "05"]:
    p = int(n)
    imports = sorted(set(o[4] for o in OPS) | set(EXTRA_IMPORTS))
    out = ["import CallbagModel.Inv.XViols"] + [f"import CallbagModel.Inv.{i}" for i in imports]
    out.append(f"""/-!
# C{n} — {TITLE[n]}: property theorems (statements only; the invariants are in `Inv/*Full.lean`)

`SafeFor {p} s`: {DOC[n]}.
`SReach M s`: `s` is reachable from the initial configuration of `M` by operator micro-steps and moves of a conformant
environment (`legalIn`/`legalRet`, DESIGN §1.2) — every history, every nesting depth, every data value, every closure.
-/
namespace Cb.Thm
""")
    for (suf, binders, mach, prf, _) in OPS:
        out.append(f"theorem C{n}_{suf} {binders} :\n    ∀ s, SReach ({mach}) s → SafeFor {p} s :=\n  fun s hs => ({prf}).safeFor {p}\n")
    out.append(EXTRA[n])
    out.append("end Cb.Thm\n")
    open(os.path.join(ROOT, "lean", "CallbagModel", "Thm", f"C{n}.lean"), "w").write("\n".join(out))
print("wrote Thm/C04, C05")
