#!/bin/bash
# build everything, run the 20 quick checks on the unchanged tree, and commit only if all of it is green
set -e
cd /verif/lean && lake build CallbagModel cbdrv > /verif/.work/build.log 2>&1 || { tail -20 /verif/.work/build.log; echo "BUILD FAILED — not committing"; exit 1; }
cd /verif
[ -z "$(git -C /repo status --porcelain --untracked-files=no)" ] || { echo "/repo is not clean — not committing"; exit 1; }
rm -f /verif/evidence/replays/*.json
for p in $(seq -w 1 20); do
  ./check C$p > /verif/.work/q_C$p.log 2>&1 || { tail -5 /verif/.work/q_C$p.log; echo "check C$p FAILED — not committing"; exit 1; }
  grep -q VIOLATION /verif/.work/q_C$p.log && { echo "check C$p reports a violation — not committing"; exit 1; }
done
python3 tools/gen_manifest.py > /dev/null
git add -A . && git commit -qm "$1" && echo "committed: $1"
