"""Per-property configuration of ./check: which operator instances are replayed, to which depth, which extra streams run."""
import os, json, re

# (instance, quick depth, thorough depth)
RELAYS = [("map:add:1", 10, 13), ("map:mul:3", 8, 11), ("filter:mod:2:0", 10, 13), ("filter:mod:3:1", 8, 11),
          ("scan:lin:2:0", 10, 13), ("scan:lin:1:5", 8, 11), ("skip:1", 10, 13), ("skip:2", 9, 12), ("skip:0", 8, 10)]
TAKES = [("take:1", 11, 14), ("take:2", 11, 14), ("take:3", 9, 13), ("take:0", 8, 10)]
MERGE = [("merge:1", 9, 12), ("merge:2", 10, 12), ("merge:3", 8, 10)]
CONCAT = [("concat:1", 9, 12), ("concat:2", 11, 13), ("concat:3", 10, 12)]
COMBINE = [("combine:1", 9, 12), ("combine:2", 10, 12), ("combine:3", 8, 10)]
FLATTEN = [("flatten", 11, 14)]
SHARE = [("share:1", 10, 13), ("share:2", 10, 12), ("share:3", 8, 10)]
FROMITER = [("fromiter:0", 9, 12), ("fromiter:1", 10, 13), ("fromiter:2", 11, 14), ("fromiter:inf", 9, 12)]
FOREACH = [("foreach", 9, 12)]
# pipelines of operators: `compose` (Ops/Compose.lean) against pipe!(puppets, stage, stage, …) on the real crate
CHAINS = [("chain:map,add,1/take,2", 9, 12), ("chain:filter,mod,2,0/map,mul,3/take,1", 9, 11), ("chain:take,2/skip,1/scan,lin,2,0", 9, 11),
          ("chain:merge,2/take,1", 9, 11), ("chain:concat,2/filter,mod,2,0", 9, 11), ("chain:skip,1/filter,mod,2,1/take,2", 9, 11)]
# an operator as a MEMBER of an n-ary operator (Ops/PlugOp.lean): `at:<j>/<stage>/<n-ary>`
AT = [("at:0/take,1/combine,2", 8, 10), ("at:1/take,1/combine,2", 8, 10), ("at:0/take,2/merge,2", 8, 10), ("at:1/skip,1/concat,2", 8, 10),
      ("at:0/filter,mod,2,0/merge,3", 7, 9), ("at:1/take,1/concat,2", 8, 10), ("at:0/scan,lin,2,0/combine,2", 7, 9)]
# the REAL from_iter as a member of an n-ary operator (Ops/Plug.lean): `in:<j>/<LEN>/<n-ary>` — what the operator sends to a member that
# has ended (combine pulls ended members: KF2) meets the real source's own end-of-life guards
IN = [("in:0/1/combine,2", 8, 10), ("in:1/2/combine,2", 8, 10), ("in:0/1/concat,2", 8, 10), ("in:1/2/concat,3", 7, 9), ("in:0/2/merge,2", 8, 10)]
ALL = RELAYS + TAKES + MERGE + CONCAT + COMBINE + FLATTEN + SHARE + FROMITER + FOREACH + CHAINS + AT + IN

# beyond the properties' domain (concat / combine / flatten members that greet late): watched for panics only, under C17
LATE = [("concatL:2", 9, 12), ("concatL:3", 8, 10), ("combineL:2", 8, 11), ("flattenL", 9, 12)]
INSTS = {
    "C01": ALL, "C02": ALL, "C03": ALL, "C04": ALL, "C05": ALL, "C17": ALL + LATE,
    "C07": RELAYS + TAKES,
    "C08": MERGE, "C09": CONCAT, "C10": COMBINE, "C11": FLATTEN, "C12": SHARE,
    "C14": RELAYS + [t for t in TAKES if t[0] != "take:0"] + CONCAT + FLATTEN + FROMITER,   # take(0) is outside the property (n >= 1)
    "C15": FROMITER,
    "C18": MERGE + COMBINE,
    "C19": TAKES,
    "C20": ALL,
}
# parameter sweep: larger arities and counts than the standing instances (the theorems hold for all n; the correspondence samples n).
# Run in the thorough tier, and in the quick tier for operators whose source file drifted (tools/fingerprint.py): (instance, depth)
SWEEP = {
    "take": [("take:4", 7), ("take:5", 6), ("take:7", 6)], "skip": [("skip:3", 7), ("skip:5", 6)],
    "merge": [("merge:4", 6), ("merge:5", 5), ("merge:6", 5)], "concat": [("concat:4", 7), ("concat:5", 6), ("concat:6", 6)],
    "combine": [("combine:12", 4)], "share": [("share:4", 6), ("share:5", 5)], "fromiter": [("fromiter:3", 8), ("fromiter:5", 7)],
    "scan": [("scan:lin:3:7", 7)], "filter": [("filter:mod:5:2", 7)], "map": [("map:mul:-2", 7)],
    "at": [("at:0/skip,1/merge,2", 7), ("at:1/map,add,1/combine,2", 7), ("at:2/take,1/concat,3", 7), ("at:0/take,1/merge,3", 6),
           ("at:1/filter,mod,2,0/combine,2", 7)],
    "chain": [("chain:merge,3/take,2", 6), ("chain:concat,3/skip,1/take,2", 6), ("chain:map,add,1/filter,mod,2,0/scan,lin,2,0/take,3", 6)],
}
# LONG deterministic walks (cbdrv long, Script.lean `longWalk`): counts in the hundreds, so that a counter that wraps or saturates (a
# `u8`, a fixed-size table) is within reach; always run (cheap): operator -> [(instance, rounds, burst, mode)]
LONG = {
    "skip": [("skip:300", 700, 0, 0), ("skip:260", 40, 300, 1), ("skip:256", 600, 400, 2)],
    "take": [("take:300", 700, 0, 0), ("take:260", 40, 300, 1), ("take:256", 600, 400, 2)],
    "map": [("map:add:1", 600, 0, 0), ("map:add:1", 30, 300, 1), ("map:add:1", 600, 300, 2)],
    "filter": [("filter:mod:2:0", 600, 0, 0), ("filter:mod:3:1", 30, 300, 1), ("filter:mod:2:0", 600, 300, 2)],
    "scan": [("scan:lin:2:0", 600, 0, 0)], "fromiter": [("fromiter:inf", 600, 0, 0), ("fromiter:inf", 6, 300, 1), ("fromiter:300", 700, 0, 0)],
    "merge": [("merge:2", 600, 0, 0), ("merge:3", 30, 300, 1), ("merge:2", 600, 255, 2)],
    "concat": [("concat:2", 600, 0, 0), ("concat:3", 30, 300, 1), ("concat:2", 600, 255, 2), ("concat:3", 900, 256, 2), ("concat:2", 600, 254, 2)],
    "combine": [("combine:2", 600, 0, 0), ("combine:2", 600, 255, 2)], "flatten": [("flatten", 600, 0, 0), ("flatten", 600, 255, 2)], "share": [("share:2", 600, 0, 0), ("share:1", 30, 300, 1)],
    "foreach": [("foreach", 600, 0, 0)],
    "chain": [("chain:map,add,1/take,300", 700, 0, 0), ("chain:skip,260/filter,mod,2,1/take,260", 1200, 0, 0)],
}
RANDOM = {"quick": (1500, 40), "thorough": (50000, 80), "escalated": (8000, 60)}


def long_for(prop):
    ops = {i.split(":")[0] for (i, _, _) in INSTS.get(prop, [])}
    return [x for op in sorted(ops) for x in LONG.get(op, [])]


def sweep_for(insts):
    """sweep instances of the operators that occur in a plan"""
    ops = {i.split(":")[0] for (i, _, _) in insts}
    return [(i, d, d) for op in sorted(ops) for (i, d) in SWEEP.get(op, [])]


def plan(prop, tier):
    """list of (instance, depth, random walks, walk length)"""
    insts = INSTS.get(prop, [])
    import fingerprint
    drifted = fingerprint.drifted_files()
    out = []
    sweep = sweep_for(insts)
    insts = list(insts) + [x for x in sweep if tier != "quick" or fingerprint.drifted_instance(x[0], drifted)]
    for (i, dq, dt) in insts:
        # STRUCTURE DRIFT (tools/fingerprint.py, DESIGN §9.10): the source file an instance was modelled from differs from the one
        # the model was validated against -> the thorough tier's budgets for that instance, whatever tier was asked for
        esc = tier == "quick" and fingerprint.drifted_instance(i, drifted)
        n, l = RANDOM["escalated" if esc else tier]
        out.append((i, dq if tier == "quick" else dt, n, l))
    return out


def structure_drift(prop):
    """(drifted source files, instances of this property's plan that are escalated because of them)"""
    import fingerprint
    drifted = fingerprint.drifted_files()
    return drifted, [i for (i, _, _) in INSTS.get(prop, []) if fingerprint.drifted_instance(i, drifted)]


def corpus(prop):
    """minimised past divergences and witnesses of known findings: always replayed first"""
    p = os.path.join(os.path.dirname(os.path.dirname(os.path.abspath(__file__))), "corpus", prop + ".txt")
    if not os.path.exists(p):
        return []
    return [l.strip() for l in open(p) if l.strip() and not l.startswith("#")]


def in_class(cls, script, recorded):
    """history classes of known findings (DESIGN §3.7). Evaluated on the recorded trace."""
    toks = recorded.split()
    if cls == "any":
        return True
    if cls == "nested-fanout":
        # a `D<i>…` delivered by the upstream while an earlier fan-out of share (an open `>D<k>…`) has not returned
        depth_open = []
        for t in toks:
            if t.startswith(">D"):
                depth_open.append("out")
            elif t.startswith(">"):
                depth_open.append("o")
            elif t == "R":
                if depth_open: depth_open.pop()
            elif t == "<":
                if depth_open: depth_open.pop()
            elif t[0] in "SUGD":
                if t.startswith("D") and "out" in depth_open:
                    return True
                depth_open.append("in")
        return False
    if cls in ("cross-peer", "cross-sink"):
        # some environment call is legal only in the cross-peer environment of lean/CallbagModel/EnvX.lean: a subscription below
        # top level, a talkback call `U<k>…` outside top level / a delivery of data or the greeting to sink k, a delivery `D<i>…`
        # or greeting `G<i>` outside top level / the call subscribing source i / a Pull sent to source i
        import re
        stack = []
        for t in toks:
            if t.startswith(">"):
                stack.append(t)
            elif t in ("R", "<"):
                if stack: stack.pop()
            elif t[0] in "SUGD":
                top = stack[-1] if stack else None
                if top is not None and top.startswith(">"):
                    m = re.match(r"([SUGD])(\d+)", t)
                    mo = re.match(r">([SUGDF])(\d+)(.*)", top)
                    ok = False
                    if m and mo:
                        kind, idx = m.group(1), m.group(2)
                        if kind == "U":
                            ok = (mo.group(1) == "G" and mo.group(2) == idx) or (mo.group(1) == "D" and mo.group(2) == idx and mo.group(3).startswith("d"))
                        elif kind in "GD":
                            ok = (mo.group(1) == "S" and mo.group(2) == idx) or (mo.group(1) == "U" and mo.group(2) == idx and mo.group(3).startswith("p"))
                    if not ok:
                        return True
                stack.append(t)
        return False
    return False


def extra_streams(prop):
    return {"C13": ["dual"], "C16": ["interval"], "C18": ["sched"], "C19": ["sched"], "C20": ["tracing"], "C06": ["pipelines"]}.get(prop, [])


def configs(prop):
    return {"C18": ["verif"], "C19": ["verif"], "C20": ["tracing"]}.get(prop, [])


def run_extra(name, prop, tier, seed, ctx):
    import extra
    return getattr(extra, "run_" + name)(prop, tier, seed, ctx)


COMMON = [
    "peers are spec-conformant in the sense of DESIGN §1.2 (S0–S3, K0–K2), formalised as legalIn/legalRet in Core.lean",
    "user closures are total, pure and do not re-enter the pipeline",
    "the correspondence between the hand-written Lean models and /repo is differential: exhaustive to the stated depth, random beyond, not a proof",
]


def assumptions(prop):
    extra = {
        "C16": ["real executors and timers are outside the model: that sleep(period) completes once per period, thread hand-off latencies"],
        "C18": ["interleavings are sequentially consistent at the granularity of the operators' shared-state accesses; weaker memory orderings are outside the model"],
        "C19": ["interleavings are sequentially consistent at the granularity of the operators' shared-state accesses; weaker memory orderings are outside the model"],
        "C20": ["what the tracing crate does with a subscriber installed is outside the model; Debug implementations are effect-free"],
    }
    return COMMON + extra.get(prop, [])


def model_compare(prop):
    """C20's theorems are generic in the machine and its tie is the three-build comparison: a drift of some operator model is not C20's business"""
    return prop not in ("C20",)
