EXTRA_IMPORTS = ["Combine", "MergeFull", "ShareFull", "ShareWeak", "ComposeInst"]
OPS += [("merge", "{α : Type} (n : Nat)", "Merge.machine α n", "MergeFull.merge_safe n s hs", "MergeFull")]
SHARE = '''/-- `share`: proved for environments in which the source does not deliver from inside one of share's own deliveries
(`noNestedFanout`, the restriction C12 makes in its own quantifier). -/
theorem C%s_share_partial {α : Type} :
    ∀ s, SReachR (Share.machine α) noNestedFanout s → SafeFor %d s :=
  fun s hs => (ShareFull.share_safe_partial s hs).safeFor %d
'''

EXTRA["04"] = SHARE % ("04", 4, 4) + '''/-- `share`, EVERY conformant environment (nested fan-out included): the protocol part of C04 holds — no upstream is subscribed twice or
after the output is over, no Pull / Terminate is sent to an upstream that is not live: the only phase-level violations are late
deliveries (C02/C03). -/
theorem C04_share_protocol {α : Type} :
    ∀ s, SReach (Share.machine α) s → ∀ v ∈ s.g.ph.viols, (∃ k, v = Viol.afterTerm k) ∨ (∃ k, v = Viol.afterDispose k) :=
  fun s hs => (ShareWeak.share_safe_weak s hs).1

/-- pipelines `pipe!(source, op₁, …, opₙ)` of map / filter / scan / skip / take of ANY length (assume–guarantee, Inv/ComposeSafe.lean):
the protocol part of C04 — no upstream subscribed twice or after the output is over, no Pull / Terminate / Error to an upstream that is
not live — and, for closed pipelines ending in `for_each`, the same with `for_each` as the last stage. (The memory part of C04 — error
relay, orphans at top level — is proved per operator above, not yet for pipelines: `_partial`.) -/
theorem C04_pipeline_protocol_partial {S1 L1 S2 L2 α β γ : Type} {M1 : Machine S1 L1 α β} {M2 : Machine S2 L2 β γ}
    (P1 : Pipeable M1) (P2 : Pipeable M2) : ∀ s, SReach (compose M1 M2) s → s.g.ph.viols = [] :=
  fun s hs => ((P1.compose P2).safe s hs).1

theorem C04_closed_pipeline_protocol_partial {S1 L1 S2 L2 α β γ : Type} {Msrc : Machine S1 L1 α β} {Mmid : Machine S2 L2 β γ}
    (hsrc : UpSide Msrc) (hmid : Pipeable Mmid) :
    ∀ s, SReach (compose (compose Msrc Mmid) (ForEach.machine γ)) s → s.g.ph.viols = [] :=
  fun s hs => (closed_pipeline_safe hsrc hmid s hs).1

'''+'''/-- `combine!`: the full statement is FALSE (known findings KF2, KF3: the sink's Pull / Terminate / Error are also sent to members that
have ended, and a Pull broadcast continues after a nested disposal; witnesses in `Thm/Counterexamples.lean`). What is proved: those
messages to non-live members are the ONLY phase-level violations — every member is subscribed exactly once and never after the output
is over. -/
theorem C04_combine_partial {α : Type} (n : Nat) :
    ∀ s, SReach (Combine.machine α n) s → ∀ v ∈ s.g.ph.viols, ∃ i p, v = Viol.upNotLive i p :=
  fun s hs => (Combine.combine_safe_partial n s hs).1
'''
EXTRA["05"] = SHARE % ("05", 5, 5) + '''/- `combine!`: C05 is FALSE for this operator (known finding KF1: an upstream `Error` is counted as a completion; the sink never
receives it). There is no history class on which the property says anything and holds, hence no `_partial` theorem; the witness is
`C05_combine_counterexample` in `Thm/Counterexamples.lean`. -/
'''
