EXTRA_IMPORTS = ["Combine", "MergeFull", "ShareFull"]
OPS += [("merge", "{α : Type} (n : Nat)", "Merge.machine α n", "MergeFull.merge_safe n s hs", "MergeFull")]
SHARE = '''/-- `share`: proved for environments in which the source does not deliver from inside one of share's own deliveries
(`noNestedFanout`, the restriction C12 makes in its own quantifier). -/
theorem C%s_share_partial {α : Type} :
    ∀ s, SReachR (Share.machine α) noNestedFanout s → SafeFor %d s :=
  fun s hs => (ShareFull.share_safe_partial s hs).safeFor %d
'''

EXTRA["04"] = SHARE % ("04", 4, 4) + '''/-- `combine!`: the full statement is FALSE (known findings KF2, KF3: the sink's Pull / Terminate / Error are also sent to members that
have ended, and a Pull broadcast continues after a nested disposal; witnesses in `Thm/Counterexamples.lean`). What is proved: those
messages to non-live members are the ONLY phase-level violations — every member is subscribed exactly once and never after the output
is over. -/
theorem C04_combine_partial {α : Type} (n : Nat) :
    ∀ s, SReach (Combine.machine α n) s → ∀ v ∈ s.g.ph.viols, ∃ i p, v = Viol.upNotLive i p :=
  fun s hs => (Combine.combine_safe_partial n s hs).1
'''
EXTRA["05"] = SHARE % ("05", 5, 5) + '''/- `combine!`: C05 is FALSE for this operator (known finding KF1: an upstream `Error` is counted as a completion; the sink never
receives it). There is no history class on which the property says anything and holds, hence no `_partial` theorem; the witness is
`C05_combine_counterexample` in `Thm/Counterexamples.lean`. -/
'''
