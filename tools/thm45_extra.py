EXTRA_IMPORTS = ["Combine", "MergeFull", "ShareFull", "ShareWeak", "ComposeInst", "ComposeFull", "MonSound", "ShareCS", "FlatPlugSafe"]
OPS += [("merge", "{α : Type} (n : Nat)", "Merge.machine α n", "MergeFull.merge_safe n s hs", "MergeFull")]
SHARE = '''/-- `share`: proved for environments in which the source does not deliver from inside one of share's own deliveries
(`noNestedFanout`, the restriction C12 makes in its own quantifier). -/
theorem C%s_share_partial {α : Type} :
    ∀ s, SReachR (Share.machine α) noNestedFanout s → SafeFor %d s :=
  fun s hs => (ShareFull.share_safe_partial s hs).safeFor %d
'''

ORACLE = '''/-- the oracle that judges traces recorded from the real crate IS the monitor of these theorems: on every model execution the
machine-free monitor `monRun` (Mon.lean), folded over the boundary trace alone, computes exactly the ghost carried by the configuration
(`Inv/MonSound.lean`: `monRun_sound`), so `SafeFor %(n)d` can be read off the trace -/
theorem C0%(n)d_oracle_is_the_monitor {St Loc α β : Type} (M : Machine St Loc α β) :
    ∀ s, SReach M s →
      (SafeFor %(n)d s ↔ (∀ v ∈ (monRun M.shape s.tr.reverse).g.viols, v.prop ≠ %(n)d) ∧
        (%(n)d = 17 → (monRun M.shape s.tr.reverse).panicked = false)) :=
  safeFor_iff_monRun M %(n)d

'''
PIPE = '''/-- pipelines `pipe!(source, op₁, …, opₙ)` of map / filter / scan / skip / take of ANY length, as operators against every conformant
upstream and sink — C0%(n)d in FULL (both monitor layers).  `FullStage` (Inv/ComposeFull.lean): pipeable, one upstream and one sink, no
orphan at top level, and DIRECT error paths (an `Error` arriving at either end is passed on by the handler that receives it, with
nothing in between); closed under `compose`.  A general "Safe M₁ → Safe M₂ → Safe (compose M₁ M₂)" is FALSE (two executions at the
end of Inv/ComposeFull.lean: a stage that delivers one more datum before relaying an upstream Error, over a `take` that completes on
it; a stage that pulls before relaying its sink's Error, under a `take` that completes on the answer). -/
theorem C0%(n)d_pipeline {S1 L1 S2 L2 α β γ : Type} {M1 : Machine S1 L1 α β} {M2 : Machine S2 L2 β γ}
    (h1 : ComposeFull.FullStage M1) (h2 : ComposeFull.FullStage M2) : ∀ s, SReach (compose M1 M2) s → SafeFor %(n)d s :=
  fun s hs => (ComposeFull.compose_safe h1 h2 s hs).1.safeFor %(n)d

/-- the stages (and every composition of stages: `FullStage.compose`) -/
theorem C0%(n)d_full_stages {σ α β : Type} (k : Relay.Kind σ α β) (hk : k.slotted = false → ∀ s a, (k.xfer s a).2 ≠ none) (max : Nat) :
    ComposeFull.FullStage (Relay.machine k) ∧ ComposeFull.FullStage (Take.machine α max) :=
  ⟨ComposeFull.Relay.fullStage k hk, ComposeFull.Take.fullStage max⟩

/-- closed pipelines `pipe!(head, stages…, for_each(f))`, head = from_iter / concat! / flatten: C0%(n)d in full -/
theorem C0%(n)d_closed_pipeline {S1 L1 S2 L2 α β γ : Type} {Msrc : Machine S1 L1 α β} {Mmid : Machine S2 L2 β γ}
    (hsrc : UpSide Msrc) (hmid : Pipeable Mmid) :
    ∀ s, SReach (compose (compose Msrc Mmid) (ForEach.machine γ)) s → SafeFor %(n)d s :=
  fun s hs => (ComposeFull.closed_pipeline_full hsrc hmid s hs).1.safeFor %(n)d

/-- `flatten(map(g)(outer))` as a network (`Ops/FlatPlug.lean`: the outer source and every dynamically created inner source are closed
head-capable sources), alone or heading a closed pipeline: C0%(n)d in full -/
theorem C0%(n)d_flatten_network {So Lo Si Li αo αi : Type} {Mo : Machine So Lo αo Int} {Mi : Machine Si Li αi Int} {initOf : Int → Si}
    (H : FlatPlugSafe.HypF Mo Mi initOf) : ∀ s, SReach (flatPlug Mo Mi initOf) s → SafeFor %(n)d s :=
  fun s hs => (FlatPlugSafe.flatPlug_safe H s hs).1.safeFor %(n)d

/-- `pipe!(from_iter(it), stages…)` as a source, against every conformant sink: C0%(n)d in full -/
theorem C0%(n)d_fromIter_pipeline {ι α α' β S L : Type} (next : ι → Option (α × ι)) (it0 : ι) {Mmid : Machine S L α β}
    (hmid : Pipeable Mmid) : ∀ s, SReach (compose (FromIter.machine α' next it0) Mmid) s → SafeFor %(n)d s :=
  fun s hs => (ComposeFull.fromIter_pipeline_full next it0 hmid s hs).1.safeFor %(n)d

'''
EXTRA["04"] = SHARE % ("04", 4, 4) + '''/-- `share`, EVERY conformant environment (nested fan-out included): the protocol part of C04 holds — no upstream is subscribed twice or
after the output is over, no Pull / Terminate is sent to an upstream that is not live: the only phase-level violations are late
deliveries (C02/C03). -/
theorem C04_share_protocol {α : Type} :
    ∀ s, SReach (Share.machine α) s → ∀ v ∈ s.g.ph.viols, (∃ k, v = Viol.afterTerm k) ∨ (∃ k, v = Viol.afterDispose k) :=
  fun s hs => (ShareWeak.share_safe_weak s hs).1

'''+(PIPE % dict(n=4))+(ORACLE % dict(n=4))+'''/-- `share` under the wider cross-sink environment (`SemCS.lean`): the ONLY C04 deviation is a message to an upstream that has ended, and that
message is always a Pull — share never sends `Terminate`/`Error` to an upstream that is not live (known finding KF5d is exactly this
Pull; `Inv/ShareCS.lean`). -/
theorem C04_share_cross_sink_partial {α : Type} :
    (∀ s, CSReach (Share.machine α) s → (∀ v ∈ s.g.viols, v.prop = 4 → ∃ i, v = Viol.upNotLive i .ended)) ∧
    (∀ s s', CSReach (Share.machine α) s → opStep (Share.machine α) s = some s' →
      ∀ i u, s'.tr = .out (.srcUp i u) :: s.tr → u = .pull ∨ s.g.ph.srcPh i = .live) := by
  refine ⟨?_, ShareCS.share_cs_stray_is_pull⟩
  intro s hs v hm h4
  obtain ⟨hv, hx, _⟩ := ShareCS.share_safe_cs s hs
  unfold G.viols at hm
  rw [hx, List.nil_append] at hm
  rcases hv v hm with ⟨k, rfl⟩ | ⟨k, rfl⟩ | ⟨i, rfl⟩
  · simp [Viol.prop] at h4
  · simp [Viol.prop] at h4
  · exact ⟨i, rfl⟩

'''+'''/-- `combine!`: the full statement is FALSE (known findings KF2, KF3: the sink's Pull / Terminate / Error are also sent to members that
have ended, and a Pull broadcast continues after a nested disposal; witnesses in `Thm/Counterexamples.lean`). What is proved: those
messages to non-live members are the ONLY phase-level violations — every member is subscribed exactly once and never after the output
is over. -/
theorem C04_combine_partial {α : Type} (n : Nat) :
    ∀ s, SReach (Combine.machine α n) s → ∀ v ∈ s.g.ph.viols, ∃ i p, v = Viol.upNotLive i p :=
  fun s hs => (Combine.combine_safe_partial n s hs).1
'''
EXTRA["05"] = SHARE % ("05", 5, 5) + (PIPE % dict(n=5)) + (ORACLE % dict(n=5)) + '''/-- `share` under the wider cross-sink environment: C05 holds — every sink that is still attached receives the upstream's Error
(`Inv/ShareCS.lean`) -/
theorem C05_share_cross_sink {α : Type} : ∀ s, CSReach (Share.machine α) s → SafeFor 5 s := by
  intro s hs
  obtain ⟨hv, hx, hp⟩ := ShareCS.share_safe_cs s hs
  refine ⟨?_, fun h => absurd h (by decide)⟩
  intro v hm
  unfold G.viols at hm
  rw [hx, List.nil_append] at hm
  rcases hv v hm with ⟨k, rfl⟩ | ⟨k, rfl⟩ | ⟨i, rfl⟩ <;> simp [Viol.prop]

'''+'''/- `combine!`: C05 is FALSE for this operator (known finding KF1: an upstream `Error` is counted as a completion; the sink never
receives it). There is no history class on which the property says anything and holds, hence no `_partial` theorem; the witness is
`C05_combine_counterexample` in `Thm/Counterexamples.lean`. -/
'''
