#!/usr/bin/env python3
"""
Seeded changes to teohhanhui/callbag-rs used to test the checks (DESIGN §9.6).

  tools/seeded.py confirm <dir>     in a scratch worktree: demo passes on the unchanged tree, fails with the patch; the existing suite passes with the patch
  tools/seeded.py intake <id> [dir]  confirm + store as seeded/<id>/ + eval
  tools/seeded.py eval <id> [tier]  apply seeded/<id>/patch.diff to /repo, run every claimed check (quick, then thorough for those that stayed
                                    silent if asked), undo the patch, record which checks reported a violation in seeded/<id>/meta.json
"""
import sys, os, json, subprocess, shutil, time
ROOT = os.path.dirname(os.path.dirname(os.path.abspath(__file__)))


def sh(cmd, cwd=None, timeout=3600):
    p = subprocess.run(cmd, cwd=cwd, shell=isinstance(cmd, str), capture_output=True, text=True, timeout=timeout)
    return p.returncode, p.stdout + p.stderr


def confirm(src):
    src = os.path.abspath(src)
    wt = "/tmp/wt/_confirm"
    sh(f"git -C /repo worktree remove --force {wt}")
    rc, out = sh(f"git -C /repo worktree add --detach {wt} HEAD")
    res = {}
    try:
        name = "demo_seeded"
        feat = os.environ.get("SEEDED_FEATURES", "")        # a demo that needs a cargo feature (`tracing`, `verif`) to show the violation
        feat = f"--features {feat} " if feat else ""
        shutil.copy(os.path.join(src, "demo.rs"), f"{wt}/tests/{name}.rs")
        rc0, o0 = sh(f"cargo test --offline {feat}--test {name} 2>&1 | tail -15", cwd=wt)
        res["demo_passes_unchanged"] = "test result: ok" in o0 and "FAILED" not in o0
        rc1, o1 = sh(f"git apply {os.path.join(src, 'patch.diff')}", cwd=wt)
        res["patch_applies"] = rc1 == 0
        rc2, o2 = sh(f"cargo test --offline {feat}--test {name} 2>&1 | tail -15", cwd=wt)
        res["demo_fails_with_patch"] = "FAILED" in o2 or "panicked" in o2
        os.remove(f"{wt}/tests/{name}.rs")
        rc3, o3 = sh("cargo test --offline --no-fail-fast 2>&1 | grep -E '^test result|FAILED|^error' ", cwd=wt)
        lines = [l for l in o3.splitlines() if l.strip()]
        res["suite_passes_with_patch"] = bool(lines) and all(l.startswith("test result: ok") for l in lines)
        rc4, o4 = sh("cargo build --offline --features tracing 2>&1 | tail -3", cwd=wt)
        res["builds_with_tracing"] = "Finished" in o4
        res["detail"] = dict(unchanged=o0[-300:], patched=o2[-500:], suite=o3[-400:])
    finally:
        sh(f"git -C /repo worktree remove --force {wt}")
    return res


def evaluate(sid, tier="quick"):
    d = os.path.join(ROOT, "seeded", sid)
    manifest = json.load(open(os.path.join(ROOT, "MANIFEST.json")))
    props = [c["property_id"] for c in manifest["checks"]]
    rc, out = sh(f"git -C /repo status --porcelain --untracked-files=no")
    if out.strip():
        raise SystemExit("/repo has local modifications: " + out)
    rc, out = sh(f"git -C /repo apply {os.path.join(d, 'patch.diff')}")
    if rc != 0:
        raise SystemExit("patch does not apply: " + out)
    caught, silent = {}, []
    backup = os.path.join(ROOT, ".work", "evidence_backup")
    shutil.rmtree(backup, ignore_errors=True)
    shutil.copytree(os.path.join(ROOT, "evidence"), backup)
    try:
        for p in props:
            t0 = time.time()
            rc, out = sh([os.path.join(ROOT, "check"), p, "--tier", tier], cwd=ROOT)
            viol = [l for l in out.splitlines() if l.startswith("VIOLATION")]
            if viol:
                caught[p] = dict(line=viol[0], wall_s=round(time.time() - t0, 1))
                m = __import__("re").search(r"replay=(\S+)", viol[0])
                if m and os.path.exists(m.group(1)):
                    caught[p]["replay"] = json.load(open(m.group(1)))
            else:
                silent.append(p)
    finally:
        sh("git -C /repo checkout -- .")
        # the evidence directory describes the unchanged tree: put it back (replays written for the seeded change are kept in meta.json)
        shutil.rmtree(os.path.join(ROOT, "evidence"), ignore_errors=True)
        shutil.copytree(backup, os.path.join(ROOT, "evidence"))
    meta_p = os.path.join(d, "meta.json")
    meta = json.load(open(meta_p)) if os.path.exists(meta_p) else {}
    meta.setdefault("evaluation", {})[tier] = dict(caught_by=sorted(caught), silent=silent,
                                                   details={k: {kk: vv for kk, vv in v.items() if kk != "replay"} | ({"replay_kind": v["replay"].get("kind"), "replay_script": v["replay"].get("script") or v["replay"].get("scenario") or v["replay"].get("program")} if "replay" in v else {}) for k, v in caught.items()})
    json.dump(meta, open(meta_p, "w"), indent=1)
    # restore evidence of the unchanged tree
    return caught, silent


def table():
    """markdown table for DESIGN §9.6"""
    rows = ["| seeded | breaks | change (abridged) | needs | quick checks that report it |", "|---|---|---|---|---|"]
    for sid in sorted(os.listdir(os.path.join(ROOT, "seeded"))):
        mp = os.path.join(ROOT, "seeded", sid, "meta.json")
        if not os.path.exists(mp):
            continue
        m = json.load(open(mp))
        ev = m.get("evaluation", {})
        q = ev.get("quick", {}).get("caught_by", [])
        t = ev.get("thorough", {}).get("caught_by", [])
        caught = ", ".join(q) if q else ("none at quick; thorough: " + ", ".join(t) if t else "NONE")
        clean = lambda x: " ".join(str(x).replace("|", "/").split())[:150]
        prop = m.get("breaks") or sid[:3]
        rows.append(f"| {sid} | {prop} | {clean(m.get('summary', ''))} | {clean(m.get('needs', ''))[:140]} | **{caught}** |")
    return "\n".join(rows)


if __name__ == "__main__":
    if sys.argv[1] == "table":
        print(table())
    elif sys.argv[1] == "confirm":
        print(json.dumps(confirm(sys.argv[2]), indent=1))
    elif sys.argv[1] == "intake":
        # intake <id> [dir]: confirm the change a sub-agent left in <dir> (default /tmp/wt/<id>.out), store it as seeded/<id>/, evaluate it
        sid = sys.argv[2]
        src = sys.argv[3] if len(sys.argv) > 3 else f"/tmp/wt/{sid}.out"
        c = confirm(src)
        flags = {k: v for k, v in c.items() if k != "detail"}
        if not all(flags.values()):
            print(sid, "NOT CONFIRMED", flags); print(json.dumps(c["detail"], indent=1)); sys.exit(1)
        d = os.path.join(ROOT, "seeded", sid); os.makedirs(d, exist_ok=True)
        for f in ("patch.diff", "demo.rs"):
            shutil.copy(os.path.join(src, f), d)
        m = json.load(open(os.path.join(src, "meta.json"))); m["confirmation"] = flags
        json.dump(m, open(os.path.join(d, "meta.json"), "w"), indent=1)
        c, s = evaluate(sid, "quick")
        print(sid, "confirmed; caught by:", sorted(c), " silent:", len(s))
    elif sys.argv[1] == "eval":
        c, s = evaluate(sys.argv[2], sys.argv[3] if len(sys.argv) > 3 else "quick")
        print("caught by:", sorted(c), " silent:", s)
