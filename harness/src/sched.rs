//! Thread schedules (C18, C19): member threads deliver into one operator instance of the real crate built with the
//! `verif` feature; a token-passing scheduler lets exactly one thread run between two scheduling points (the hook in
//! front of every shared access of take / merge / combine, and the begin / end of every call into the recording
//! environment), so an execution is a sequentially consistent interleaving at access granularity, determined by the
//! schedule (a list of thread ids) and replayable.
//!
//! Scenario syntax:  `<op> | <thread 0 script> | <thread 1 script> | …`  with `op` one of `take:<max>`, `merge:<n>`,
//! `combine:<n>`, `takemerge:<max>:<n>` and a thread script a space-separated list of `g` (greet), `d<v>` (data), `t`
//! (terminate), `e` (error). Thread `i` plays member `i` (for `take:<max>` all threads play the single upstream).
use arc_swap::ArcSwapOption;
use callbag::*;
use never::Never;
use std::cell::Cell;
use std::collections::BTreeMap;
use std::io::{BufRead, Write};
use std::sync::atomic::{AtomicBool, Ordering};
use std::sync::{Arc, Condvar, Mutex};

struct St {
    current: Option<usize>,
    parked: Vec<bool>,
    done: Vec<bool>,
    labels: Vec<&'static str>,
}
struct Sched {
    m: Mutex<St>,
    cv: Condvar,
}
thread_local! { static TID: Cell<Option<usize>> = Cell::new(None); }
static SCHED: Mutex<Option<Arc<Sched>>> = Mutex::new(None);

fn lock<T>(m: &Mutex<T>) -> std::sync::MutexGuard<'_, T> {
    m.lock().unwrap_or_else(|e| e.into_inner())
}

/// A scheduling point: park until the scheduler grants this thread its next step.
fn yield_at(kind: &'static str) {
    let Some(tid) = TID.with(|t| t.get()) else { return };
    let s = lock(&SCHED).clone().unwrap();
    let mut g = lock(&s.m);
    g.parked[tid] = true;
    g.labels[tid] = kind;
    g.current = None;
    s.cv.notify_all();
    while g.current != Some(tid) {
        g = s.cv.wait(g).unwrap_or_else(|e| e.into_inner());
    }
    g.parked[tid] = false;
}

#[derive(Default, Debug, Clone, PartialEq, Eq, PartialOrd, Ord)]
pub struct Obs {
    greets: usize,
    datas: Vec<String>,
    terms: usize,
    errs: usize,
    up_terms: usize,
    in_flight: usize,
    term_while_data: bool,
    after_term: usize,
    panics: usize,
}
impl Obs {
    fn txt(&self) -> String {
        format!(
            "greets={} datas=[{}] terms={} errs={} upTerms={} termWhileData={} afterTerm={} panics={}",
            self.greets,
            self.datas.join(","),
            self.terms,
            self.errs,
            self.up_terms,
            self.term_while_data,
            self.after_term,
            self.panics
        )
    }
}

type Job = Box<dyn FnOnce() + Send>;
type Build = dyn Fn(&Arc<Mutex<Obs>>) -> Vec<Job>;

/// One execution following `prefix`, then always the lowest runnable thread. Returns choices made, the runnable sets and
/// the labels granted at each choice, and the observation.
fn run_once(prefix: &[usize], build: &Build) -> (Vec<usize>, Vec<Vec<usize>>, Vec<&'static str>, Obs) {
    let obs = Arc::new(Mutex::new(Obs::default()));
    let jobs = build(&obs);
    let n = jobs.len();
    let s = Arc::new(Sched {
        m: Mutex::new(St { current: None, parked: vec![false; n], done: vec![false; n], labels: vec![""; n] }),
        cv: Condvar::new(),
    });
    *lock(&SCHED) = Some(s.clone());
    let mut handles = vec![];
    for (tid, job) in jobs.into_iter().enumerate() {
        let s2 = s.clone();
        let obs2 = obs.clone();
        handles.push(std::thread::spawn(move || {
            TID.with(|t| t.set(Some(tid)));
            yield_at("start");
            let r = std::panic::catch_unwind(std::panic::AssertUnwindSafe(job));
            if r.is_err() {
                lock(&obs2).panics += 1;
            }
            let mut g = lock(&s2.m);
            g.done[tid] = true;
            g.current = None;
            s2.cv.notify_all();
        }));
    }
    let (mut choices, mut sets, mut labels) = (vec![], vec![], vec![]);
    loop {
        let mut g = lock(&s.m);
        while g.current.is_some() || (0..n).any(|i| !g.done[i] && !g.parked[i]) {
            g = s.cv.wait(g).unwrap_or_else(|e| e.into_inner());
        }
        let runnable: Vec<usize> = (0..n).filter(|&i| !g.done[i]).collect();
        if runnable.is_empty() {
            break;
        }
        let pos = choices.len();
        let pick = if pos < prefix.len() && runnable.contains(&prefix[pos]) { prefix[pos] } else { runnable[0] };
        choices.push(pick);
        labels.push(g.labels[pick]);
        sets.push(runnable);
        g.current = Some(pick);
        s.cv.notify_all();
    }
    for h in handles {
        h.join().unwrap();
    }
    let o = lock(&obs).clone();
    (choices, sets, labels, o)
}

/// Stateless depth-first search over all schedules.
fn dfs(build: &Build, limit: usize) -> (usize, BTreeMap<Obs, Vec<usize>>, bool) {
    let mut outcomes = BTreeMap::new();
    let mut count = 0usize;
    let mut stack: Vec<Vec<usize>> = vec![vec![]];
    while let Some(prefix) = stack.pop() {
        if count >= limit {
            return (count, outcomes, false);
        }
        let (choices, sets, _, o) = run_once(&prefix, build);
        count += 1;
        outcomes.entry(o).or_insert_with(|| choices.clone());
        for p in (prefix.len()..choices.len()).rev() {
            for &alt in &sets[p] {
                if alt > choices[p] {
                    let mut np = choices[..p].to_vec();
                    np.push(alt);
                    stack.push(np);
                }
            }
        }
    }
    (count, outcomes, true)
}

fn recording_sink<T: Send + Sync + 'static>(obs: &Arc<Mutex<Obs>>, f: fn(&T) -> String) -> Arc<Sink<T>> {
    let obs = obs.clone();
    Arc::new(
        (move |m: Message<T, Never>| {
            yield_at("call");
            let is_data = matches!(m, Message::Data(_));
            {
                let mut o = lock(&obs);
                if o.terms + o.errs > 0 {
                    o.after_term += 1;
                }
                match &m {
                    Message::Handshake(_) => o.greets += 1,
                    Message::Data(d) => {
                        o.datas.push(f(d));
                        o.in_flight += 1;
                    },
                    Message::Terminate => {
                        o.terms += 1;
                        if o.in_flight > 0 {
                            o.term_while_data = true;
                        }
                    },
                    Message::Error(_) => o.errs += 1,
                    _ => {},
                }
            }
            yield_at("ret");
            if is_data {
                lock(&obs).in_flight -= 1;
            }
        })
        .into(),
    )
}

/// puppet member: remembers the callback it is given; its talkback records Terminate/Error
fn puppet(slot: Arc<ArcSwapOption<Sink<i64>>>) -> Arc<Source<i64>> {
    Arc::new(
        (move |m: Message<Never, i64>| {
            if let Message::Handshake(s) = m {
                slot.store(Some(s));
            }
        })
        .into(),
    )
}
/// the talkback a member hands out: records Terminate/Error and raises the member's `disposed` flag
fn talkback(obs: &Arc<Mutex<Obs>>, disposed: &Arc<AtomicBool>) -> Arc<Source<i64>> {
    let obs = obs.clone();
    let disposed = disposed.clone();
    Arc::new(
        (move |m: Message<Never, i64>| {
            yield_at("call");
            if let Message::Terminate | Message::Error(_) = m {
                lock(&obs).up_terms += 1;
                disposed.store(true, Ordering::SeqCst);
            }
            yield_at("ret");
        })
        .into(),
    )
}

#[derive(Clone, Debug)]
enum Act {
    G,
    D(i64),
    T,
    E,
}
fn parse_thread(s: &str) -> Option<Vec<Act>> {
    s.split_whitespace()
        .map(|t| match t.as_bytes()[0] {
            b'g' => Some(Act::G),
            b't' => Some(Act::T),
            b'e' => Some(Act::E),
            b'd' => t[1..].parse().ok().map(Act::D),
            _ => None,
        })
        .collect()
}

/// A member thread is a conformant source: before each delivery it checks, in a step of its own (as `interval` does),
/// whether it has been disposed, and falls silent if so.
fn job(cb: Arc<Sink<i64>>, acts: Vec<Act>, obs: Arc<Mutex<Obs>>, disposed: Arc<AtomicBool>) -> Job {
    Box::new(move || {
        for a in acts {
            yield_at("check");
            if disposed.load(Ordering::SeqCst) {
                break;
            }
            match a {
                Act::G => cb(Message::Handshake(talkback(&obs, &disposed))),
                Act::D(v) => cb(Message::Data(v)),
                Act::T => cb(Message::Terminate),
                Act::E => cb(Message::Error(Arc::new(crate::seq::E(1)))),
            }
        }
    })
}

fn fmt_i(x: &i64) -> String {
    x.to_string()
}

/// Build the scenario: subscribe the recording sink (single-threaded, before the race), pre-greet members whose script
/// does not start with `g`, and return one job per thread.
fn make_build(op: String, threads: Vec<Vec<Act>>) -> Option<Box<Build>> {
    let parts: Vec<String> = op.split(':').map(|s| s.to_string()).collect();
    let num = |i: usize| -> Option<usize> { parts.get(i)?.parse().ok() };
    match parts[0].as_str() {
        "take" => {
            let max = num(1)?;
            Some(Box::new(move |obs| {
                let slot = Arc::new(ArcSwapOption::from(None));
                let src = take(max)(puppet(slot.clone()));
                src(Message::Handshake(recording_sink::<i64>(obs, fmt_i)));
                let cb = slot.load_full().unwrap();
                let disposed = Arc::new(AtomicBool::new(false));
                cb(Message::Handshake(talkback(obs, &disposed)));
                threads.iter().map(|t| job(cb.clone(), t.clone(), obs.clone(), disposed.clone())).collect()
            }))
        },
        "merge" | "takemerge" => {
            let (max, n) = if parts[0] == "merge" { (None, num(1)?) } else { (Some(num(1)?), num(2)?) };
            Some(Box::new(move |obs| {
                let slots: Vec<_> = (0..n).map(|_| Arc::new(ArcSwapOption::from(None))).collect();
                let members: Vec<Arc<Source<i64>>> = slots.iter().map(|s| puppet(s.clone())).collect();
                let merged: Arc<Source<i64>> = Arc::new(callbag::merge(members.into_boxed_slice()));
                let src: Arc<Source<i64>> = match max {
                    Some(m) => Arc::new(take(m)(merged)),
                    None => merged,
                };
                src(Message::Handshake(recording_sink::<i64>(obs, fmt_i)));
                let flags: Vec<_> = (0..n).map(|_| Arc::new(AtomicBool::new(false))).collect();
                threads
                    .iter()
                    .enumerate()
                    .map(|(i, t)| {
                        let cb = slots[i % n].load_full().unwrap();
                        if !matches!(t.first(), Some(Act::G)) {
                            cb(Message::Handshake(talkback(obs, &flags[i % n])));
                        }
                        job(cb, t.clone(), obs.clone(), flags[i % n].clone())
                    })
                    .collect()
            }))
        },
        "combine" => {
            let n = num(1)?;
            if n != 2 && n != 3 {
                return None;
            }
            Some(Box::new(move |obs| {
                let slots: Vec<_> = (0..n).map(|_| Arc::new(ArcSwapOption::from(None))).collect();
                if n == 2 {
                    let src = combine!(puppet(slots[0].clone()), puppet(slots[1].clone()));
                    src(Message::Handshake(recording_sink::<(i64, i64)>(obs, |t| format!("[{};{}]", t.0, t.1))));
                } else {
                    let src = combine!(puppet(slots[0].clone()), puppet(slots[1].clone()), puppet(slots[2].clone()));
                    src(Message::Handshake(recording_sink::<(i64, i64, i64)>(obs, |t| format!("[{};{};{}]", t.0, t.1, t.2))));
                }
                let flags: Vec<_> = (0..n).map(|_| Arc::new(AtomicBool::new(false))).collect();
                threads
                    .iter()
                    .enumerate()
                    .map(|(i, t)| {
                        let cb = slots[i % n].load_full().unwrap();
                        if !matches!(t.first(), Some(Act::G)) {
                            cb(Message::Handshake(talkback(obs, &flags[i % n])));
                        }
                        job(cb, t.clone(), obs.clone(), flags[i % n].clone())
                    })
                    .collect()
            }))
        },
        _ => None,
    }
}

fn parse_scenario(line: &str) -> Option<(String, Vec<Vec<Act>>)> {
    let parts: Vec<&str> = line.split('|').map(|s| s.trim()).collect();
    if parts.len() < 2 {
        return None;
    }
    let threads = parts[1..].iter().map(|t| parse_thread(t)).collect::<Option<Vec<_>>>()?;
    Some((parts[0].to_string(), threads))
}

#[cfg(feature = "verif")]
fn install_hook() {
    callbag::verif::set_hook(Some(Arc::new(|k| yield_at(k))));
}
#[cfg(not(feature = "verif"))]
fn install_hook() {
    eprintln!("warning: built without the `verif` feature: no scheduling points inside the operators");
}

/// `cbharness sched-all [limit]`: stdin = scenarios, stdout = `scenario # schedules=N complete=B # outcome ; outcome …`
pub fn sched_all(limit: usize) {
    install_hook();
    let stdin = std::io::stdin();
    let out = std::io::stdout();
    let mut out = out.lock();
    for line in stdin.lock().lines() {
        let line = line.unwrap();
        if line.trim().is_empty() {
            continue;
        }
        let Some((op, threads)) = parse_scenario(&line) else {
            writeln!(out, "{} # ?bad-scenario", line.trim()).unwrap();
            continue;
        };
        let Some(build) = make_build(op, threads) else {
            writeln!(out, "{} # ?unknown-op", line.trim()).unwrap();
            continue;
        };
        let (n, outcomes, complete) = dfs(&*build, limit);
        let outs: Vec<String> = outcomes.iter().map(|(o, s)| format!("{} @{}", o.txt(), s.iter().map(|x| x.to_string()).collect::<Vec<_>>().join(""))).collect();
        writeln!(out, "{} # schedules={} complete={} # {}", line.trim(), n, complete, outs.join(" ; ")).unwrap();
    }
}

/// `cbharness sched-run`: stdin lines `scenario # schedule digits`; stdout `scenario # schedule # granted labels # outcome`
pub fn sched_run() {
    install_hook();
    let stdin = std::io::stdin();
    let out = std::io::stdout();
    let mut out = out.lock();
    for line in stdin.lock().lines() {
        let line = line.unwrap();
        let mut it = line.split('#');
        let (Some(sc), Some(sched)) = (it.next(), it.next()) else { continue };
        let Some((op, threads)) = parse_scenario(sc) else { continue };
        let Some(build) = make_build(op, threads) else { continue };
        let prefix: Vec<usize> = sched.trim().chars().filter_map(|c| c.to_digit(10).map(|d| d as usize)).collect();
        let (choices, _, labels, o) = run_once(&prefix, &*build);
        let steps: Vec<String> = choices.iter().zip(labels.iter()).map(|(t, l)| format!("{t}:{l}")).collect();
        writeln!(out, "{} # {} # {} # {}", sc.trim(), choices.iter().map(|x| x.to_string()).collect::<String>(), steps.join(" "), o.txt()).unwrap();
    }
}
