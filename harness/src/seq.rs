//! Sequential script replay (game semantics: a script is a flat list of environment moves; every probe / puppet
//! handler logs what it received and then *gives control to the script*).
use callbag::*;
use never::Never;
use std::collections::HashMap;
use std::error::Error;
use std::io::{BufRead, Write};
use std::sync::{
    atomic::{AtomicUsize, Ordering},
    Arc, Mutex,
};

pub static DUAL: std::sync::atomic::AtomicBool = std::sync::atomic::AtomicBool::new(false);
pub static COUNT_CALLS: std::sync::atomic::AtomicBool = std::sync::atomic::AtomicBool::new(false);
pub static F_CALLS: AtomicUsize = AtomicUsize::new(0);

/// the iterable handed to `from_iter` by the `fromiter:` / `in:` instances: counts into `F_CALLS` (reported as `#f=` under `--calls`) how
/// often the crate advances it (+1) and clones it (+1000) — the builds with the `tracing` feature must not touch it more often (C20)
#[derive(Debug)]
pub struct ProbeIter<I> {
    it: I,
}
impl<I: Clone> Clone for ProbeIter<I> {
    fn clone(&self) -> Self {
        F_CALLS.fetch_add(1000, Ordering::SeqCst);
        ProbeIter { it: self.it.clone() }
    }
}
impl<I: Iterator> Iterator for ProbeIter<I> {
    type Item = I::Item;
    fn next(&mut self) -> Option<Self::Item> {
        F_CALLS.fetch_add(1, Ordering::SeqCst);
        self.it.next()
    }
    fn size_hint(&self) -> (usize, Option<usize>) {
        self.it.size_hint()
    }
}

#[derive(Debug)]
pub struct E(pub u32);
impl std::fmt::Display for E {
    fn fmt(&self, f: &mut std::fmt::Formatter<'_>) -> std::fmt::Result {
        write!(f, "e{}", self.0)
    }
}
impl Error for E {}
pub type Err = Arc<dyn Error + Send + Sync + 'static>;

#[derive(Clone, Debug)]
pub enum Mv {
    S(usize),
    U(usize, char, u32),
    G(usize),
    D(usize, char, i64),
    R,
}

pub fn parse(tok: &str) -> Option<Mv> {
    let b = tok.as_bytes();
    Some(match *b.first()? {
        b'R' => Mv::R,
        b'S' => Mv::S(tok[1..].parse().ok()?),
        b'G' => Mv::G(tok[1..].parse().ok()?),
        b'U' | b'D' => {
            let rest = &tok[1..];
            let p = rest.find(|c: char| !c.is_ascii_digit())?;
            let idx: usize = rest[..p].parse().ok()?;
            let kind = rest.as_bytes()[p] as char;
            let num: i64 = rest[p + 1..].parse().unwrap_or(0);
            if b[0] == b'U' {
                Mv::U(idx, kind, num as u32)
            } else {
                Mv::D(idx, kind, num)
            }
        },
        _ => return None,
    })
}

fn lock<T>(m: &Mutex<T>) -> std::sync::MutexGuard<'_, T> {
    m.lock().unwrap_or_else(|e| e.into_inner())
}

/// Everything the environment knows. `A` = data type of upstream puppets, `T` = data type at the sink.
pub struct World<A: 'static, T: 'static> {
    script: Vec<Mv>,
    toks: Vec<String>,
    pos: AtomicUsize,
    log: Mutex<Vec<String>>,
    errs: Mutex<Vec<(u32, Err)>>,
    sink_tb: Mutex<HashMap<usize, Arc<Source<T>>>>,
    src_sink: Mutex<HashMap<usize, Arc<Sink<A>>>>,
    op: Mutex<Option<Arc<dyn Fn(&Arc<World<A, T>>, usize) + Send + Sync>>>,
    fmt: fn(&T) -> String,
    mk: fn(&Arc<World<A, T>>, i64) -> A,
    gen: AtomicUsize,
    /// C13 (two overlapping subscriptions of one operator value): subscription A uses sink 0 / upstreams i, subscription B sink 1 /
    /// upstreams 100+i; `cur` = the subscription on whose behalf the operator is running, `hstack` = sides of the open handlers
    dual: bool,
    cur: AtomicUsize,
    hstack: Mutex<Vec<usize>>,
}

impl<A: Send + Sync + 'static, T: Send + Sync + 'static> World<A, T> {
    pub fn log(&self, s: String) {
        if self.pos.load(Ordering::SeqCst) <= self.script.len() {
            lock(&self.log).push(s);
        }
    }
    /// log with the side tag (dual mode): `a:` / `b:`
    fn logs(&self, side: usize, s: String) {
        if self.dual {
            self.log(format!("{}:{}", if side == 0 { "a" } else { "b" }, s));
        } else {
            self.log(s);
        }
    }
    fn side_of(mv: &Mv) -> usize {
        match mv {
            Mv::S(k) | Mv::U(k, _, _) => (*k >= 1) as usize,
            Mv::G(i) | Mv::D(i, _, _) => (*i >= 100) as usize,
            Mv::R => 0,
        }
    }
    fn top_side(&self) -> usize {
        lock(&self.hstack).last().copied().unwrap_or(0)
    }
    /// run `f` on behalf of subscription `side`
    fn on_behalf<R>(&self, side: usize, f: impl FnOnce() -> R) -> R {
        let prev = self.cur.swap(side, Ordering::SeqCst);
        let r = f();
        self.cur.store(prev, Ordering::SeqCst);
        r
    }
    /// a handler of the environment (probe / talkback / puppet) runs: remember whose it is while the script has control
    fn in_handler(self: &Arc<Self>, side: usize) {
        lock(&self.hstack).push(side);
        self.turn();
        lock(&self.hstack).pop();
    }
    pub fn err(&self, id: u32) -> Err {
        let mut g = lock(&self.errs);
        if let Some((_, e)) = g.iter().find(|(i, _)| *i == id) {
            return e.clone();
        }
        let e: Err = Arc::new(E(id));
        g.push((id, e.clone()));
        e
    }
    pub fn err_id(&self, e: &Err) -> String {
        let g = lock(&self.errs);
        g.iter()
            .find(|(_, x)| Arc::ptr_eq(x, e))
            .map(|(i, _)| format!("e{i}"))
            .unwrap_or_else(|| "eforeign".into())
    }
    fn next(&self) -> Option<(Mv, String)> {
        let p = self.pos.fetch_add(1, Ordering::SeqCst);
        self.script.get(p).cloned().map(|m| (m, self.toks[p].clone()))
    }
    /// Give control to the script: perform moves until a `R` (return from the handler we are in) or the end.
    pub fn turn(self: &Arc<Self>) {
        loop {
            let Some((mv, tok)) = self.next() else { return };
            let side = if self.dual { Self::side_of(&mv) } else { 0 };
            match mv {
                Mv::R => {
                    self.logs(self.top_side(), tok);
                    return;
                },
                Mv::S(k) => {
                    let op = lock(&self.op).clone().unwrap();
                    self.logs(side, tok);
                    self.on_behalf(side, || op(self, k));
                    self.logs(side, "<".into());
                },
                Mv::U(k, kind, n) => {
                    let tb = lock(&self.sink_tb).get(&k).cloned();
                    let Some(tb) = tb else {
                        self.log(format!("?notb:{tok}"));
                        return;
                    };
                    self.logs(side, tok);
                    self.on_behalf(side, || match kind {
                        'p' => tb(Message::Pull),
                        't' => tb(Message::Terminate),
                        _ => tb(Message::Error(self.err(n))),
                    });
                    self.logs(side, "<".into());
                },
                Mv::G(i) => {
                    let s = lock(&self.src_sink).get(&i).cloned();
                    let Some(s) = s else {
                        self.log(format!("?nosink:{tok}"));
                        return;
                    };
                    self.logs(side, tok);
                    self.on_behalf(side, || s(Message::Handshake(self.talkback(i))));
                    self.logs(side, "<".into());
                },
                Mv::D(i, kind, n) => {
                    let s = lock(&self.src_sink).get(&i).cloned();
                    let Some(s) = s else {
                        self.log(format!("?nosink:{tok}"));
                        return;
                    };
                    self.logs(side, tok);
                    self.on_behalf(side, || match kind {
                        'd' => {
                            let v = (self.mk)(self, n);
                            s(Message::Data(v))
                        },
                        't' => s(Message::Terminate),
                        _ => s(Message::Error(self.err(n as u32))),
                    });
                    self.logs(side, "<".into());
                },
            }
        }
    }
    pub fn probe(self: &Arc<Self>, k: usize) -> Arc<Sink<T>> {
        let w = self.clone();
        Arc::new(
            (move |m: Message<T, Never>| {
                let side = (w.dual && k >= 1) as usize;
                match m {
                    Message::Handshake(tb) => {
                        lock(&w.sink_tb).insert(k, tb);
                        w.logs(side, format!(">G{k}"));
                    },
                    Message::Data(d) => w.logs(side, format!(">D{k}d{}", (w.fmt)(&d))),
                    Message::Terminate => w.logs(side, format!(">D{k}t")),
                    Message::Error(e) => w.logs(side, format!(">D{k}{}", w.err_id(&e))),
                    Message::Pull => w.log("?pull-to-sink".into()),
                }
                w.in_handler(side);
            })
            .into(),
        )
    }
    pub fn talkback(self: &Arc<Self>, i: usize) -> Arc<Source<A>> {
        let w = self.clone();
        Arc::new(
            (move |m: Message<Never, A>| {
                let side = (w.dual && i >= 100) as usize;
                match m {
                    Message::Pull => w.logs(side, format!(">U{i}p")),
                    Message::Terminate => w.logs(side, format!(">U{i}t")),
                    Message::Error(e) => w.logs(side, format!(">U{i}{}", w.err_id(&e))),
                    _ => w.log("?bad-to-source".into()),
                }
                w.in_handler(side);
            })
            .into(),
        )
    }
    /// Puppet source with a fixed index (members), or a fresh index per subscription (`None`).
    pub fn puppet(self: &Arc<Self>, idx: Option<usize>) -> Arc<Source<A>> {
        let w = self.clone();
        Arc::new(
            (move |m: Message<Never, A>| {
                if let Message::Handshake(s) = m {
                    // dual mode: the subscription on whose behalf the operator is running decides which upstream index this is
                    let side = if w.dual { w.cur.load(Ordering::SeqCst) } else { 0 };
                    let i = idx.unwrap_or_else(|| w.gen.fetch_add(1, Ordering::SeqCst)) + 100 * side;
                    lock(&w.src_sink).insert(i, s);
                    w.logs(side, format!(">S{i}"));
                    w.in_handler(side);
                }
            })
            .into(),
        )
    }
}

/// Run one script. `build` makes the action performed by the move `S<k>`.
pub fn run<A: Send + Sync + 'static, T: Send + Sync + 'static>(
    script: &str,
    fmt: fn(&T) -> String,
    mk: fn(&Arc<World<A, T>>, i64) -> A,
    gen0: usize,
    build: impl FnOnce(&Arc<World<A, T>>) -> Arc<dyn Fn(&Arc<World<A, T>>, usize) + Send + Sync>,
) -> String {
    let toks: Vec<String> = script.split_whitespace().map(|s| s.to_string()).collect();
    let Some(moves) = toks.iter().map(|t| parse(t)).collect::<Option<Vec<_>>>() else {
        return "?badscript".into();
    };
    let w = Arc::new(World {
        script: moves,
        toks,
        pos: AtomicUsize::new(0),
        log: Mutex::new(vec![]),
        errs: Mutex::new(vec![]),
        sink_tb: Mutex::new(HashMap::new()),
        src_sink: Mutex::new(HashMap::new()),
        op: Mutex::new(None),
        fmt,
        mk,
        gen: AtomicUsize::new(gen0),
        dual: DUAL.load(Ordering::SeqCst),
        cur: AtomicUsize::new(0),
        hstack: Mutex::new(vec![]),
    });
    let op = build(&w);
    *lock(&w.op) = Some(op);
    let w2 = w.clone();
    let r = std::panic::catch_unwind(std::panic::AssertUnwindSafe(move || w2.turn()));
    if r.is_err() {
        // a panic is the last event of a script: nothing is recorded while the stack unwinds
        lock(&w.log).push("!".into());
    }
    // break reference cycles (operator ↔ world) so that memory is returned
    lock(&w.sink_tb).clear();
    lock(&w.src_sink).clear();
    *lock(&w.op) = None;
    let out = lock(&w.log).join(" ");
    out
}

fn fi(x: &i64) -> String {
    x.to_string()
}
fn mki<T>(_: &Arc<World<i64, T>>, n: i64) -> i64 {
    n
}
type W<T> = Arc<World<i64, T>>;
type Act<T> = Arc<dyn Fn(&W<T>, usize) + Send + Sync>;

/// the standard action of `S<k>`: subscribe probe sink `k` to the operator output
fn subscribe_to<T: Send + Sync + 'static>(out: Arc<Source<T>>) -> Act<T> {
    Arc::new(move |w: &W<T>, k: usize| out(Message::Handshake(w.probe(k))))
}

fn members<T: Send + Sync + 'static>(w: &W<T>, n: usize) -> Box<[Arc<Source<i64>>]> {
    (0..n).map(|i| w.puppet(Some(i))).collect::<Vec<_>>().into_boxed_slice()
}

const SCAN_MOD: i64 = 1000003;

/// `chain:<stage>/<stage>/…` (fields of a stage separated by `,`): `pipe!(puppets, stage₁, stage₂, …)` on the real crate
fn run_chain(spec: &str, script: &str) -> Option<String> {
    let stages: Vec<Vec<String>> = spec.split('/').map(|s| s.split(',').map(|x| x.to_string()).collect()).collect();
    let first = stages.first()?.clone();
    for st in &stages {
        match st[0].as_str() {
            "map" | "filter" | "scan" | "skip" | "take" | "merge" | "concat" => {},
            _ => return None,
        }
    }
    Some(run::<i64, i64>(script, fi, mki, 0, move |w| {
        let num = |st: &Vec<String>, i: usize| -> i64 { st.get(i).and_then(|x| x.parse().ok()).unwrap_or(0) };
        let mut cur: Arc<Source<i64>> = match first[0].as_str() {
            "merge" => Arc::new(callbag::merge(members(w, num(&first, 1) as usize))),
            "concat" => Arc::new(callbag::concat(members(w, num(&first, 1) as usize))),
            _ => w.puppet(Some(0)),
        };
        let start = if matches!(first[0].as_str(), "merge" | "concat") { 1 } else { 0 };
        for st in &stages[start..] {
            let (a, b) = (num(st, 2), num(st, 3));
            cur = match (st[0].as_str(), st.get(1).map(|x| x.as_str())) {
                ("map", Some("add")) => Arc::new(map(move |x: i64| x + a)(cur)),
                ("map", Some("mul")) => Arc::new(map(move |x: i64| x * a)(cur)),
                ("filter", _) => Arc::new(filter(move |x: &i64| x.rem_euclid(a) == b)(cur)),
                ("scan", _) => Arc::new(scan(move |acc: i64, x: i64| (acc * a + x).rem_euclid(SCAN_MOD), b)(cur)),
                ("skip", _) => Arc::new(skip(num(st, 1) as usize)(cur)),
                ("take", _) => Arc::new(take(num(st, 1) as usize)(cur)),
                _ => cur,
            };
        }
        subscribe_to(cur)
    }))
}

/// one unary stage (fields separated by `,`) applied to a source
fn apply_stage(st: &[String], cur: Arc<Source<i64>>) -> Option<Arc<Source<i64>>> {
    let num = |i: usize| -> i64 { st.get(i).and_then(|x| x.parse().ok()).unwrap_or(0) };
    let (a, b) = (num(2), num(3));
    Some(match (st.first()?.as_str(), st.get(1).map(|x| x.as_str())) {
        ("map", Some("add")) => Arc::new(map(move |x: i64| x + a)(cur)),
        ("map", Some("mul")) => Arc::new(map(move |x: i64| x * a)(cur)),
        ("filter", _) => Arc::new(filter(move |x: &i64| x.rem_euclid(a) == b)(cur)),
        ("scan", _) => Arc::new(scan(move |acc: i64, x: i64| (acc * a + x).rem_euclid(SCAN_MOD), b)(cur)),
        ("skip", _) => Arc::new(skip(num(1) as usize)(cur)),
        ("take", _) => Arc::new(take(num(1) as usize)(cur)),
        _ => return None,
    })
}

/// `at:<j>/<stage>/<n-ary>`: the unary stage applied to member `j` of `merge,N` / `concat,N` / `combine,N` (N = 2, 3 for combine)
fn run_at(spec: &str, script: &str) -> Option<String> {
    let parts: Vec<&str> = spec.split('/').collect();
    if parts.len() != 3 {
        return None;
    }
    let j: usize = parts[0].parse().ok()?;
    let stage: Vec<String> = parts[1].split(',').map(|x| x.to_string()).collect();
    let nary: Vec<&str> = parts[2].split(',').collect();
    let n: usize = nary.get(1)?.parse().ok()?;
    if j >= n || apply_stage(&stage, Arc::new((|_m: Message<Never, i64>| {}).into())).is_none() {
        return None;
    }
    let member = move |w: &W<i64>, i: usize, stage: &Vec<String>| -> Arc<Source<i64>> {
        let p = w.puppet(Some(i));
        if i == j { apply_stage(stage, p).unwrap() } else { p }
    };
    match nary[0] {
        "merge" | "concat" => {
            let is_merge = nary[0] == "merge";
            Some(run::<i64, i64>(script, fi, mki, 0, move |w| {
                let ms: Box<[Arc<Source<i64>>]> = (0..n).map(|i| member(w, i, &stage)).collect::<Vec<_>>().into_boxed_slice();
                subscribe_to(if is_merge { Arc::new(callbag::merge(ms)) } else { Arc::new(callbag::concat(ms)) })
            }))
        },
        "combine" => {
            let member2 = move |w: &Arc<World<i64, (i64, i64)>>, i: usize, stage: &Vec<String>| -> Arc<Source<i64>> {
                let p = w.puppet(Some(i));
                if i == j { apply_stage(stage, p).unwrap() } else { p }
            };
            match n {
                2 => Some(run::<i64, (i64, i64)>(script, |t| format!("[{},{}]", t.0, t.1), mki, 0, move |w| {
                    subscribe_to(Arc::new(combine!(member2(w, 0, &stage), member2(w, 1, &stage))))
                })),
                _ => None,
            }
        },
        _ => None,
    }
}

/// `in:<j>/<LEN>/<n-ary>`: the real `from_iter(101 .. 101+LEN)` as member `j` of `merge,N` / `concat,N` / `combine,2`, the other members puppets
fn run_in(spec: &str, script: &str) -> Option<String> {
    let parts: Vec<&str> = spec.split('/').collect();
    if parts.len() != 3 {
        return None;
    }
    let j: usize = parts[0].parse().ok()?;
    let len: i64 = parts[1].parse().ok()?;
    let nary: Vec<&str> = parts[2].split(',').collect();
    let n: usize = nary.get(1)?.parse().ok()?;
    if j >= n {
        return None;
    }
    match nary[0] {
        "merge" | "concat" => {
            let is_merge = nary[0] == "merge";
            Some(run::<i64, i64>(script, fi, mki, 0, move |w| {
                let ms: Box<[Arc<Source<i64>>]> = (0..n)
                    .map(|i| -> Arc<Source<i64>> { if i == j { Arc::new(from_iter(ProbeIter { it: 101i64..101 + len })) } else { w.puppet(Some(i)) } })
                    .collect::<Vec<_>>()
                    .into_boxed_slice();
                subscribe_to(if is_merge { Arc::new(callbag::merge(ms)) } else { Arc::new(callbag::concat(ms)) })
            }))
        },
        "combine" if n == 2 => Some(run::<i64, (i64, i64)>(script, |t| format!("[{},{}]", t.0, t.1), mki, 0, move |w| {
            let m = |i: usize| -> Arc<Source<i64>> { if i == j { Arc::new(from_iter(ProbeIter { it: 101i64..101 + len })) } else { w.puppet(Some(i)) } };
            subscribe_to(Arc::new(combine!(m(0), m(1))))
        })),
        _ => None,
    }
}

pub fn run_inst(inst: &str, script: &str) -> Option<String> {
    if let Some(spec) = inst.strip_prefix("in:") {
        return run_in(spec, script);
    }
    if let Some(spec) = inst.strip_prefix("chain:") {
        return run_chain(spec, script);
    }
    if let Some(spec) = inst.strip_prefix("at:") {
        return run_at(spec, script);
    }
    let parts: Vec<&str> = inst.split(':').collect();
    let num = |i: usize| -> Option<i64> { parts.get(i)?.parse().ok() };
    Some(match parts[0] {
        "map" => {
            let k = num(2)?;
            match parts.get(1)? {
                &"add" => run::<i64, i64>(script, fi, mki, 0, |w| {
                    subscribe_to(Arc::new(map(move |x: i64| {
                        F_CALLS.fetch_add(1, Ordering::SeqCst);
                        x + k
                    })(w.puppet(Some(0)))))
                }),
                &"mul" => run::<i64, i64>(script, fi, mki, 0, |w| {
                    subscribe_to(Arc::new(map(move |x: i64| {
                        F_CALLS.fetch_add(1, Ordering::SeqCst);
                        x * k
                    })(w.puppet(Some(0)))))
                }),
                _ => return None,
            }
        },
        "filter" => {
            let (m, r) = (num(2)?, num(3)?);
            run::<i64, i64>(script, fi, mki, 0, |w| {
                subscribe_to(Arc::new(filter(move |x: &i64| {
                    F_CALLS.fetch_add(1, Ordering::SeqCst);
                    x.rem_euclid(m) == r
                })(w.puppet(Some(0)))))
            })
        },
        "scan" => {
            let (b, s) = (num(2)?, num(3)?);
            run::<i64, i64>(script, fi, mki, 0, |w| {
                subscribe_to(Arc::new(scan(
                    move |a: i64, x: i64| {
                        F_CALLS.fetch_add(1, Ordering::SeqCst);
                        (a * b + x).rem_euclid(SCAN_MOD)
                    },
                    s,
                )(w.puppet(Some(0)))))
            })
        },
        "skip" => {
            let n = num(1)? as usize;
            run::<i64, i64>(script, fi, mki, 0, |w| subscribe_to(Arc::new(skip(n)(w.puppet(Some(0))))))
        },
        "take" => {
            let n = num(1)? as usize;
            run::<i64, i64>(script, fi, mki, 0, |w| subscribe_to(Arc::new(take(n)(w.puppet(Some(0))))))
        },
        "merge" | "merge0" => {
            let n = num(1)? as usize;
            run::<i64, i64>(script, fi, mki, 0, |w| subscribe_to(Arc::new(callbag::merge(members(w, n)))))
        },
        "concat" | "concatL" => {
            let n = num(1)? as usize;
            run::<i64, i64>(script, fi, mki, 0, |w| subscribe_to(Arc::new(callbag::concat(members(w, n)))))
        },
        "combine" | "combineL" => match num(1)? {
            1 => run::<i64, (i64,)>(script, |t| format!("[{}]", t.0), mki, 0, |w| subscribe_to(Arc::new(combine!(w.puppet(Some(0)))))),
            2 => run::<i64, (i64, i64)>(script, |t| format!("[{},{}]", t.0, t.1), mki, 0, |w| {
                subscribe_to(Arc::new(combine!(w.puppet(Some(0)), w.puppet(Some(1)))))
            }),
            3 => run::<i64, (i64, i64, i64)>(script, |t| format!("[{},{},{}]", t.0, t.1, t.2), mki, 0, |w| {
                subscribe_to(Arc::new(combine!(w.puppet(Some(0)), w.puppet(Some(1)), w.puppet(Some(2)))))
            }),
            12 => run::<i64, (i64, i64, i64, i64, i64, i64, i64, i64, i64, i64, i64, i64)>(
                script,
                |t| format!("[{},{},{},{},{},{},{},{},{},{},{},{}]", t.0, t.1, t.2, t.3, t.4, t.5, t.6, t.7, t.8, t.9, t.10, t.11),
                mki,
                0,
                |w| {
                    subscribe_to(Arc::new(combine!(
                        w.puppet(Some(0)), w.puppet(Some(1)), w.puppet(Some(2)), w.puppet(Some(3)), w.puppet(Some(4)), w.puppet(Some(5)),
                        w.puppet(Some(6)), w.puppet(Some(7)), w.puppet(Some(8)), w.puppet(Some(9)), w.puppet(Some(10)), w.puppet(Some(11))
                    )))
                },
            ),
            _ => return None,
        },
        "share" => run::<i64, i64>(script, fi, mki, 0, |w| subscribe_to(Arc::new(share(w.puppet(None))))),
        "fromiter" => match parts.get(1)? {
            &"inf" => run::<i64, i64>(script, fi, mki, 0, |_w| subscribe_to(Arc::new(from_iter(ProbeIter { it: 101i64.. })))),
            _ => {
                let n = num(1)?;
                run::<i64, i64>(script, fi, mki, 0, |_w| subscribe_to(Arc::new(from_iter(ProbeIter { it: 101i64..101 + n }))))
            },
        },
        "foreach" => run::<i64, i64>(script, fi, mki, 0, |w| {
            let src = w.puppet(Some(0));
            Arc::new(move |w: &W<i64>, _k: usize| {
                let w2 = w.clone();
                for_each(move |x: i64| {
                    let side = if w2.dual { w2.cur.load(Ordering::SeqCst) } else { 0 };
                    w2.logs(side, format!(">F{x}"));
                    w2.in_handler(side);
                })(src.clone())
            })
        }),
        _ => return None,
    })
}

pub fn replay_stdin() {
    let stdin = std::io::stdin();
    let stdout = std::io::stdout();
    let mut out = std::io::BufWriter::new(stdout.lock());
    for line in stdin.lock().lines() {
        let line = line.unwrap();
        let parts: Vec<&str> = line.split('|').map(|s| s.trim()).collect();
        if parts.len() < 2 || parts[0].is_empty() {
            continue;
        }
        let (inst, script) = (parts[0], parts[1]);
        F_CALLS.store(0, Ordering::SeqCst);
        let got = if inst == "flatten" || inst == "flattenL" { Some(crate::seq::run_flatten(script)) } else { run_inst(inst, script) };
        let got = got.map(|t| if COUNT_CALLS.load(Ordering::SeqCst) { format!("{t} #f={}", F_CALLS.load(Ordering::SeqCst)) } else { t });
        match got {
            Some(t) => writeln!(out, "{inst} | {script} | {t}").unwrap(),
            None => writeln!(out, "{inst} | {script} | ?unknown-instance").unwrap(),
        }
    }
}

// ---- flatten: a dedicated little world (outer data are sources, inner data are numbers) ----
// Dual mode (`--dual`): two subscriptions to ONE flattened value; side b uses sink 1 and upstream indices 100 + i, as in `World`.
struct FW {
    script: Vec<Mv>,
    toks: Vec<String>,
    pos: AtomicUsize,
    log: Mutex<Vec<String>>,
    errs: Mutex<Vec<(u32, Err)>>,
    sink_tb: Mutex<HashMap<usize, Arc<Source<i64>>>>,
    outer_sink: Mutex<HashMap<usize, Arc<Sink<Arc<Source<i64>>>>>>,
    inner_sink: Mutex<HashMap<usize, Arc<Sink<i64>>>>,
    op: Mutex<Option<Arc<Source<i64>>>>,
    next_inner: [AtomicUsize; 2],
    dual: bool,
    cur: AtomicUsize,
    hstack: Mutex<Vec<usize>>,
}
impl FW {
    fn log(&self, s: String) {
        if self.pos.load(Ordering::SeqCst) <= self.script.len() {
            lock(&self.log).push(s);
        }
    }
    fn logs(&self, side: usize, s: String) {
        if self.dual {
            self.log(format!("{}:{}", if side == 0 { "a" } else { "b" }, s));
        } else {
            self.log(s);
        }
    }
    fn side_of(mv: &Mv) -> usize {
        match mv {
            Mv::S(k) | Mv::U(k, _, _) => (*k >= 1) as usize,
            Mv::G(i) | Mv::D(i, _, _) => (*i >= 100) as usize,
            Mv::R => 0,
        }
    }
    fn on_behalf<R>(&self, side: usize, f: impl FnOnce() -> R) -> R {
        let prev = self.cur.swap(side, Ordering::SeqCst);
        let r = f();
        self.cur.store(prev, Ordering::SeqCst);
        r
    }
    fn in_handler(self: &Arc<Self>, side: usize) {
        lock(&self.hstack).push(side);
        self.turn();
        lock(&self.hstack).pop();
    }
    fn cur_side(&self) -> usize {
        if self.dual { self.cur.load(Ordering::SeqCst) } else { 0 }
    }
    /// upstream index of an outer source: 0, and 100 for the second subscription in dual mode (inner sources are 1, 2, … / 101, 102, …)
    fn is_outer(&self, i: usize) -> bool {
        i == 0 || (self.dual && i == 100)
    }
    fn err(&self, id: u32) -> Err {
        let mut g = lock(&self.errs);
        if let Some((_, e)) = g.iter().find(|(i, _)| *i == id) {
            return e.clone();
        }
        let e: Err = Arc::new(E(id));
        g.push((id, e.clone()));
        e
    }
    fn err_id(&self, e: &Err) -> String {
        let g = lock(&self.errs);
        g.iter().find(|(_, x)| Arc::ptr_eq(x, e)).map(|(i, _)| format!("e{i}")).unwrap_or_else(|| "eforeign".into())
    }
    fn next(&self) -> Option<(Mv, String)> {
        let p = self.pos.fetch_add(1, Ordering::SeqCst);
        self.script.get(p).cloned().map(|m| (m, self.toks[p].clone()))
    }
    fn up_log(self: &Arc<Self>, i: usize, m: &Message<Never, impl Sized>) {
        let side = (i >= 100) as usize;
        match m {
            Message::Pull => self.logs(side, format!(">U{i}p")),
            Message::Terminate => self.logs(side, format!(">U{i}t")),
            Message::Error(e) => self.logs(side, format!(">U{i}{}", self.err_id(e))),
            _ => self.log("?bad-to-source".into()),
        }
    }
    fn turn(self: &Arc<Self>) {
        loop {
            let Some((mv, tok)) = self.next() else { return };
            let side = if self.dual { Self::side_of(&mv) } else { 0 };
            match mv {
                Mv::R => {
                    let top = lock(&self.hstack).last().copied().unwrap_or(0);
                    self.logs(top, tok);
                    return;
                },
                Mv::S(k) => {
                    let op = lock(&self.op).clone().unwrap();
                    let w = self.clone();
                    self.logs(side, tok);
                    self.on_behalf(side, || {
                        op(Message::Handshake(Arc::new(
                            (move |m: Message<i64, Never>| {
                                match m {
                                    Message::Handshake(tb) => {
                                        lock(&w.sink_tb).insert(k, tb);
                                        w.logs(side, format!(">G{k}"));
                                    },
                                    Message::Data(d) => w.logs(side, format!(">D{k}d{d}")),
                                    Message::Terminate => w.logs(side, format!(">D{k}t")),
                                    Message::Error(e) => w.logs(side, format!(">D{k}{}", w.err_id(&e))),
                                    _ => w.log("?pull-to-sink".into()),
                                }
                                w.in_handler(side);
                            })
                            .into(),
                        )))
                    });
                    self.logs(side, "<".into());
                },
                Mv::U(k, kind, n) => {
                    let Some(tb) = lock(&self.sink_tb).get(&k).cloned() else {
                        self.log(format!("?notb:{tok}"));
                        return;
                    };
                    self.logs(side, tok);
                    self.on_behalf(side, || match kind {
                        'p' => tb(Message::Pull),
                        't' => tb(Message::Terminate),
                        _ => tb(Message::Error(self.err(n))),
                    });
                    self.logs(side, "<".into());
                },
                Mv::G(i) if self.is_outer(i) => {
                    let Some(s) = lock(&self.outer_sink).get(&side).cloned() else {
                        self.log(format!("?nosink:{tok}"));
                        return;
                    };
                    let w = self.clone();
                    self.logs(side, tok);
                    self.on_behalf(side, || {
                        s(Message::Handshake(Arc::new(
                            (move |m: Message<Never, Arc<Source<i64>>>| {
                                w.up_log(i, &m);
                                w.in_handler(side);
                            })
                            .into(),
                        )))
                    });
                    self.logs(side, "<".into());
                },
                Mv::G(i) => {
                    let Some(s) = lock(&self.inner_sink).get(&i).cloned() else {
                        self.log(format!("?nosink:{tok}"));
                        return;
                    };
                    let w = self.clone();
                    self.logs(side, tok);
                    self.on_behalf(side, || {
                        s(Message::Handshake(Arc::new(
                            (move |m: Message<Never, i64>| {
                                w.up_log(i, &m);
                                w.in_handler(side);
                            })
                            .into(),
                        )))
                    });
                    self.logs(side, "<".into());
                },
                Mv::D(i, kind, n) if self.is_outer(i) => {
                    let Some(s) = lock(&self.outer_sink).get(&side).cloned() else {
                        self.log(format!("?nosink:{tok}"));
                        return;
                    };
                    self.logs(side, tok);
                    self.on_behalf(side, || match kind {
                        'd' => {
                            let w = self.clone();
                            let inner: Arc<Source<i64>> = Arc::new(
                                (move |m: Message<Never, i64>| {
                                    if let Message::Handshake(sk) = m {
                                        // inner sources are numbered in the order flatten subscribes to them (as `nextId` in the model)
                                        let j = w.next_inner[side].fetch_add(1, Ordering::SeqCst) + 100 * side;
                                        lock(&w.inner_sink).insert(j, sk);
                                        w.logs(side, format!(">S{j}"));
                                        w.in_handler(side);
                                    }
                                })
                                .into(),
                            );
                            s(Message::Data(inner))
                        },
                        't' => s(Message::Terminate),
                        _ => s(Message::Error(self.err(n as u32))),
                    });
                    self.logs(side, "<".into());
                },
                Mv::D(i, kind, n) => {
                    let Some(s) = lock(&self.inner_sink).get(&i).cloned() else {
                        self.log(format!("?nosink:{tok}"));
                        return;
                    };
                    self.logs(side, tok);
                    self.on_behalf(side, || match kind {
                        'd' => s(Message::Data(n)),
                        't' => s(Message::Terminate),
                        _ => s(Message::Error(self.err(n as u32))),
                    });
                    self.logs(side, "<".into());
                },
            }
        }
    }
}

pub fn run_flatten(script: &str) -> String {
    let toks: Vec<String> = script.split_whitespace().map(|s| s.to_string()).collect();
    let Some(moves) = toks.iter().map(|t| parse(t)).collect::<Option<Vec<_>>>() else {
        return "?badscript".into();
    };
    let w = Arc::new(FW {
        script: moves,
        toks,
        pos: AtomicUsize::new(0),
        log: Mutex::new(vec![]),
        errs: Mutex::new(vec![]),
        sink_tb: Mutex::new(HashMap::new()),
        outer_sink: Mutex::new(HashMap::new()),
        inner_sink: Mutex::new(HashMap::new()),
        op: Mutex::new(None),
        next_inner: [AtomicUsize::new(1), AtomicUsize::new(1)],
        dual: DUAL.load(Ordering::SeqCst),
        cur: AtomicUsize::new(0),
        hstack: Mutex::new(vec![]),
    });
    let w1 = w.clone();
    let outer: Arc<Source<Arc<Source<i64>>>> = Arc::new(
        (move |m: Message<Never, Arc<Source<i64>>>| {
            if let Message::Handshake(s) = m {
                // the subscription on whose behalf flatten is running decides which outer subscription this is
                let side = w1.cur_side();
                lock(&w1.outer_sink).insert(side, s);
                w1.logs(side, format!(">S{}", 100 * side));
                w1.in_handler(side);
            }
        })
        .into(),
    );
    *lock(&w.op) = Some(Arc::new(flatten(outer)));
    let w2 = w.clone();
    let r = std::panic::catch_unwind(std::panic::AssertUnwindSafe(move || w2.turn()));
    if r.is_err() {
        lock(&w.log).push("!".into());
    }
    lock(&w.sink_tb).clear();
    lock(&w.outer_sink).clear();
    lock(&w.inner_sink).clear();
    *lock(&w.op) = None;
    let out = lock(&w.log).join(" ");
    out
}
