//! Correspondence harness: drives the real callbag-rs operators through the public API with puppet sources and
//! probe sinks, replaying environment scripts produced by the Lean driver, and records every boundary event in
//! the text protocol documented in `lean/CallbagModel/Script.lean`.
#![allow(dead_code, clippy::type_complexity)]
mod ivl;
mod pipe;
mod sched;
mod seq;

#[cfg(feature = "tracing")]
fn install_subscriber() {
    let _ = tracing_subscriber::fmt().with_max_level(tracing::Level::TRACE).with_writer(std::io::sink).try_init();
}
#[cfg(not(feature = "tracing"))]
fn install_subscriber() {
    eprintln!("warning: built without the `tracing` feature: no subscriber installed");
}

fn main() {
    std::panic::set_hook(Box::new(|_| {}));
    let args: Vec<String> = std::env::args().collect();
    match args.get(1).map(|s| s.as_str()) {
        Some("replay") => {
            // `--subscriber`: install a `tracing` subscriber (tracing build only); `--calls`: append `#f=<n>`, the number of
            // invocations of the user closures (map's f — which sits inside a message expression of `call!` —, filter's predicate, scan's reducer)
            if args.iter().any(|a| a == "--subscriber") {
                install_subscriber();
            }
            seq::DUAL.store(args.iter().any(|a| a == "--dual"), std::sync::atomic::Ordering::SeqCst);
            seq::COUNT_CALLS.store(args.iter().any(|a| a == "--calls"), std::sync::atomic::Ordering::SeqCst);
            seq::replay_stdin()
        },
        Some("sched-all") => sched::sched_all(args.get(2).and_then(|s| s.parse().ok()).unwrap_or(usize::MAX)),
        Some("sched-run") => sched::sched_run(),
        Some("interval") => ivl::replay_stdin(),
        Some("pipelines") => pipe::replay_stdin(),
        _ => {
            eprintln!("usage: cbharness replay   (stdin: `inst | script [| ...]`, stdout: `inst | script | recorded trace`)");
            std::process::exit(2);
        },
    }
}
