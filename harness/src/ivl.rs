//! C16: `interval` under a mock nursery and a virtual clock supplied through the public generic parameter.
//! The mock stores the nursed futures and polls them by hand in the order a script dictates, so that every order of
//! timer expiries, disposals and spawn failures can be replayed deterministically.
//!
//! Script tokens (j = subscription index):  `S<j>o|s|c` subscribe (nursery answers ok / Spawn / Closed) · `T<j>` the timer of
//! task j expires and the task runs to its next await · `T<j>q` the same, and sink j disposes from inside its data handler ·
//! `Q<j>` sink j disposes at top level.  Output: the script's tokens, each followed by what the sinks received while it was
//! executed: `G<j>` · `D<j>:<v>` · `E<j>:spawn|closed`.
use async_executors::Timer;
use async_nursery::{Nurse, NurseErr};
use callbag::*;
use futures::future::{BoxFuture, FutureObj};
use futures::task::noop_waker;
use never::Never;
use std::cell::Cell;
use std::future::Future;
use std::io::{BufRead, Write};
use std::pin::Pin;
use std::sync::{
    atomic::{AtomicBool, Ordering},
    Arc, Mutex,
};
use std::task::{Context, Poll};
use std::time::Duration;

thread_local! { static CUR: Cell<Option<usize>> = Cell::new(None); }

struct Inner {
    tasks: Mutex<Vec<Option<FutureObj<'static, ()>>>>,
    timers: Mutex<Vec<(Option<usize>, Arc<AtomicBool>)>>,
    fail: Mutex<Option<NurseErr>>,
    log: Mutex<Vec<String>>,
}
#[derive(Clone)]
struct Mock(Arc<Inner>);
impl std::fmt::Debug for Mock {
    fn fmt(&self, f: &mut std::fmt::Formatter<'_>) -> std::fmt::Result {
        write!(f, "Mock")
    }
}

impl Nurse<()> for Mock {
    fn nurse_obj(&self, fut: FutureObj<'static, ()>) -> Result<(), NurseErr> {
        if let Some(e) = self.0.fail.lock().unwrap().take() {
            return Err(e);
        }
        self.0.tasks.lock().unwrap().push(Some(fut));
        Ok(())
    }
}
struct Sleep(Arc<AtomicBool>);
impl Future for Sleep {
    type Output = ();
    fn poll(self: Pin<&mut Self>, _: &mut Context<'_>) -> Poll<()> {
        if self.0.load(Ordering::SeqCst) {
            Poll::Ready(())
        } else {
            Poll::Pending
        }
    }
}
impl Timer for Mock {
    fn sleep(&self, _dur: Duration) -> BoxFuture<'static, ()> {
        let f = Arc::new(AtomicBool::new(false));
        self.0.timers.lock().unwrap().push((CUR.with(|c| c.get()), f.clone()));
        Box::pin(Sleep(f))
    }
}
impl Mock {
    /// poll task `t`; true if it finished
    fn poll(&self, t: usize) -> bool {
        let fut = self.0.tasks.lock().unwrap().get_mut(t).and_then(|x| x.take());
        let Some(mut f) = fut else { return true };
        let w = noop_waker();
        let mut cx = Context::from_waker(&w);
        CUR.with(|c| c.set(Some(t)));
        let r = Pin::new(&mut f).poll(&mut cx);
        CUR.with(|c| c.set(None));
        if r.is_pending() {
            self.0.tasks.lock().unwrap()[t] = Some(f);
            false
        } else {
            true
        }
    }
    /// fire the latest timer of task `t` and run the task to its next await
    fn expire(&self, t: usize) -> bool {
        let tm = self.0.timers.lock().unwrap().iter().rev().find(|(o, _)| *o == Some(t)).map(|(_, f)| f.clone());
        if let Some(tm) = tm {
            tm.store(true, Ordering::SeqCst);
        }
        self.poll(t)
    }
}

#[derive(Debug)]
struct DisposeErr;
impl std::fmt::Display for DisposeErr {
    fn fmt(&self, f: &mut std::fmt::Formatter<'_>) -> std::fmt::Result {
        write!(f, "disposed")
    }
}
impl std::error::Error for DisposeErr {}

pub fn run_script(script: &str) -> String {
    let m = Mock(Arc::new(Inner { tasks: Mutex::new(vec![]), timers: Mutex::new(vec![]), fail: Mutex::new(None), log: Mutex::new(vec![]) }));
    let src = interval(Duration::from_millis(10), m.clone());
    // per subscription: talkback, task index (if spawned), "dispose inside the next data handler" flag
    let tbs: Arc<Mutex<Vec<Option<Arc<Source<usize>>>>>> = Arc::new(Mutex::new(vec![]));
    let mut task_of: Vec<Option<usize>> = vec![];
    let nested: Arc<Mutex<Vec<u8>>> = Arc::new(Mutex::new(vec![]));
    for tok in script.split_whitespace() {
        let b = tok.as_bytes();
        let digits: String = tok[1..].chars().take_while(|c| c.is_ascii_digit()).collect();
        let Ok(j) = digits.parse::<usize>() else { return "?badscript".into() };
        let suffix = &tok[1 + digits.len()..];
        m.0.log.lock().unwrap().push(tok.to_string());
        while task_of.len() <= j {
            task_of.push(None);
            tbs.lock().unwrap().push(None);
            nested.lock().unwrap().push(0);
        }
        match b[0] {
            b'S' => {
                if tbs.lock().unwrap()[j].is_some() || task_of[j].is_some() {
                    continue;
                }
                match suffix {
                    "s" => *m.0.fail.lock().unwrap() = Some(NurseErr::Spawn),
                    "c" => *m.0.fail.lock().unwrap() = Some(NurseErr::Closed),
                    _ => {},
                }
                let before = m.0.tasks.lock().unwrap().len();
                let (inner, tbs2, nested2) = (m.0.clone(), tbs.clone(), nested.clone());
                let sink: Arc<Sink<usize>> = Arc::new(
                    (move |msg: Message<usize, Never>| match msg {
                        Message::Handshake(t) => {
                            tbs2.lock().unwrap()[j] = Some(t);
                            inner.log.lock().unwrap().push(format!("G{j}"));
                        },
                        Message::Data(d) => {
                            inner.log.lock().unwrap().push(format!("D{j}:{d}"));
                            let fire = std::mem::replace(&mut nested2.lock().unwrap()[j], 0);
                            if fire != 0 {
                                let tb = tbs2.lock().unwrap()[j].clone();
                                if let Some(tb) = tb {
                                    if fire == 1 {
                                        tb(Message::Terminate);
                                    } else {
                                        tb(Message::Error(Arc::new(DisposeErr)));
                                    }
                                }
                            }
                        },
                        Message::Error(e) => {
                            let kind = match e.downcast_ref::<NurseErr>() {
                                Some(NurseErr::Spawn) => "spawn",
                                Some(NurseErr::Closed) => "closed",
                                _ => "other",
                            };
                            inner.log.lock().unwrap().push(format!("E{j}:{kind}"));
                        },
                        Message::Terminate => inner.log.lock().unwrap().push(format!("X{j}")),
                        _ => {},
                    })
                    .into(),
                );
                src(Message::Handshake(sink));
                *m.0.fail.lock().unwrap() = None;
                if m.0.tasks.lock().unwrap().len() > before {
                    task_of[j] = Some(before);
                    m.poll(before); // the executor starts the task: it runs to its first sleep
                }
            },
            b'T' => {
                if let Some(t) = task_of[j] {
                    if suffix == "q" {
                        nested.lock().unwrap()[j] = 1;
                    } else if suffix == "e" {
                        nested.lock().unwrap()[j] = 2;
                    }
                    m.expire(t);
                    nested.lock().unwrap()[j] = 0;
                }
            },
            b'Q' => {
                let tb = tbs.lock().unwrap()[j].clone();
                if let Some(tb) = tb {
                    tb(Message::Terminate);
                }
            },
            b'R' => {
                // disposal with Error on the talkback
                let tb = tbs.lock().unwrap()[j].clone();
                if let Some(tb) = tb {
                    tb(Message::Error(Arc::new(DisposeErr)));
                }
            },
            _ => return "?badscript".into(),
        }
    }
    let out = m.0.log.lock().unwrap().join(" ");
    out
}

pub fn replay_stdin() {
    let stdin = std::io::stdin();
    let out = std::io::stdout();
    let mut out = std::io::BufWriter::new(out.lock());
    for line in stdin.lock().lines() {
        let line = line.unwrap();
        let script = line.split('|').next().unwrap().trim().to_string();
        if script.is_empty() {
            continue;
        }
        writeln!(out, "{} | {}", script, run_script(&script)).unwrap();
    }
}
