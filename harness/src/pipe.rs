//! C06: pull pipelines built from a textual description, run on the real crate.
//!
//! `(src N)` items 1..=N · `(src N A)` N items from A · `(inf A)` unbounded from A · `(map add|mul K P)` · `(filter mod M R P)` ·
//! `(scan lin B SEED P)` · `(take N P)` · `(skip N P)` · `(concat P Q R …)` (one n-ary concat!) · `(flatmap rep|tri K P)` (`rep K`: a ↦ K items from a;
//! `tri K`: a ↦ take(K) of items 1..=(a mod 4); `self K`: a ↦ map(b ↦ a*K+b)(P), the inner sources being the SAME value P as the outer) ·
//! `(twice P)` = concat!(P, P) of one and the same value P.
//! Output: `out=[…] done=<bool> nexts=<iterator advances> foreach=[…]` — `out`/`done` seen by a for_each-like probe (pull on the
//! greeting and after every datum), `foreach` the arguments of a real `for_each(f)` on a second run of the same pipeline.
use callbag::*;
use never::Never;
use std::io::{BufRead, Write};
use std::sync::{
    atomic::{AtomicBool, AtomicUsize, Ordering},
    Arc, Mutex,
};

#[derive(Clone, Debug)]
enum Sx {
    Atom(String),
    List(Vec<Sx>),
}
fn tokenize(s: &str) -> Vec<String> {
    s.replace('(', " ( ").replace(')', " ) ").split_whitespace().map(|x| x.to_string()).collect()
}
fn parse(toks: &[String], pos: &mut usize) -> Option<Sx> {
    let t = toks.get(*pos)?;
    *pos += 1;
    if t == "(" {
        let mut v = vec![];
        while toks.get(*pos)? != ")" {
            v.push(parse(toks, pos)?);
        }
        *pos += 1;
        Some(Sx::List(v))
    } else if t == ")" {
        None
    } else {
        Some(Sx::Atom(t.clone()))
    }
}
fn atom(s: &Sx) -> Option<&str> {
    if let Sx::Atom(a) = s {
        Some(a)
    } else {
        None
    }
}
fn num(s: &Sx) -> Option<i64> {
    atom(s)?.parse().ok()
}

/// an iterator that counts its `next` calls in a shared counter
#[derive(Clone, Debug)]
struct Counting<I> {
    it: I,
    n: Arc<AtomicUsize>,
}
impl<I: Iterator> Iterator for Counting<I> {
    type Item = I::Item;
    fn next(&mut self) -> Option<Self::Item> {
        self.n.fetch_add(1, Ordering::SeqCst);
        self.it.next()
    }
    // transparent for everything but `next`: an operator that consults the hints sees those of the wrapped iterator
    fn size_hint(&self) -> (usize, Option<usize>) {
        self.it.size_hint()
    }
}

type Src = Arc<Source<i64>>;
const SCAN_MOD: i64 = 1000003;

fn build(sx: &Sx, n: &Arc<AtomicUsize>) -> Option<Src> {
    let Sx::List(v) = sx else { return None };
    let head = atom(v.first()?)?;
    Some(match head {
        "src" => {
            let cnt = num(v.get(1)?)?;
            let from = v.get(2).and_then(num).unwrap_or(1);
            Arc::new(from_iter(Counting { it: from..from + cnt, n: n.clone() }))
        },
        "inf" => {
            let from = num(v.get(1)?)?;
            Arc::new(from_iter(Counting { it: from.., n: n.clone() }))
        },
        "map" => {
            let k = num(v.get(2)?)?;
            let p = build(v.get(3)?, n)?;
            match atom(v.get(1)?)? {
                "add" => Arc::new(map(move |x: i64| x + k)(p)),
                "mul" => Arc::new(map(move |x: i64| x * k)(p)),
                _ => return None,
            }
        },
        "filter" => {
            let (m, r) = (num(v.get(2)?)?, num(v.get(3)?)?);
            let p = build(v.get(4)?, n)?;
            Arc::new(filter(move |x: &i64| x.rem_euclid(m) == r)(p))
        },
        "scan" => {
            let (b, s) = (num(v.get(2)?)?, num(v.get(3)?)?);
            let p = build(v.get(4)?, n)?;
            Arc::new(scan(move |a: i64, x: i64| (a * b + x).rem_euclid(SCAN_MOD), s)(p))
        },
        "take" => {
            let k = num(v.get(1)?)? as usize;
            Arc::new(take(k)(build(v.get(2)?, n)?))
        },
        "skip" => {
            let k = num(v.get(1)?)? as usize;
            Arc::new(skip(k)(build(v.get(2)?, n)?))
        },
        "concat" => {
            // n-ary: ONE concat! over all members (not nested binary ones)
            let members = v[1..].iter().map(|m| build(m, n)).collect::<Option<Vec<Src>>>()?;
            if members.len() < 2 {
                return None;
            }
            Arc::new(callbag::concat(members.into_boxed_slice()))
        },
        "twice" => {
            // the SAME source value subscribed twice, one subscription after the other: concat!(p, p)
            let p = build(v.get(1)?, n)?;
            Arc::new(callbag::concat(vec![p.clone(), p].into_boxed_slice()))
        },
        "flatmap" if atom(v.get(1)?)? == "self" => {
            // the SAME source value as outer and as every inner source (overlapping subscriptions): a ↦ map(b ↦ a*K + b)(p)
            let k = num(v.get(2)?)?;
            let p = build(v.get(3)?, n)?;
            let p2 = p.clone();
            let g = move |a: i64| -> Src { Arc::new(map(move |b: i64| a * k + b)(p2.clone())) };
            Arc::new(flatten(map(g)(p)))
        },
        "flatmap" => {
            let kind = atom(v.get(1)?)?.to_string();
            let k = num(v.get(2)?)?;
            let p = build(v.get(3)?, n)?;
            let n2 = n.clone();
            let g = move |a: i64| -> Src {
                if kind == "rep" {
                    Arc::new(from_iter(Counting { it: a..a + k, n: n2.clone() }))
                } else {
                    Arc::new(take(k as usize)(from_iter(Counting { it: 1..1 + a.rem_euclid(4), n: n2.clone() })))
                }
            };
            Arc::new(flatten(map(g)(p)))
        },
        _ => return None,
    })
}

fn fmt(v: &[i64]) -> String {
    format!("[{}]", v.iter().map(|x| x.to_string()).collect::<Vec<_>>().join(","))
}

pub fn run_line(line: &str) -> String {
    let toks = tokenize(line);
    let mut pos = 0;
    let Some(sx) = parse(&toks, &mut pos) else { return "?parse".into() };
    // run 1: a for_each-like probe that also sees completion
    let n1 = Arc::new(AtomicUsize::new(0));
    let Some(p1) = build(&sx, &n1) else { return "?build".into() };
    let out = Arc::new(Mutex::new(vec![]));
    let done = Arc::new(AtomicBool::new(false));
    let tb: Arc<Mutex<Option<Src>>> = Arc::new(Mutex::new(None));
    {
        let (out, done, tb) = (out.clone(), done.clone(), tb.clone());
        p1(Message::Handshake(Arc::new(
            (move |m: Message<i64, Never>| match m {
                Message::Handshake(t) => {
                    *tb.lock().unwrap() = Some(t.clone());
                    t(Message::Pull);
                },
                Message::Data(d) => {
                    out.lock().unwrap().push(d);
                    let t = tb.lock().unwrap().clone();
                    if let Some(t) = t {
                        t(Message::Pull);
                    }
                },
                Message::Terminate => done.store(true, Ordering::SeqCst),
                _ => {},
            })
            .into(),
        )));
    }
    *tb.lock().unwrap() = None;
    // run 2: the real for_each
    let n2 = Arc::new(AtomicUsize::new(0));
    let p2 = build(&sx, &n2).unwrap();
    let fe = Arc::new(Mutex::new(vec![]));
    {
        let fe = fe.clone();
        for_each(move |x: i64| fe.lock().unwrap().push(x))(p2);
    }
    let s = format!(
        "out={} done={} nexts={} foreach={} nexts2={}",
        fmt(&out.lock().unwrap()),
        done.load(Ordering::SeqCst),
        n1.load(Ordering::SeqCst),
        fmt(&fe.lock().unwrap()),
        n2.load(Ordering::SeqCst)
    );
    s
}

/// `pipe!` is plain left-to-right application: a few static instances, compared with the nested application
pub fn pipe_macro_check() -> bool {
    fn collect(s: Source<i64>) -> Vec<i64> {
        let v = Arc::new(Mutex::new(vec![]));
        let v2 = v.clone();
        for_each(move |x: i64| v2.lock().unwrap().push(x))(s);
        let r = v.lock().unwrap().clone();
        r
    }
    let a2 = collect(pipe!(from_iter(1..=9i64), map(|x: i64| x * 3)));
    let b2 = collect(map(|x: i64| x * 3)(from_iter(1..=9i64)));
    let a3 = collect(pipe!(from_iter(1..=9i64), map(|x: i64| x * 3), filter(|x: &i64| x % 2 == 1)));
    let b3 = collect(filter(|x: &i64| x % 2 == 1)(map(|x: i64| x * 3)(from_iter(1..=9i64))));
    let a4 = collect(pipe!(from_iter(1..=9i64), map(|x: i64| x * 3), filter(|x: &i64| x % 2 == 1), skip(1)));
    let b4 = collect(skip(1)(filter(|x: &i64| x % 2 == 1)(map(|x: i64| x * 3)(from_iter(1..=9i64)))));
    let a5 = collect(pipe!(from_iter(1..=9i64), map(|x: i64| x * 3), filter(|x: &i64| x % 2 == 1), skip(1), take(2)));
    let b5 = collect(take(2)(skip(1)(filter(|x: &i64| x % 2 == 1)(map(|x: i64| x * 3)(from_iter(1..=9i64))))));
    let a6 = collect(pipe!(from_iter(1..=9i64), map(|x: i64| x * 3), filter(|x: &i64| x % 2 == 1), skip(1), take(2), scan(|a: i64, x: i64| a + x, 0),));
    let b6 = collect(scan(|a: i64, x: i64| a + x, 0)(take(2)(skip(1)(filter(|x: &i64| x % 2 == 1)(map(|x: i64| x * 3)(from_iter(1..=9i64)))))));
    // nested pipe
    let a7 = collect(pipe!(pipe!(from_iter(1..=4i64), map(|x: i64| x + 1)), map(|x: i64| x * 2)));
    let b7 = collect(map(|x: i64| x * 2)(map(|x: i64| x + 1)(from_iter(1..=4i64))));
    a2 == b2 && a3 == b3 && a4 == b4 && a5 == b5 && a6 == b6 && a7 == b7 && a6 == vec![9, 24]
}

pub fn replay_stdin() {
    let stdin = std::io::stdin();
    let out = std::io::stdout();
    let mut out = std::io::BufWriter::new(out.lock());
    writeln!(out, "# pipe_macro_check={}", pipe_macro_check()).unwrap();
    for line in stdin.lock().lines() {
        let line = line.unwrap();
        let l = line.split('|').next().unwrap().trim().to_string();
        if l.is_empty() || l.starts_with('#') {
            continue;
        }
        let r = std::panic::catch_unwind(|| run_line(&l)).unwrap_or_else(|_| "!panic".into());
        writeln!(out, "{} | {}", l, r).unwrap();
    }
}
